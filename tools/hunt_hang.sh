#!/bin/bash
# usage: tools/hunt_hang.sh <prop> <from-seed> <to-seed> — repeats a quick check and prints the diagnostics of hangs
p=$1
for seed in $(seq $2 $3); do
  VERIF_SEED=$seed ./check $p --tier quick 2>&1 | grep -E "^$p \[|signature" | cut -c1-200
  for f in evidence/replays/$p-hang-seed$seed-*.json; do
    [ -f "$f" ] && python3 -c "
import json,sys
d=json.load(open('$f'))['event']; print('HANG', '$f', d.get('outstanding')); print('\n'.join(d.get('stacks',[])))"
  done
done
