#!/bin/bash
# usage: tools/mutant_wt.sh <worktree-with-change-applied> <tier> <prop>...
# Runs the checks against a scratch worktree of raindb (not /repo): a copy of the harness is pointed
# at the worktree, evidence and work files go to a scratch directory. Everything is removed afterwards.
set -u
wt=$1; tier=$2; shift 2
id=$(basename "$wt")
scratch=/tmp/mh-$id
rm -rf "$scratch"; mkdir -p "$scratch"
rsync -a --exclude target /verif/harness/ "$scratch/harness/"
sed -i "s|path = \"/repo\"|path = \"$wt\"|" "$scratch/harness/Cargo.toml"
export VERIF_HARNESS="$scratch/harness" VERIF_EVIDENCE_DIR="$scratch/evidence" VERIF_WORK_DIR="$scratch/work"
for p in "$@"; do
  out=$(cd /verif && ./check $p --tier $tier 2>&1); rc=$?
  echo "== $p rc=$rc $(echo "$out" | grep -E "^$p \[" | cut -c1-170)"
  echo "$out" | grep -E "signature:|INCONCLUSIVE|HARNESS|note:" | sort | uniq -c | cut -c1-220 | head -10
done
mkdir -p /tmp/hang-diags; cp "$scratch"/evidence/replays/*-hang-* "$scratch"/evidence/replays/*-abort-* /tmp/hang-diags/ 2>/dev/null
rm -rf "$scratch"
