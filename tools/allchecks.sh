#!/bin/bash
# usage: tools/allchecks.sh <tier> <seed>...   — runs every check, prints one summary line each
tier=${1:-quick}; shift
for seed in "${@:-0}"; do
  for p in C01 C02 C03 C04 C05 C06 C07 C08 C09 C10 C11 C12 C13 C14 C15 C16 C17; do
    out=$(VERIF_SEED=$seed ./check $p --tier $tier 2>&1); rc=$?
    echo "rc=$rc $(echo "$out" | grep -E "^$p \[" | cut -c1-220)"
    echo "$out" | grep -E "signature:|INCONCLUSIVE|HARNESS" | cut -c1-200
  done
done
