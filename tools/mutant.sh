#!/bin/bash
# usage: tools/mutant.sh <patch.diff> <tier> <prop>...   — apply a patch to /repo, run the checks, undo it.
# Never leave /repo modified: the patch is reverted (git checkout) even if a check fails.
set -u
patch=$1; tier=$2; shift 2
if ! git -C /repo diff --quiet; then echo "refusing: /repo has uncommitted changes"; exit 2; fi
git -C /repo apply "$patch" || { echo "patch does not apply"; exit 2; }
trap 'git -C /repo checkout -- . ; git -C /repo clean -fdq src tests 2>/dev/null' EXIT
for p in "$@"; do
  out=$(cd /verif && ./check $p --tier $tier 2>&1); rc=$?
  echo "== $p rc=$rc $(echo "$out" | grep -E "^$p \[" | cut -c1-160)"
  echo "$out" | grep -E "signature:|INCONCLUSIVE|HARNESS|note:" | sort | uniq -c | cut -c1-220 | head -12
done
