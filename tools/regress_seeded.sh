#!/bin/bash
# usage: tools/regress_seeded.sh [jobs] [pattern] — every seeded change is applied to a scratch worktree of /repo HEAD
# and the quick checks that its meta.json names as catching it are run; prints one line per change.
cd /verif
jobs=${1:-3}; pat=${2:-M}
one() {
  d=$1; id=$(basename $d)
  props=$(python3 - "$d/meta.json" <<'PY'
import json,sys
m=json.load(open(sys.argv[1]))
c=m.get('caught_by',{})
ps=[p for p,v in c.items() if p.startswith('C') and not str(v).lower().startswith('silent') and 'no c07 verdict' not in str(v).lower()]
print(' '.join(ps[:2]))
PY
)
  [ -z "$props" ] && { echo "$id: no catching check named"; return; }
  out=$(tools/try_patch.sh $d/patch.diff quick $props 2>&1)
  if echo "$out" | grep -q "does not apply"; then echo "$id: patch does not apply to HEAD"; return; fi
  caught=$(echo "$out" | grep -E "^== C[0-9]+ rc=1" | awk '{print $2}' | tr '\n' ' ')
  incon=$(echo "$out" | grep -E "^== C[0-9]+ rc=0" | grep -o "inconclusive={[^}]*}" | tr '\n' ' ')
  if [ -n "$caught" ]; then echo "$id: caught by $caught"; else echo "$id: NOT CAUGHT by [$props] $incon"; fi
}
export -f one
ls -d seeded/${pat}* | xargs -P $jobs -I{} bash -c 'one {}'
