#!/bin/bash
# usage: tools/try_patch.sh <patch.diff> <tier> <prop>...  — fresh worktree of /repo HEAD + patch, run checks, clean up
set -u
patch=$(readlink -f "$1"); tier=$2; shift 2
wt=/tmp/wt-try-$$
git -C /repo worktree add -q --detach "$wt" HEAD || exit 2
if ! git -C "$wt" apply "$patch"; then echo "patch does not apply to current HEAD"; git -C /repo worktree remove --force "$wt"; exit 2; fi
/verif/tools/mutant_wt.sh "$wt" "$tier" "$@"
git -C /repo worktree remove --force "$wt"
