#!/bin/bash
# usage: tools/somechecks.sh <tier> <seed> <prop>...   — like allchecks.sh for the named properties
tier=$1; seed=$2; shift 2
for p in "$@"; do
  out=$(VERIF_SEED=$seed ./check $p --tier $tier 2>&1); rc=$?
  echo "rc=$rc $(echo "$out" | grep -E "^$p \[" | cut -c1-220)"
  echo "$out" | grep -E "signature:|INCONCLUSIVE|HARNESS" | cut -c1-200
done
