#!/bin/bash
# usage: tools/coverage.sh <tier> [prop...]  — which lines of /repo/src do the checks execute?
# Builds a copy of the harness (and raindb with it) under -Cinstrument-coverage with the nightly toolchain in a
# scratch directory, runs the named checks (default: all) there, merges the profiles and writes
#   $COV/report.txt     per-file line/region/function coverage of /repo/src
#   $COV/uncovered.txt  every source line of /repo/src that no check executed (file:line: text)
# Nothing here decides a property; it tells where the workloads do not reach. Scratch dir: ${COV:-/tmp/cov}; remove it afterwards.
set -u
tier=${1:-quick}; shift || true
props=${@:-C01 C02 C03 C04 C05 C06 C07 C08 C09 C10 C11 C12 C13 C14 C15 C16 C17}
COV=${COV:-/tmp/cov}
tools=$(dirname $(rustc +nightly --print target-libdir))/bin
mkdir -p $COV/prof
rsync -a --exclude target --exclude target-asan /verif/harness/ $COV/harness/
printf '[toolchain]\nchannel = "nightly"\n' > $COV/harness/rust-toolchain.toml
mkdir -p $COV/harness/.cargo
printf '[build]\nrustflags = ["-Cinstrument-coverage"]\n[net]\noffline = true\n' > $COV/harness/.cargo/config.toml
export VERIF_HARNESS=$COV/harness VERIF_EVIDENCE_DIR=$COV/evidence VERIF_WORK_DIR=$COV/work
export LLVM_PROFILE_FILE="$COV/prof/%p-%8m.profraw"
cd /verif
for p in $props; do
  out=$(./check $p --tier $tier 2>&1); rc=$?
  echo "rc=$rc $(echo "$out" | grep -E "^$p \[" | cut -c1-160)"
  # merge as we go: thousands of raw profiles are large
  ls $COV/prof/*.profraw >/dev/null 2>&1 && { $tools/llvm-profdata merge -sparse $COV/prof/*.profraw $( [ -f $COV/all.profdata ] && echo $COV/all.profdata ) -o $COV/all.new && mv $COV/all.new $COV/all.profdata; rm -f $COV/prof/*.profraw; }
done
bin=$COV/harness/target/release/rdbmon
$tools/llvm-cov report $bin -instr-profile=$COV/all.profdata --ignore-filename-regex='(registry|rustc|harness/src)' > $COV/report.txt
$tools/llvm-cov show $bin -instr-profile=$COV/all.profdata --ignore-filename-regex='(registry|rustc|harness/src)' --show-line-counts-or-regions=false --use-color=false > $COV/show.txt
python3 - $COV/show.txt > $COV/uncovered.txt <<'PY'
import re,sys
cur=None
for line in open(sys.argv[1], errors='replace'):
    m=re.match(r'^(/.*\.rs):$', line.strip())
    if m: cur=m.group(1); continue
    m=re.match(r'^\s*(\d+)\|\s*0\|(.*)$', line.rstrip('\n'))
    if m and cur and '/src/' in cur: print(f"{cur}:{m.group(1)}:{m.group(2)}")
PY
tail -3 $COV/report.txt; wc -l $COV/uncovered.txt
