//! Linearizability checking of concurrent histories over a key-value map.
//!
//! Histories are partitioned per key (a map is linearizable iff every key's sub-history is —
//! P-compositionality); each sub-history is a register with operations W(v), W(absent), R(v),
//! R(absent) and is decided by Wing–Gong–Lowe search with memoisation on (linearised set, value).
//! Write values are unique, so a read names its write and the search almost never branches.

use std::collections::{BTreeMap, HashSet};
use std::sync::atomic::{AtomicU64, Ordering};
use std::time::{Duration, Instant};

use parking_lot::Mutex;

use crate::report::show;

pub type Val = Option<Vec<u8>>;

#[derive(Clone, Debug)]
pub struct Event {
    pub thread: u32,
    pub key: Vec<u8>,
    pub is_write: bool,
    /// value written / value read (None = delete / KeyNotFound)
    pub value: Val,
    pub call: u64,
    /// u64::MAX while the operation is still open (never returned)
    pub ret: u64,
    pub note: &'static str,
}

/// Thread-safe recorder with one global logical clock.
#[derive(Default)]
pub struct Recorder {
    clock: AtomicU64,
    events: Mutex<Vec<Event>>,
}

impl Recorder {
    pub fn new() -> Self {
        Recorder::default()
    }
    /// Stamp taken *before* an operation is issued.
    pub fn call(&self) -> u64 {
        self.clock.fetch_add(1, Ordering::SeqCst) + 1
    }
    /// Stamp taken *after* an operation has returned.
    pub fn ret(&self) -> u64 {
        self.clock.fetch_add(1, Ordering::SeqCst) + 1
    }
    pub fn push(&self, e: Event) {
        self.events.lock().push(e);
    }
    pub fn write(&self, thread: u32, key: &[u8], value: Val, call: u64, ret: u64, note: &'static str) {
        self.push(Event { thread, key: key.to_vec(), is_write: true, value, call, ret, note });
    }
    pub fn read(&self, thread: u32, key: &[u8], value: Val, call: u64, ret: u64, note: &'static str) {
        self.push(Event { thread, key: key.to_vec(), is_write: false, value, call, ret, note });
    }
    pub fn take(&self) -> Vec<Event> {
        std::mem::take(&mut *self.events.lock())
    }
    pub fn len(&self) -> usize {
        self.events.lock().len()
    }
}

#[derive(Debug)]
pub enum Verdict {
    Linearizable,
    NotLinearizable { key: Vec<u8>, witness: Vec<String>, reason: String },
    Timeout { key: Vec<u8> },
}

fn describe(e: &Event) -> String {
    format!(
        "t{} {}({}) [{}..{}]{}",
        e.thread,
        if e.is_write { "W" } else { "R" },
        e.value.as_ref().map_or("absent".to_string(), |v| show(&v[..v.len().min(14)])),
        e.call,
        if e.ret == u64::MAX { "open".to_string() } else { e.ret.to_string() },
        if e.note.is_empty() { String::new() } else { format!(" {}", e.note) }
    )
}

/// Decide one key's sub-history. Values are mapped to small ids; id 0 = absent.
fn check_key(key: &[u8], events: &[Event], budget: Duration) -> Verdict {
    let n = events.len();
    if n == 0 {
        return Verdict::Linearizable;
    }
    if n > 127 {
        // keep sub-histories short; callers bound the number of operations per key
        return Verdict::Timeout { key: key.to_vec() };
    }
    let mut ids: BTreeMap<Vec<u8>, u32> = BTreeMap::new();
    let mut vals: Vec<u32> = Vec::with_capacity(n);
    for e in events {
        let id = match &e.value {
            None => 0,
            Some(v) => {
                let next = ids.len() as u32 + 1;
                *ids.entry(v.clone()).or_insert(next)
            }
        };
        vals.push(id);
    }
    // quick impossibility: a read of a value nobody wrote
    for (i, e) in events.iter().enumerate() {
        if !e.is_write && vals[i] != 0 {
            let written = events.iter().enumerate().any(|(j, w)| w.is_write && vals[j] == vals[i]);
            if !written {
                return Verdict::NotLinearizable {
                    key: key.to_vec(),
                    witness: vec![describe(e)],
                    reason: "read returned a value that no operation wrote (phantom)".into(),
                };
            }
        }
    }
    let deadline = Instant::now() + budget;
    let full: u128 = (1u128 << n) - 1;
    let mut seen: HashSet<(u128, u32)> = HashSet::new();
    // iterative DFS: (mask of linearised ops, current value)
    let mut stack: Vec<(u128, u32)> = vec![(0, 0)];
    let mut best_mask = 0u128;
    let mut steps = 0u64;
    while let Some((mask, value)) = stack.pop() {
        if mask == full {
            return Verdict::Linearizable;
        }
        if !seen.insert((mask, value)) {
            continue;
        }
        steps += 1;
        if steps % 4096 == 0 {
            crate::watch::tick();
            if Instant::now() > deadline {
                return Verdict::Timeout { key: key.to_vec() };
            }
        }
        if mask.count_ones() > best_mask.count_ones() {
            best_mask = mask;
        }
        // an op may be linearised next iff no other pending op returned before it was called
        let mut min_ret = u64::MAX;
        for (i, e) in events.iter().enumerate() {
            if mask & (1u128 << i) == 0 && e.ret < min_ret {
                min_ret = e.ret;
            }
        }
        // open operations (never returned) may also be left out entirely: treat as done
        let mut all_rest_open = true;
        for (i, e) in events.iter().enumerate() {
            if mask & (1u128 << i) == 0 && e.ret != u64::MAX {
                all_rest_open = false;
                let _ = i;
            }
        }
        if all_rest_open {
            return Verdict::Linearizable;
        }
        for (i, e) in events.iter().enumerate() {
            if mask & (1u128 << i) != 0 || e.call > min_ret {
                continue;
            }
            if e.is_write {
                stack.push((mask | (1u128 << i), vals[i]));
            } else if vals[i] == value {
                stack.push((mask | (1u128 << i), value));
            }
        }
    }
    // no linearisation: report the operations that could not be placed after the best prefix
    let mut stuck: Vec<&Event> = events.iter().enumerate().filter(|(i, _)| best_mask & (1u128 << i) == 0).map(|(_, e)| e).collect();
    stuck.sort_by_key(|e| e.call);
    let first = stuck.first().map(|e| describe(e)).unwrap_or_default();
    let mut witness: Vec<String> = events.iter().map(describe).collect();
    witness.truncate(40);
    let reason = {
        let blocked_read = stuck.iter().find(|e| !e.is_write);
        match blocked_read {
            Some(r) if r.value.is_none() => format!("a read returned KeyNotFound although a write of the key had completed before it and no delete could explain it: {}", describe(r)),
            Some(r) => format!("a read returned a value that was already superseded (or not yet written) when it ran: {}", describe(r)),
            None => format!("no order of the operations explains the results; first unplaceable: {first}"),
        }
    };
    Verdict::NotLinearizable { key: key.to_vec(), witness, reason }
}

pub struct Summary {
    pub keys_checked: usize,
    pub ops: usize,
    pub reads_concurrent_with_writes: usize,
    pub verdicts: Vec<Verdict>,
}

/// Check a whole history, key by key.
pub fn check_history(events: &[Event], budget_per_key: Duration) -> Summary {
    let mut per_key: BTreeMap<Vec<u8>, Vec<Event>> = BTreeMap::new();
    for e in events {
        per_key.entry(e.key.clone()).or_default().push(e.clone());
    }
    let mut summary = Summary { keys_checked: 0, ops: events.len(), reads_concurrent_with_writes: 0, verdicts: vec![] };
    for (key, mut evs) in per_key {
        evs.sort_by_key(|e| e.call);
        for r in evs.iter().filter(|e| !e.is_write) {
            if evs.iter().any(|w| w.is_write && w.call < r.ret && r.call < w.ret) {
                summary.reads_concurrent_with_writes += 1;
            }
        }
        summary.keys_checked += 1;
        match check_key(&key, &evs, budget_per_key) {
            Verdict::Linearizable => {}
            other => summary.verdicts.push(other),
        }
    }
    summary
}

#[cfg(test)]
mod tests {
    use super::*;

    fn w(t: u32, v: &str, c: u64, r: u64) -> Event {
        Event { thread: t, key: b"k".to_vec(), is_write: true, value: Some(v.as_bytes().to_vec()), call: c, ret: r, note: "" }
    }
    fn r(t: u32, v: Option<&str>, c: u64, rr: u64) -> Event {
        Event { thread: t, key: b"k".to_vec(), is_write: false, value: v.map(|s| s.as_bytes().to_vec()), call: c, ret: rr, note: "" }
    }

    #[test]
    fn accepts_and_rejects() {
        // sequential
        let h = vec![w(1, "a", 1, 2), r(2, Some("a"), 3, 4)];
        assert!(check_history(&h, Duration::from_secs(1)).verdicts.is_empty());
        // stale read: write completed, then a read returns absent
        let h = vec![w(1, "a", 1, 2), r(2, None, 3, 4)];
        assert_eq!(check_history(&h, Duration::from_secs(1)).verdicts.len(), 1);
        // concurrent: either answer fine
        let h = vec![w(1, "a", 1, 5), r(2, None, 2, 3), r(2, Some("a"), 4, 6)];
        assert!(check_history(&h, Duration::from_secs(1)).verdicts.is_empty());
        // going backwards
        let h = vec![w(1, "a", 1, 9), r(2, Some("a"), 2, 3), r(2, None, 4, 5)];
        assert_eq!(check_history(&h, Duration::from_secs(1)).verdicts.len(), 1);
        // phantom
        let h = vec![r(2, Some("zzz"), 2, 3)];
        assert_eq!(check_history(&h, Duration::from_secs(1)).verdicts.len(), 1);
    }
}
