//! SimFs: an in-memory, recording, fault-injecting implementation of `raindb::fs::FileSystem`.
//!
//! * every call gets an index in one total order (one mutex around all state);
//! * every *mutating* call is appended to a journal from which the state after any prefix can be
//!   rebuilt (`Replayer`), optionally with the last write torn;
//! * a fault plan can make chosen calls fail without effect;
//! * strict-unlink mode makes reads through a handle of an unlinked file fail (observability for
//!   premature deletion);
//! * an exclusive `lock_file`.

use std::collections::{BTreeMap, BTreeSet, HashMap, HashSet};
use std::io::{self, Read, Seek, SeekFrom, Write};
use std::path::{Path, PathBuf};
use std::sync::Arc;
use std::time::Duration;

use parking_lot::Mutex;
use raindb::fs::{
    FileLock, FileSystem, RandomAccessFile, ReadonlyRandomAccessFile, UnlockableFile,
};

#[derive(Clone, Copy, Debug, PartialEq, Eq, Hash, PartialOrd, Ord)]
pub enum OpKind {
    Mkdir,
    CreateTrunc,
    OpenAppend,
    Write,
    Rename,
    Remove,
    RemoveDir,
    OpenRead,
    Size,
    List,
    IsDir,
    Lock,
    Read,
    Len,
    /// `Write::flush` on a writable handle: a failure here is an error *after* the bytes of the
    /// preceding writes have been applied
    Flush,
}

impl OpKind {
    pub fn name(self) -> &'static str {
        match self {
            OpKind::Mkdir => "mkdir",
            OpKind::CreateTrunc => "create_trunc",
            OpKind::OpenAppend => "open_append",
            OpKind::Write => "write",
            OpKind::Rename => "rename",
            OpKind::Remove => "remove",
            OpKind::RemoveDir => "remove_dir",
            OpKind::OpenRead => "open_read",
            OpKind::Size => "size",
            OpKind::List => "list",
            OpKind::IsDir => "is_dir",
            OpKind::Lock => "lock",
            OpKind::Read => "read",
            OpKind::Len => "len",
            OpKind::Flush => "flush",
        }
    }
    pub fn is_mutating(self) -> bool {
        matches!(
            self,
            OpKind::Mkdir
                | OpKind::CreateTrunc
                | OpKind::OpenAppend
                | OpKind::Write
                | OpKind::Rename
                | OpKind::Remove
                | OpKind::RemoveDir
                | OpKind::Lock
        )
    }
    pub const ALL: [OpKind; 15] = [
        OpKind::Mkdir,
        OpKind::CreateTrunc,
        OpKind::OpenAppend,
        OpKind::Write,
        OpKind::Rename,
        OpKind::Remove,
        OpKind::RemoveDir,
        OpKind::OpenRead,
        OpKind::Size,
        OpKind::List,
        OpKind::IsDir,
        OpKind::Lock,
        OpKind::Read,
        OpKind::Len,
        OpKind::Flush,
    ];
}

#[derive(Clone, Copy, Debug, PartialEq, Eq, Hash, PartialOrd, Ord)]
pub enum PathClass {
    Wal,
    Table,
    Manifest,
    Current,
    Temp,
    Lock,
    Dir,
    Other,
}

impl PathClass {
    pub fn name(self) -> &'static str {
        match self {
            PathClass::Wal => "wal",
            PathClass::Table => "table",
            PathClass::Manifest => "manifest",
            PathClass::Current => "current",
            PathClass::Temp => "temp",
            PathClass::Lock => "lock",
            PathClass::Dir => "dir",
            PathClass::Other => "other",
        }
    }
    pub const ALL: [PathClass; 8] = [
        PathClass::Wal,
        PathClass::Table,
        PathClass::Manifest,
        PathClass::Current,
        PathClass::Temp,
        PathClass::Lock,
        PathClass::Dir,
        PathClass::Other,
    ];
}

pub fn classify(path: &Path) -> PathClass {
    let name = match path.file_name().and_then(|n| n.to_str()) {
        Some(n) => n,
        None => return PathClass::Other,
    };
    if name == "CURRENT" {
        return PathClass::Current;
    }
    if name == "LOCK" {
        return PathClass::Lock;
    }
    match path.extension().and_then(|e| e.to_str()) {
        Some("log") => PathClass::Wal,
        Some("rdb") => PathClass::Table,
        Some("manifest") => PathClass::Manifest,
        Some("dbtemp") => PathClass::Temp,
        _ => PathClass::Dir,
    }
}

/// File number encoded in a raindb file name, if any.
pub fn file_number(path: &Path) -> Option<u64> {
    let stem = path.file_stem()?.to_str()?;
    let digits = stem
        .trim_start_matches("wal-")
        .trim_start_matches("MANIFEST-");
    digits.parse().ok()
}

/// A mutating operation as recorded in the journal.
#[derive(Clone, Debug)]
pub enum JOp {
    Mkdir(PathBuf),
    MkdirAll(PathBuf),
    /// create (if missing) and truncate
    CreateTrunc(PathBuf),
    /// create if missing, keep contents
    OpenAppend(PathBuf),
    Write {
        inode: u64,
        offset: u64,
        data: Arc<Vec<u8>>,
        path: PathBuf,
    },
    Rename(PathBuf, PathBuf),
    Remove(PathBuf),
    RemoveDir(PathBuf),
    RemoveDirAll(PathBuf),
    /// lock_file creates/truncates the lock file
    Lock(PathBuf),
}

impl JOp {
    pub fn kind(&self) -> OpKind {
        match self {
            JOp::Mkdir(_) | JOp::MkdirAll(_) => OpKind::Mkdir,
            JOp::CreateTrunc(_) => OpKind::CreateTrunc,
            JOp::OpenAppend(_) => OpKind::OpenAppend,
            JOp::Write { .. } => OpKind::Write,
            JOp::Rename(..) => OpKind::Rename,
            JOp::Remove(_) => OpKind::Remove,
            JOp::RemoveDir(_) | JOp::RemoveDirAll(_) => OpKind::RemoveDir,
            JOp::Lock(_) => OpKind::Lock,
        }
    }
    pub fn path(&self) -> &Path {
        match self {
            JOp::Mkdir(p)
            | JOp::MkdirAll(p)
            | JOp::CreateTrunc(p)
            | JOp::OpenAppend(p)
            | JOp::Remove(p)
            | JOp::RemoveDir(p)
            | JOp::RemoveDirAll(p)
            | JOp::Lock(p) => p,
            JOp::Write { path, .. } => path,
            JOp::Rename(_, to) => to,
        }
    }
    pub fn class(&self) -> PathClass {
        match self {
            JOp::Rename(from, to) => {
                let c = classify(to);
                if c == PathClass::Current {
                    c
                } else {
                    classify(from)
                }
            }
            _ => classify(self.path()),
        }
    }
    pub fn describe(&self) -> String {
        match self {
            JOp::Write {
                offset, data, path, ..
            } => format!(
                "write {} @{} +{}",
                short(path),
                offset,
                data.len()
            ),
            JOp::Rename(a, b) => format!("rename {} -> {}", short(a), short(b)),
            other => format!("{} {}", other.kind().name(), short(other.path())),
        }
    }
}

fn short(p: &Path) -> String {
    let comps: Vec<_> = p.components().collect();
    let n = comps.len();
    let tail: PathBuf = comps[n.saturating_sub(2)..].iter().collect();
    tail.to_string_lossy().into_owned()
}

#[derive(Clone, Debug)]
pub struct JEntry {
    pub op: JOp,
    /// true if issued by the background compaction thread
    pub bg: bool,
}

/// A file-system state: paths → contents, plus directories.
#[derive(Clone, Default, Debug)]
pub struct Image {
    pub files: BTreeMap<PathBuf, Arc<Vec<u8>>>,
    pub dirs: BTreeSet<PathBuf>,
}

impl Image {
    pub fn total_bytes(&self) -> usize {
        self.files.values().map(|d| d.len()).sum()
    }
    pub fn mutate<F: FnOnce(&mut Vec<u8>)>(&mut self, path: &Path, f: F) {
        let data = self.files.get_mut(path).expect("mutate: no such file");
        f(Arc::make_mut(data));
    }
    pub fn listing(&self) -> Vec<String> {
        self.files
            .iter()
            .map(|(p, d)| format!("{}:{}", short(p), d.len()))
            .collect()
    }
}

struct Node {
    data: Arc<Vec<u8>>,
    linked: bool,
    handles: u32,
}

/// The pure state machine shared by the live file system and by journal replay.
#[derive(Default)]
struct Core {
    paths: BTreeMap<PathBuf, u64>,
    dirs: BTreeSet<PathBuf>,
    nodes: HashMap<u64, Node>,
    next_inode: u64,
}

impl Core {
    fn new_node(&mut self, data: Arc<Vec<u8>>) -> u64 {
        self.next_inode += 1;
        let id = self.next_inode;
        self.nodes.insert(
            id,
            Node {
                data,
                linked: true,
                handles: 0,
            },
        );
        id
    }

    fn from_image(image: &Image) -> Core {
        let mut core = Core::default();
        core.dirs = image.dirs.clone();
        for (path, data) in &image.files {
            let id = core.new_node(Arc::clone(data));
            core.paths.insert(path.clone(), id);
        }
        core
    }

    fn image(&self) -> Image {
        Image {
            files: self
                .paths
                .iter()
                .map(|(p, id)| (p.clone(), Arc::clone(&self.nodes[id].data)))
                .collect(),
            dirs: self.dirs.clone(),
        }
    }

    fn unlink(&mut self, path: &Path) -> Option<u64> {
        let id = self.paths.remove(path)?;
        let node = self.nodes.get_mut(&id).unwrap();
        node.linked = false;
        if node.handles == 0 {
            self.nodes.remove(&id);
        }
        Some(id)
    }

    fn parent_exists(&self, path: &Path) -> bool {
        match path.parent() {
            Some(parent) if !parent.as_os_str().is_empty() => self.dirs.contains(parent),
            _ => true,
        }
    }

    /// Validate an operation against the current state (what the live fs would return).
    fn check(&self, op: &JOp) -> io::Result<()> {
        let not_found = |p: &Path| {
            io::Error::new(
                io::ErrorKind::NotFound,
                format!("simfs: not found: {}", p.display()),
            )
        };
        match op {
            JOp::Mkdir(p) => {
                if self.dirs.contains(p) || self.paths.contains_key(p) {
                    return Err(io::Error::new(
                        io::ErrorKind::AlreadyExists,
                        "simfs: directory exists",
                    ));
                }
                if !self.parent_exists(p) {
                    return Err(not_found(p));
                }
                Ok(())
            }
            JOp::MkdirAll(_) => Ok(()),
            JOp::CreateTrunc(p) | JOp::OpenAppend(p) | JOp::Lock(p) => {
                if self.dirs.contains(p) {
                    return Err(io::Error::new(io::ErrorKind::Other, "simfs: is a directory"));
                }
                if !self.parent_exists(p) {
                    return Err(not_found(p));
                }
                Ok(())
            }
            JOp::Write { inode, .. } => {
                if self.nodes.contains_key(inode) {
                    Ok(())
                } else {
                    Err(io::Error::new(io::ErrorKind::Other, "simfs: stale inode"))
                }
            }
            JOp::Rename(from, to) => {
                if !self.paths.contains_key(from) {
                    return Err(not_found(from));
                }
                if !self.parent_exists(to) {
                    return Err(not_found(to));
                }
                Ok(())
            }
            JOp::Remove(p) => {
                if self.paths.contains_key(p) {
                    Ok(())
                } else {
                    Err(not_found(p))
                }
            }
            JOp::RemoveDir(p) => {
                if !self.dirs.contains(p) {
                    return Err(not_found(p));
                }
                let has_children = self.paths.keys().any(|f| f.parent() == Some(p.as_path()))
                    || self.dirs.iter().any(|d| d.parent() == Some(p.as_path()));
                if has_children {
                    return Err(io::Error::new(
                        io::ErrorKind::Other,
                        "simfs: directory not empty",
                    ));
                }
                Ok(())
            }
            JOp::RemoveDirAll(p) => {
                if self.dirs.contains(p) {
                    Ok(())
                } else {
                    Err(not_found(p))
                }
            }
        }
    }

    /// Apply an operation (assumed valid). Returns the inode for create-like ops.
    fn apply(&mut self, op: &JOp) -> u64 {
        match op {
            JOp::Mkdir(p) => {
                self.dirs.insert(p.clone());
                0
            }
            JOp::MkdirAll(p) => {
                let mut cur = PathBuf::new();
                for comp in p.components() {
                    cur.push(comp);
                    self.dirs.insert(cur.clone());
                }
                0
            }
            JOp::CreateTrunc(p) | JOp::Lock(p) => {
                if let Some(&id) = self.paths.get(p) {
                    self.nodes.get_mut(&id).unwrap().data = Arc::new(Vec::new());
                    id
                } else {
                    let id = self.new_node(Arc::new(Vec::new()));
                    self.paths.insert(p.clone(), id);
                    id
                }
            }
            JOp::OpenAppend(p) => {
                if let Some(&id) = self.paths.get(p) {
                    id
                } else {
                    let id = self.new_node(Arc::new(Vec::new()));
                    self.paths.insert(p.clone(), id);
                    id
                }
            }
            JOp::Write {
                inode,
                offset,
                data,
                ..
            } => {
                if let Some(node) = self.nodes.get_mut(inode) {
                    let buf = Arc::make_mut(&mut node.data);
                    let off = *offset as usize;
                    if buf.len() < off {
                        buf.resize(off, 0);
                    }
                    let end = off + data.len();
                    if buf.len() < end {
                        buf.resize(end, 0);
                    }
                    buf[off..end].copy_from_slice(data);
                }
                *inode
            }
            JOp::Rename(from, to) => {
                if let Some(id) = self.paths.remove(from) {
                    if self.paths.contains_key(to) {
                        self.unlink(to);
                    }
                    self.paths.insert(to.clone(), id);
                }
                0
            }
            JOp::Remove(p) => {
                self.unlink(p);
                0
            }
            JOp::RemoveDir(p) => {
                self.dirs.remove(p);
                0
            }
            JOp::RemoveDirAll(p) => {
                let victims: Vec<PathBuf> = self
                    .paths
                    .keys()
                    .filter(|f| f.starts_with(p))
                    .cloned()
                    .collect();
                for v in victims {
                    self.unlink(&v);
                }
                let dirs: Vec<PathBuf> =
                    self.dirs.iter().filter(|d| d.starts_with(p)).cloned().collect();
                for d in dirs {
                    self.dirs.remove(&d);
                }
                0
            }
        }
    }
}

/// Rebuilds file-system states from a journal, incrementally.
pub struct Replayer {
    core: Core,
    applied: usize,
}

impl Replayer {
    pub fn new(base: &Image) -> Self {
        Replayer {
            core: Core::from_image(base),
            applied: 0,
        }
    }
    pub fn applied(&self) -> usize {
        self.applied
    }
    /// Apply the next journal entry. Inode numbers in the journal are those of the live run, which
    /// started from the same base image with the same allocation order, so they line up.
    pub fn step(&mut self, entry: &JEntry) {
        self.core.apply(&entry.op);
        self.applied += 1;
    }
    pub fn image(&self) -> Image {
        self.core.image()
    }
    /// Image after the applied prefix plus the first `n` bytes of `entry` (which must be a write).
    pub fn image_torn(&self, entry: &JEntry, n: usize) -> Image {
        let mut image = self.core.image();
        if let JOp::Write {
            inode,
            offset,
            data,
            ..
        } = &entry.op
        {
            // find the path(s) of the inode in the current state
            let path = self
                .core
                .paths
                .iter()
                .find(|(_, id)| *id == inode)
                .map(|(p, _)| p.clone());
            if let Some(path) = path {
                image.mutate(&path, |buf| {
                    let off = *offset as usize;
                    if buf.len() < off {
                        buf.resize(off, 0);
                    }
                    let end = off + n;
                    if buf.len() < end {
                        buf.resize(end, 0);
                    }
                    buf[off..end].copy_from_slice(&data[..n]);
                });
            }
        }
        image
    }
}

#[derive(Clone, Copy, Debug, PartialEq, Eq)]
pub enum FaultMode {
    /// only the matching call fails
    Transient,
    /// the matching call and every later call of the same (kind, class) fail
    StickySame,
    /// the matching call and every later call of any kind fail
    StickyAll,
}

impl FaultMode {
    pub fn name(self) -> &'static str {
        match self {
            FaultMode::Transient => "transient",
            FaultMode::StickySame => "sticky-same",
            FaultMode::StickyAll => "sticky-all",
        }
    }
}

#[derive(Clone, Debug)]
pub struct Fault {
    pub kind: OpKind,
    pub class: PathClass,
    /// 0-based occurrence among calls with this (kind, class) since the plan was armed
    pub nth: u64,
    pub mode: FaultMode,
    /// true: the failing call is applied first and the error is reported afterwards (an error
    /// after the effect, like a failed flush); only meaningful for mutating calls
    pub after_effect: bool,
}

#[derive(Clone, Debug, Default)]
pub struct Anomaly {
    pub what: String,
    pub path: String,
    pub op_index: u64,
}

#[derive(Default)]
struct State {
    core: Core,
    locks: HashSet<PathBuf>,
    ops: u64,
    mut_ops: u64,
    journal: Option<Vec<JEntry>>,
    fault: Option<Fault>,
    fault_counts: HashMap<(OpKind, PathClass), u64>,
    fault_fired: u64,
    /// a failing `write` applies the first half of its bytes before it reports the error
    short_writes: bool,
    /// Write::write takes at most this many bytes per call (0 = everything)
    write_limit: usize,
    /// `Read::read` hands out at most this many bytes per call (0 = no limit)
    read_limit: usize,
    /// the next `RandomAccessFile::append` calls on files of this class take at most `.1` bytes and say so (`.2` calls left)
    short_append: Option<(PathClass, usize, u64)>,
    short_appends_done: u64,
    /// set by `enter2` for the call in progress
    short_write_now: bool,
    fault_first_fired_at: Option<u64>,
    outage: bool,
    strict_unlink: bool,
    removed: HashMap<PathBuf, u64>,
    created: HashMap<PathBuf, u64>,
    anomalies: Vec<Anomaly>,
    counts: BTreeMap<(OpKind, PathClass), u64>,
}

struct Shared {
    state: Mutex<State>,
    delay: Mutex<Option<Arc<dyn Fn(OpKind, PathClass) -> Option<Duration> + Send + Sync>>>,
}

/// The file system handle given to raindb (cheap to clone).
#[derive(Clone)]
pub struct SimFs {
    shared: Arc<Shared>,
}

fn is_bg_thread() -> bool {
    std::thread::current()
        .name()
        .map_or(false, |n| n.starts_with("raindb-"))
}

fn injected() -> io::Error {
    io::Error::new(io::ErrorKind::Other, "simfs: injected fault")
}

impl SimFs {
    pub fn new() -> Self {
        SimFs::from_image(&Image::default())
    }

    pub fn from_image(image: &Image) -> Self {
        let state = State {
            core: Core::from_image(image),
            ..State::default()
        };
        SimFs {
            shared: Arc::new(Shared {
                state: Mutex::new(state),
                delay: Mutex::new(None),
            }),
        }
    }

    pub fn as_provider(&self) -> Arc<dyn FileSystem> {
        Arc::new(self.clone())
    }

    pub fn record_journal(&self, on: bool) {
        let mut st = self.shared.state.lock();
        st.journal = if on { Some(Vec::new()) } else { None };
    }
    pub fn take_journal(&self) -> Vec<JEntry> {
        let mut st = self.shared.state.lock();
        match st.journal.as_mut() {
            Some(j) => std::mem::take(j),
            None => Vec::new(),
        }
    }
    pub fn journal_len(&self) -> usize {
        self.shared
            .state
            .lock()
            .journal
            .as_ref()
            .map_or(0, |j| j.len())
    }
    pub fn set_strict_unlink(&self, on: bool) {
        self.shared.state.lock().strict_unlink = on;
    }
    pub fn set_delay(
        &self,
        f: Option<Arc<dyn Fn(OpKind, PathClass) -> Option<Duration> + Send + Sync>>,
    ) {
        *self.shared.delay.lock() = f;
    }
    /// Number of mutating calls applied so far.
    pub fn mut_count(&self) -> u64 {
        self.shared.state.lock().mut_ops
    }
    /// Number of calls of any kind so far.
    pub fn op_count(&self) -> u64 {
        self.shared.state.lock().ops
    }
    pub fn image(&self) -> Image {
        self.shared.state.lock().core.image()
    }
    pub fn arm_fault(&self, fault: Option<Fault>) {
        let mut st = self.shared.state.lock();
        st.fault = fault;
        st.fault_counts.clear();
        st.fault_fired = 0;
        st.fault_first_fired_at = None;
        st.outage = false;
    }
    /// (times fired, op index of the first firing)
    /// Failing writes become short writes: half of the bytes are written before the error.
    /// Files accept at most `limit` bytes per `Write::write` call and report how many they took -
    /// what `std::io::Write` allows any writer to do (a full pipe, a quota, a network file system).
    /// 0 switches the limit off. `append` (raindb's own trait method) always takes everything.
    /// `Read::read` on files of this file system returns at most `limit` bytes per call - as the
    /// contract of `Read` allows ("it is not an error if the returned value is smaller than the
    /// buffer size"). `read_from` is not limited.
    pub fn set_read_limit(&self, limit: usize) {
        self.shared.state.lock().read_limit = limit;
    }

    /// The next `calls` calls of `RandomAccessFile::append` on files of `class` append only the first
    /// `limit` bytes of their buffer and return `Ok(limit)` - a short write, truthfully reported.
    pub fn set_short_append(&self, class: PathClass, limit: usize, calls: u64) {
        let mut st = self.shared.state.lock();
        st.short_append = if calls > 0 { Some((class, limit, calls)) } else { None };
    }

    pub fn short_appends_done(&self) -> u64 {
        self.shared.state.lock().short_appends_done
    }

    pub fn set_write_limit(&self, limit: usize) {
        self.shared.state.lock().write_limit = limit;
    }
    pub fn set_short_writes(&self, on: bool) {
        self.shared.state.lock().short_writes = on;
    }
    pub fn fault_fired(&self) -> (u64, Option<u64>) {
        let st = self.shared.state.lock();
        (st.fault_fired, st.fault_first_fired_at)
    }
    pub fn anomalies(&self) -> Vec<Anomaly> {
        self.shared.state.lock().anomalies.clone()
    }
    pub fn call_counts(&self) -> BTreeMap<(OpKind, PathClass), u64> {
        self.shared.state.lock().counts.clone()
    }
    pub fn reset_call_counts(&self) {
        self.shared.state.lock().counts.clear();
    }
    pub fn removed_counts(&self) -> HashMap<PathBuf, u64> {
        self.shared.state.lock().removed.clone()
    }
    pub fn is_locked(&self, path: &Path) -> bool {
        self.shared.state.lock().locks.contains(path)
    }
    /// Drop all advisory locks (a crashed process releases them).
    pub fn clear_locks(&self) {
        self.shared.state.lock().locks.clear();
    }

    fn maybe_delay(&self, kind: OpKind, class: PathClass) {
        let f = self.shared.delay.lock().clone();
        if let Some(f) = f {
            if let Some(d) = f(kind, class) {
                std::thread::sleep(d);
            }
        }
    }

    /// Common prologue of every call: ordering, counting, fault decision.
    fn enter(st: &mut State, kind: OpKind, class: PathClass) -> io::Result<()> {
        SimFs::enter2(st, kind, class).map(|_| ())
    }

    /// Like `enter`, but a fault marked `after_effect` is returned as `Ok(true)`: the caller
    /// applies the call and reports the error afterwards.
    fn enter2(st: &mut State, kind: OpKind, class: PathClass) -> io::Result<bool> {
        crate::watch::tick();
        st.ops += 1;
        *st.counts.entry((kind, class)).or_insert(0) += 1;
        if st.outage {
            st.fault_fired += 1;
            return Err(injected());
        }
        let mut after = false;
        if let Some(fault) = st.fault.clone() {
            if fault.kind == kind && fault.class == class {
                let c = st.fault_counts.entry((kind, class)).or_insert(0);
                let occurrence = *c;
                *c += 1;
                let hit = match fault.mode {
                    FaultMode::Transient => occurrence == fault.nth,
                    FaultMode::StickySame | FaultMode::StickyAll => occurrence >= fault.nth,
                };
                if hit {
                    if fault.mode == FaultMode::StickyAll {
                        st.outage = true;
                    }
                    st.fault_fired += 1;
                    if st.fault_first_fired_at.is_none() {
                        st.fault_first_fired_at = Some(st.ops);
                    }
                    if fault.after_effect && kind.is_mutating() {
                        after = true;
                    } else if st.short_writes && kind == OpKind::Write {
                        st.short_write_now = true;
                        after = true;
                    } else {
                        return Err(injected());
                    }
                }
            }
        }
        Ok(after)
    }

    fn mutate(&self, op: JOp) -> io::Result<u64> {
        let kind = op.kind();
        let class = op.class();
        self.maybe_delay(kind, class);
        let mut st = self.shared.state.lock();
        let fail_after_effect = SimFs::enter2(&mut st, kind, class)?;
        let op = if std::mem::take(&mut st.short_write_now) {
            // a short write: the first half of the bytes reach the file, then the call fails
            match op {
                JOp::Write { inode, offset, data, path } => JOp::Write { inode, offset, data: Arc::new(data[..data.len() / 2].to_vec()), path },
                other => other,
            }
        } else {
            op
        };
        if let Err(e) = st.core.check(&op) {
            if e.kind() == io::ErrorKind::NotFound {
                if let Some(n) = st.removed.get(op.path()).copied() {
                    if n > 0 && kind != OpKind::Remove {
                        let idx = st.ops;
                        st.anomalies.push(Anomaly {
                            what: format!("use-after-remove:{}", kind.name()),
                            path: op.path().display().to_string(),
                            op_index: idx,
                        });
                    }
                }
            }
            return Err(e);
        }
        match &op {
            JOp::Remove(p) => {
                *st.removed.entry(p.clone()).or_insert(0) += 1;
            }
            JOp::CreateTrunc(p) | JOp::OpenAppend(p) => {
                if !st.core.paths.contains_key(p) {
                    *st.created.entry(p.clone()).or_insert(0) += 1;
                    st.removed.remove(p);
                }
            }
            JOp::Rename(_, to) => {
                st.removed.remove(to);
            }
            _ => {}
        }
        let id = st.core.apply(&op);
        st.mut_ops += 1;
        if let Some(j) = st.journal.as_mut() {
            j.push(JEntry {
                op,
                bg: is_bg_thread(),
            });
        }
        if fail_after_effect {
            return Err(injected());
        }
        Ok(id)
    }

    fn open_handle(&self, inode: u64, path: &Path, writable: bool, append: bool) -> SimFile {
        let mut st = self.shared.state.lock();
        if let Some(node) = st.core.nodes.get_mut(&inode) {
            node.handles += 1;
        }
        SimFile {
            fs: self.clone(),
            inode,
            cursor: 0,
            append_mode: append,
            writable,
            path: path.to_path_buf(),
            class: classify(path),
        }
    }
}

pub struct SimFile {
    fs: SimFs,
    inode: u64,
    cursor: u64,
    append_mode: bool,
    writable: bool,
    path: PathBuf,
    class: PathClass,
}

impl Drop for SimFile {
    fn drop(&mut self) {
        let mut st = self.fs.shared.state.lock();
        let mut free = false;
        if let Some(node) = st.core.nodes.get_mut(&self.inode) {
            node.handles = node.handles.saturating_sub(1);
            free = node.handles == 0 && !node.linked;
        }
        if free {
            st.core.nodes.remove(&self.inode);
        }
    }
}

impl SimFile {
    fn read_at(&self, buf: &mut [u8], offset: u64) -> io::Result<usize> {
        self.fs.maybe_delay(OpKind::Read, self.class);
        let mut st = self.fs.shared.state.lock();
        SimFs::enter(&mut st, OpKind::Read, self.class)?;
        let strict = st.strict_unlink;
        let idx = st.ops;
        let (linked, data) = match st.core.nodes.get(&self.inode) {
            Some(node) => (node.linked, Arc::clone(&node.data)),
            None => return Err(io::Error::new(io::ErrorKind::Other, "simfs: stale inode")),
        };
        if !linked && strict {
            st.anomalies.push(Anomaly {
                what: "read-after-unlink".to_string(),
                path: self.path.display().to_string(),
                op_index: idx,
            });
            return Err(io::Error::new(
                io::ErrorKind::Other,
                "simfs: read through a handle of a removed file",
            ));
        }
        drop(st);
        let off = offset as usize;
        if off >= data.len() {
            return Ok(0);
        }
        let n = buf.len().min(data.len() - off);
        buf[..n].copy_from_slice(&data[off..off + n]);
        Ok(n)
    }

    fn length(&self) -> io::Result<u64> {
        let mut st = self.fs.shared.state.lock();
        SimFs::enter(&mut st, OpKind::Len, self.class)?;
        match st.core.nodes.get(&self.inode) {
            Some(node) => Ok(node.data.len() as u64),
            None => Err(io::Error::new(io::ErrorKind::Other, "simfs: stale inode")),
        }
    }

    fn write_at_cursor(&mut self, buf: &[u8], force_end: bool) -> io::Result<usize> {
        if !self.writable {
            return Err(io::Error::new(
                io::ErrorKind::PermissionDenied,
                "simfs: read-only handle",
            ));
        }
        let offset = if self.append_mode || force_end {
            // length lookup and write must be atomic: do both under the journal's lock by
            // resolving the offset inside `mutate`; a separate lookup is fine here because raindb
            // has a single writer per file, and the live/replay equivalence only needs the
            // recorded offset to be the one that was applied.
            let st = self.fs.shared.state.lock();
            st.core
                .nodes
                .get(&self.inode)
                .map_or(0, |n| n.data.len() as u64)
        } else {
            self.cursor
        };
        let result = self.fs.mutate(JOp::Write {
            inode: self.inode,
            offset,
            data: Arc::new(buf.to_vec()),
            path: self.path.clone(),
        });
        if let Err(e) = result {
            // a failing write may have put part of its bytes into the file (short write, error
            // after effect): like a real file offset, the cursor is then behind those bytes
            let st = self.fs.shared.state.lock();
            let len_now = st.core.nodes.get(&self.inode).map_or(0, |n| n.data.len() as u64);
            if len_now > offset {
                self.cursor = len_now.min(offset + buf.len() as u64);
            }
            return Err(e);
        }
        self.cursor = offset + buf.len() as u64;
        Ok(buf.len())
    }
}

impl Read for SimFile {
    fn read(&mut self, buf: &mut [u8]) -> io::Result<usize> {
        let limit = self.fs.shared.state.lock().read_limit;
        let buf = if limit > 0 && buf.len() > limit { &mut buf[..limit] } else { buf };
        let n = self.read_at(buf, self.cursor)?;
        self.cursor += n as u64;
        Ok(n)
    }
}

impl Seek for SimFile {
    fn seek(&mut self, pos: SeekFrom) -> io::Result<u64> {
        let len = {
            let st = self.fs.shared.state.lock();
            st.core
                .nodes
                .get(&self.inode)
                .map_or(0, |n| n.data.len() as i64)
        };
        let new = match pos {
            SeekFrom::Start(p) => p as i64,
            SeekFrom::End(d) => len + d,
            SeekFrom::Current(d) => self.cursor as i64 + d,
        };
        if new < 0 {
            return Err(io::Error::new(io::ErrorKind::InvalidInput, "simfs: negative seek"));
        }
        self.cursor = new as u64;
        Ok(self.cursor)
    }
}

impl Write for SimFile {
    fn write(&mut self, buf: &[u8]) -> io::Result<usize> {
        let limit = self.fs.shared.state.lock().write_limit;
        if limit > 0 && buf.len() > limit {
            return self.write_at_cursor(&buf[..limit], false);
        }
        self.write_at_cursor(buf, false)
    }
    fn flush(&mut self) -> io::Result<()> {
        let mut st = self.fs.shared.state.lock();
        SimFs::enter(&mut st, OpKind::Flush, self.class)
    }
}

impl ReadonlyRandomAccessFile for SimFile {
    fn read_from(&self, buf: &mut [u8], offset: usize) -> io::Result<usize> {
        self.read_at(buf, offset as u64)
    }
    fn len(&self) -> io::Result<u64> {
        self.length()
    }
}

impl RandomAccessFile for SimFile {
    fn append(&mut self, buf: &[u8]) -> io::Result<usize> {
        let limit = {
            let mut st = self.fs.shared.state.lock();
            match st.short_append {
                Some((class, limit, calls)) if class == self.class && buf.len() > limit => {
                    st.short_append = if calls > 1 { Some((class, limit, calls - 1)) } else { None };
                    st.short_appends_done += 1;
                    Some(limit)
                }
                _ => None,
            }
        };
        match limit {
            Some(n) => self.write_at_cursor(&buf[..n], true),
            None => self.write_at_cursor(buf, true),
        }
    }
}

struct SimLock {
    fs: SimFs,
    path: PathBuf,
}

impl UnlockableFile for SimLock {
    fn unlock(&self) -> io::Result<()> {
        self.fs.shared.state.lock().locks.remove(&self.path);
        Ok(())
    }
}

impl FileSystem for SimFs {
    fn get_name(&self) -> String {
        "SimFs".to_string()
    }

    fn create_dir(&self, path: &Path) -> io::Result<()> {
        self.mutate(JOp::Mkdir(path.to_path_buf())).map(|_| ())
    }

    fn create_dir_all(&self, path: &Path) -> io::Result<()> {
        self.mutate(JOp::MkdirAll(path.to_path_buf())).map(|_| ())
    }

    fn list_dir(&self, path: &Path) -> io::Result<Vec<PathBuf>> {
        self.maybe_delay(OpKind::List, PathClass::Dir);
        let mut st = self.shared.state.lock();
        SimFs::enter(&mut st, OpKind::List, PathClass::Dir)?;
        if !st.core.dirs.contains(path) {
            return Err(io::Error::new(
                io::ErrorKind::NotFound,
                format!("simfs: no such directory: {}", path.display()),
            ));
        }
        let mut out: Vec<PathBuf> = st
            .core
            .paths
            .keys()
            .filter(|f| f.parent() == Some(path))
            .cloned()
            .collect();
        out.extend(
            st.core
                .dirs
                .iter()
                .filter(|d| d.parent() == Some(path))
                .cloned(),
        );
        out.sort();
        Ok(out)
    }

    fn open_file(&self, path: &Path) -> io::Result<Box<dyn ReadonlyRandomAccessFile>> {
        let class = classify(path);
        self.maybe_delay(OpKind::OpenRead, class);
        let inode = {
            let mut st = self.shared.state.lock();
            SimFs::enter(&mut st, OpKind::OpenRead, class)?;
            match st.core.paths.get(path).copied() {
                Some(id) => id,
                None => {
                    if st.removed.get(path).copied().unwrap_or(0) > 0 {
                        let idx = st.ops;
                        st.anomalies.push(Anomaly {
                            what: "use-after-remove:open_read".to_string(),
                            path: path.display().to_string(),
                            op_index: idx,
                        });
                    }
                    return Err(io::Error::new(
                        io::ErrorKind::NotFound,
                        format!("simfs: not found: {}", path.display()),
                    ));
                }
            }
        };
        Ok(Box::new(self.open_handle(inode, path, false, false)))
    }

    fn rename(&self, from: &Path, to: &Path) -> io::Result<()> {
        self.mutate(JOp::Rename(from.to_path_buf(), to.to_path_buf()))
            .map(|_| ())
    }

    fn create_file(&self, path: &Path, append: bool) -> io::Result<Box<dyn RandomAccessFile>> {
        let op = if append {
            JOp::OpenAppend(path.to_path_buf())
        } else {
            JOp::CreateTrunc(path.to_path_buf())
        };
        let inode = self.mutate(op)?;
        Ok(Box::new(self.open_handle(inode, path, true, append)))
    }

    fn remove_file(&self, path: &Path) -> io::Result<()> {
        self.mutate(JOp::Remove(path.to_path_buf())).map(|_| ())
    }

    fn remove_dir(&self, path: &Path) -> io::Result<()> {
        self.mutate(JOp::RemoveDir(path.to_path_buf())).map(|_| ())
    }

    fn remove_dir_all(&self, path: &Path) -> io::Result<()> {
        self.mutate(JOp::RemoveDirAll(path.to_path_buf()))
            .map(|_| ())
    }

    fn get_file_size(&self, path: &Path) -> io::Result<u64> {
        let class = classify(path);
        self.maybe_delay(OpKind::Size, class);
        let mut st = self.shared.state.lock();
        SimFs::enter(&mut st, OpKind::Size, class)?;
        match st.core.paths.get(path) {
            Some(id) => Ok(st.core.nodes[id].data.len() as u64),
            None => {
                if st.removed.get(path).copied().unwrap_or(0) > 0 {
                    let idx = st.ops;
                    st.anomalies.push(Anomaly {
                        what: "use-after-remove:size".to_string(),
                        path: path.display().to_string(),
                        op_index: idx,
                    });
                }
                Err(io::Error::new(
                    io::ErrorKind::NotFound,
                    format!("simfs: not found: {}", path.display()),
                ))
            }
        }
    }

    fn is_dir(&self, path: &Path) -> io::Result<bool> {
        let mut st = self.shared.state.lock();
        SimFs::enter(&mut st, OpKind::IsDir, PathClass::Dir)?;
        if st.core.dirs.contains(path) {
            Ok(true)
        } else if st.core.paths.contains_key(path) {
            Ok(false)
        } else {
            Err(io::Error::new(
                io::ErrorKind::NotFound,
                format!("simfs: not found: {}", path.display()),
            ))
        }
    }

    fn lock_file(&self, path: &Path) -> io::Result<FileLock> {
        {
            let st = self.shared.state.lock();
            if st.locks.contains(path) {
                return Err(io::Error::new(
                    io::ErrorKind::WouldBlock,
                    "simfs: lock is held by another handle",
                ));
            }
        }
        self.mutate(JOp::Lock(path.to_path_buf()))?;
        {
            let mut st = self.shared.state.lock();
            if !st.locks.insert(path.to_path_buf()) {
                return Err(io::Error::new(
                    io::ErrorKind::WouldBlock,
                    "simfs: lock is held by another handle",
                ));
            }
        }
        Ok(FileLock::new(Box::new(SimLock {
            fs: self.clone(),
            path: path.to_path_buf(),
        })))
    }
}

// ------------------------------------------------------------------------------------------------
// Conformance replay: the mutating calls of a recorded run, issued against another `FileSystem`
// implementation (raindb's disk-backed and in-memory ones), whose final contents must equal the
// reference model's.  This is how the fault histories explored on the simulated file system are
// carried over to the file systems raindb ships.

/// What a conformance replay observed.
#[derive(Default, Debug)]
pub struct ConformanceReport {
    pub ops_replayed: u64,
    pub bytes_written: u64,
    /// creates (truncating) of a path that held data at that moment
    pub truncating_creates_of_nonempty_files: u64,
    pub renames_over_existing: u64,
    /// of the truncating creates above: those after which the file stayed shorter than it had been
    /// (only these tell a create that truncates from one that does not)
    pub recreated_files_that_stayed_shorter: u64,
    pub files_compared: u64,
    /// (what, detail) — empty when the implementation agreed with the model everywhere
    pub divergences: Vec<(String, String)>,
}

struct ReplayHandle {
    file: Box<dyn raindb::fs::RandomAccessFile>,
    append: bool,
    cursor: u64,
}


fn push_divergence(report: &mut ConformanceReport, what: &str, detail: String) {
    if report.divergences.len() < 6 {
        report.divergences.push((what.to_string(), detail));
    }
}

/// Compare one file of `fs` with the contents the model holds for it.
fn compare_file(fs: &dyn FileSystem, mapped: &Path, path: &Path, want: &Arc<Vec<u8>>, report: &mut ConformanceReport) {
    // the size the file system reports decides how much is read: the read calls are not asked
    // to detect the end of the file themselves (raindb never relies on that either)
    let size = match fs.get_file_size(mapped) {
        Ok(n) => n as usize,
        Err(e) => {
            push_divergence(report, "file-missing", format!("{}: {e}", path.display()));
            return;
        }
    };
    if size != want.len() {
        push_divergence(report, "file-size-differs", format!("{}: the file system reports {size} bytes, the model holds {}", path.display(), want.len()));
        return;
    }
    if size == 0 {
        return;
    }
    match fs.open_file(mapped) {
        Ok(file) => {
            let mut got = vec![0u8; size];
            let mut filled = 0usize;
            while filled < size {
                match file.read_from(&mut got[filled..], filled) {
                    Ok(0) => break,
                    Ok(n) => filled += n.min(size - filled),
                    Err(e) => {
                        push_divergence(report, "read-refused", format!("{}: {e}", path.display()));
                        break;
                    }
                }
            }
            got.truncate(filled);
            if got != **want {
                let first = got.iter().zip(want.iter()).position(|(a, b)| a != b).unwrap_or(got.len().min(want.len()));
                push_divergence(report, "file-contents-differ", format!("{}: {} bytes read, {} expected, first difference at offset {first}", path.display(), got.len(), want.len()));
            }
        }
        Err(e) => push_divergence(report, "open_file-refused", format!("{}: {e}", path.display())),
    }
}

/// Replay `journal` (recorded from the state `base`, which must hold directories only) against
/// `fs`; `map` turns a path of the simulated file system into the path to use with `fs`.
pub fn replay_for_conformance(fs: &dyn FileSystem, map: &dyn Fn(&Path) -> PathBuf, base: &Image, journal: &[JEntry]) -> ConformanceReport {
    let mut report = ConformanceReport::default();
    let mut core = Core::from_image(base);
    let mut handles: HashMap<u64, ReplayHandle> = HashMap::new();
    let mut order: std::collections::VecDeque<u64> = Default::default();
    let mut locks: HashMap<PathBuf, raindb::fs::FileLock> = HashMap::new();
    let mut recreated: Vec<(u64, usize)> = vec![];
    for dir in &base.dirs {
        let _ = fs.create_dir_all(&map(dir));
    }
    let mut diverge = |report: &mut ConformanceReport, what: &str, detail: String| {
        if report.divergences.len() < 6 {
            report.divergences.push((what.to_string(), detail));
        }
    };
    for (i, entry) in journal.iter().enumerate() {
        let op = &entry.op;
        let desc = format!("journal entry {i}: {}", op.describe());
        report.ops_replayed += 1;
        match op {
            JOp::Mkdir(p) => {
                if let Err(e) = fs.create_dir(&map(p)) {
                    diverge(&mut report, "create_dir-refused", format!("{desc}: {e}"));
                }
                core.apply(op);
            }
            JOp::MkdirAll(p) => {
                if let Err(e) = fs.create_dir_all(&map(p)) {
                    diverge(&mut report, "create_dir_all-refused", format!("{desc}: {e}"));
                }
                core.apply(op);
            }
            JOp::CreateTrunc(p) | JOp::OpenAppend(p) => {
                let append = matches!(op, JOp::OpenAppend(_));
                let existing_len = core.paths.get(p).map_or(0, |id| core.nodes[id].data.len());
                let id = core.apply(op);
                if !append && existing_len > 0 {
                    report.truncating_creates_of_nonempty_files += 1;
                    recreated.push((id, existing_len));
                }
                match fs.create_file(&map(p), append) {
                    Ok(file) => {
                        if !handles.contains_key(&id) {
                            order.push_back(id);
                        }
                        handles.insert(id, ReplayHandle { file, append, cursor: 0 });
                    }
                    Err(e) => diverge(&mut report, "create_file-refused", format!("{desc}: {e}")),
                }
                // bound the number of open descriptors: a later write reopens the path for appending
                while order.len() > 128 {
                    if let Some(old) = order.pop_front() {
                        handles.remove(&old);
                    }
                }
            }
            JOp::Write { inode, offset, data, path } => {
                if !core.nodes.contains_key(inode) {
                    continue; // the file was unlinked and is not observable any more
                }
                let end_of_file = core.nodes[inode].data.len() as u64;
                if !handles.contains_key(inode) && *offset == end_of_file {
                    let linked = core.paths.iter().find(|(_, id)| *id == inode).map(|(p, _)| p.clone());
                    if let Some(p) = linked {
                        match fs.create_file(&map(&p), true) {
                            Ok(file) => {
                                handles.insert(*inode, ReplayHandle { file, append: true, cursor: 0 });
                                order.push_back(*inode);
                            }
                            Err(e) => diverge(&mut report, "create_file-refused", format!("{desc} (reopening {} for append): {e}", path.display())),
                        }
                    }
                }
                core.apply(op);
                let Some(handle) = handles.get_mut(inode) else { continue };
                let result = if handle.append {
                    handle.file.append(data).and_then(|n| if n == data.len() { Ok(()) } else { Err(io::Error::new(io::ErrorKind::WriteZero, format!("append took {n} of {} bytes", data.len()))) })
                } else {
                    let seek = if handle.cursor != *offset { handle.file.seek(SeekFrom::Start(*offset)).map(|_| ()) } else { Ok(()) };
                    seek.and_then(|_| handle.file.write_all(data))
                };
                handle.cursor = *offset + data.len() as u64;
                report.bytes_written += data.len() as u64;
                if let Err(e) = result.and_then(|_| handle.file.flush()) {
                    diverge(&mut report, "write-refused", format!("{desc}: {e}"));
                }
            }
            JOp::Rename(from, to) => {
                if core.paths.contains_key(to) {
                    report.renames_over_existing += 1;
                    if let Some(id) = core.paths.get(to) {
                        handles.remove(id);
                    }
                }
                core.apply(op);
                if let Err(e) = fs.rename(&map(from), &map(to)) {
                    diverge(&mut report, "rename-refused", format!("{desc}: {e}"));
                }
            }
            JOp::Remove(p) => {
                if let Some(id) = core.paths.get(p) {
                    handles.remove(id);
                    let now = core.nodes[id].data.len();
                    if recreated.iter().any(|(r, _)| r == id) {
                        // a file that was created over an existing one is compared before it goes
                        report.files_compared += 1;
                        let want = Arc::clone(&core.nodes[id].data);
                        compare_file(fs, &map(p), p, &want, &mut report);
                    }
                    report.recreated_files_that_stayed_shorter += recreated.iter().filter(|(r, old)| r == id && now < *old).count() as u64;
                    recreated.retain(|(r, _)| r != id);
                }
                core.apply(op);
                if let Err(e) = fs.remove_file(&map(p)) {
                    diverge(&mut report, "remove_file-refused", format!("{desc}: {e}"));
                }
            }
            JOp::RemoveDir(p) => {
                core.apply(op);
                if let Err(e) = fs.remove_dir(&map(p)) {
                    diverge(&mut report, "remove_dir-refused", format!("{desc}: {e}"));
                }
            }
            JOp::RemoveDirAll(p) => {
                let victims: Vec<u64> = core.paths.iter().filter(|(f, _)| f.starts_with(p)).map(|(_, id)| *id).collect();
                for id in victims {
                    handles.remove(&id);
                }
                locks.retain(|l, _| !l.starts_with(p));
                core.apply(op);
                if let Err(e) = fs.remove_dir_all(&map(p)) {
                    diverge(&mut report, "remove_dir_all-refused", format!("{desc}: {e}"));
                }
            }
            JOp::Lock(p) => {
                locks.remove(p); // the previous owner (an earlier session of the run) has closed
                core.apply(op);
                match fs.lock_file(&map(p)) {
                    Ok(lock) => {
                        locks.insert(p.clone(), lock);
                    }
                    Err(e) => diverge(&mut report, "lock_file-refused", format!("{desc}: {e}")),
                }
            }
        }
    }
    drop(handles);
    drop(locks);
    for (id, old) in &recreated {
        if core.nodes.get(id).map_or(false, |n| n.data.len() < *old) {
            report.recreated_files_that_stayed_shorter += 1;
        }
    }
    // final state: every file byte for byte, every directory's listing
    let image = core.image();
    for (path, want) in &image.files {
        report.files_compared += 1;
        compare_file(fs, &map(path), path, want, &mut report);
    }
    let dirs_are_implicit = fs.get_name() == "InMemoryFileSystem";
    for dir in &image.dirs {
        if dir.as_os_str() == "/" || (dirs_are_implicit && !image.files.keys().any(|f| f.starts_with(dir))) {
            continue;
        }
        let mut want: BTreeSet<String> = BTreeSet::new();
        for p in image.files.keys().chain(image.dirs.iter()) {
            // raindb's in-memory file system has no directory objects: a directory exists there as
            // long as a file lies below it
            if dirs_are_implicit && image.dirs.contains(p) && !image.files.keys().any(|f| f.starts_with(p)) {
                continue;
            }
            if p.parent() == Some(dir.as_path()) {
                want.insert(p.file_name().unwrap().to_string_lossy().into_owned());
            }
        }
        match fs.list_dir(&map(dir)) {
            Ok(entries) => {
                let got: BTreeSet<String> = entries.iter().filter_map(|e| e.file_name().map(|n| n.to_string_lossy().into_owned())).collect();
                if got != want {
                    diverge(&mut report, "directory-listing-differs", format!("{}: listed {:?}, model {:?}", dir.display(), got, want));
                }
            }
            Err(e) => diverge(&mut report, "list_dir-refused", format!("{}: {e}", dir.display())),
        }
    }
    report
}
