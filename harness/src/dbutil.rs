//! Helpers shared by the monitors: options construction, base images.

use std::path::PathBuf;
use std::sync::Arc;

use raindb::fs::FileSystem;
use raindb::DbOptions;

use crate::gen::Config;
use crate::simfs::Image;

pub const DB_PATH: &str = "/db";

pub fn options(fs: Arc<dyn FileSystem>, path: &str, cfg: &Config) -> DbOptions {
    DbOptions {
        db_path: path.to_string(),
        max_memtable_size: cfg.memtable,
        max_file_size: cfg.file,
        max_block_size: cfg.block,
        filesystem_provider: fs,
        create_if_missing: true,
        error_if_exists: false,
        reuse_log_files: cfg.reuse,
        ..DbOptions::default()
    }
}

/// An image with the root directory only (raindb creates the rest).
pub fn root_image() -> Image {
    let mut image = Image::default();
    image.dirs.insert(PathBuf::from("/"));
    image
}

/// An image with the directory skeleton of a database (for codec-level monitors).
pub fn skeleton_image(path: &str) -> Image {
    let mut image = root_image();
    let root = PathBuf::from(path);
    image.dirs.insert(root.clone());
    image.dirs.insert(root.join("wal"));
    image.dirs.insert(root.join("data"));
    image
}
