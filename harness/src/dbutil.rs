//! Helpers shared by the monitors: options construction, base images.

use std::path::PathBuf;
use std::sync::Arc;

use raindb::fs::FileSystem;
use raindb::DbOptions;

use crate::gen::Config;
use crate::simfs::Image;

pub const DB_PATH: &str = "/db";

static BASE: parking_lot::Mutex<Option<DbOptions>> = parking_lot::const_mutex(None);

/// `DbOptions::default()` builds an 8 Mi-entry block cache whose table alone costs ~16 MiB of
/// page faults; one is built per case and shared (by `Arc`) by every database the case opens.
/// Cache keys carry a per-table-open partition id, so sharing cannot serve stale blocks.
pub fn new_case() {
    *BASE.lock() = Some(DbOptions::default());
}

fn base() -> DbOptions {
    let mut slot = BASE.lock();
    if slot.is_none() {
        *slot = Some(DbOptions::default());
    }
    slot.as_ref().unwrap().clone()
}

pub fn options(fs: Arc<dyn FileSystem>, path: &str, cfg: &Config) -> DbOptions {
    DbOptions {
        db_path: path.to_string(),
        max_memtable_size: cfg.memtable,
        max_file_size: cfg.file,
        max_block_size: cfg.block,
        filesystem_provider: fs,
        create_if_missing: true,
        error_if_exists: false,
        reuse_log_files: cfg.reuse,
        ..base()
    }
}

/// An image with the root directory only (raindb creates the rest).
pub fn root_image() -> Image {
    let mut image = Image::default();
    image.dirs.insert(PathBuf::from("/"));
    image
}

/// An image with the directory skeleton of a database (for codec-level monitors).
pub fn skeleton_image(path: &str) -> Image {
    let mut image = root_image();
    let root = PathBuf::from(path);
    image.dirs.insert(root.clone());
    image.dirs.insert(root.join("wal"));
    image.dirs.insert(root.join("data"));
    image
}
