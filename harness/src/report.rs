//! Per-case outcome record, serialised as one JSON line per case.

use std::collections::{BTreeMap, BTreeSet};

use serde_json::{json, Value};

#[derive(Clone, Debug)]
pub struct Violation {
    pub sig: String,
    pub detail: Value,
}

#[derive(Clone, Debug, Default)]
pub struct CaseOut {
    pub violations: Vec<Violation>,
    pub inconclusive: Vec<String>,
    /// signatures of distinct non-trivial things this case covered (unioned across cases)
    pub nontrivial: BTreeSet<String>,
    /// other named sets that are unioned across cases (e.g. interleaving signatures)
    pub sets: BTreeMap<String, BTreeSet<String>>,
    /// counters, summed across cases
    pub obs: BTreeMap<String, u64>,
    /// a written-out description of this case (the check keeps a few)
    pub sample: Option<Value>,
    /// number of further distinct non-trivial sub-cases that are distinct by construction
    /// (e.g. crash points of this case's own execution) and therefore only counted
    pub distinct_extra: u64,
}

impl CaseOut {
    pub fn new() -> Self {
        CaseOut::default()
    }
    pub fn add(&mut self, key: &str, n: u64) {
        *self.obs.entry(key.to_string()).or_insert(0) += n;
    }
    pub fn max(&mut self, key: &str, n: u64) {
        let e = self.obs.entry(format!("max.{key}")).or_insert(0);
        if n > *e {
            *e = n;
        }
    }
    pub fn nontrivial<S: Into<String>>(&mut self, sig: S) {
        self.nontrivial.insert(sig.into());
    }
    pub fn set_add<S: Into<String>>(&mut self, set: &str, item: S) {
        self.sets
            .entry(set.to_string())
            .or_default()
            .insert(item.into());
    }
    pub fn violate<S: Into<String>>(&mut self, sig: S, detail: Value) {
        let sig = sig.into();
        if self.violations.len() < 32 && !self.violations.iter().any(|v| v.sig == sig) {
            self.violations.push(Violation { sig, detail });
        }
    }
    pub fn inconclusive<S: Into<String>>(&mut self, reason: S) {
        let reason = reason.into();
        if !self.inconclusive.contains(&reason) {
            self.inconclusive.push(reason);
        }
    }
    pub fn is_violated(&self) -> bool {
        !self.violations.is_empty()
    }
    pub fn merge(&mut self, other: CaseOut) {
        for v in other.violations {
            self.violate(v.sig, v.detail);
        }
        for r in other.inconclusive {
            self.inconclusive(r);
        }
        self.nontrivial.extend(other.nontrivial);
        for (k, s) in other.sets {
            self.sets.entry(k).or_default().extend(s);
        }
        for (k, n) in other.obs {
            if k.starts_with("max.") {
                let e = self.obs.entry(k).or_insert(0);
                if n > *e {
                    *e = n;
                }
            } else {
                *self.obs.entry(k).or_insert(0) += n;
            }
        }
        if self.sample.is_none() {
            self.sample = other.sample;
        }
        self.distinct_extra += other.distinct_extra;
    }
    pub fn to_json(&self) -> Value {
        json!({
            "violations": self.violations.iter().map(|v| json!({"sig": v.sig, "detail": v.detail})).collect::<Vec<_>>(),
            "inconclusive": self.inconclusive,
            "nontrivial": self.nontrivial.iter().collect::<Vec<_>>(),
            "sets": self.sets.iter().map(|(k, s)| (k.clone(), json!(s.iter().collect::<Vec<_>>()))).collect::<serde_json::Map<_, _>>(),
            "obs": self.obs,
            "sample": self.sample,
            "distinct_extra": self.distinct_extra,
        })
    }
}

/// Printable form of a byte string: ASCII as is, everything else as \xNN.
pub fn show(bytes: &[u8]) -> String {
    let mut s = String::new();
    for &b in bytes.iter().take(48) {
        if (0x20..0x7f).contains(&b) && b != b'\\' {
            s.push(b as char);
        } else {
            s.push_str(&format!("\\x{:02x}", b));
        }
    }
    if bytes.len() > 48 {
        s.push_str(&format!("…({} bytes)", bytes.len()));
    }
    s
}

pub fn show_opt(bytes: Option<&[u8]>) -> String {
    match bytes {
        Some(b) => show(b),
        None => "<none>".to_string(),
    }
}
