//! Generated single-client histories over {put, delete, batch, get, compact_range, fill-to-flush,
//! seek bursts, close+reopen with new options}. Property monitors plug in as observers.

use std::collections::BTreeSet;
use std::time::Duration;

use serde_json::{json, Value};

use crate::director::director;
use crate::gen::{self, Config, KeyFamily, ValueMix};
use crate::report::{show, CaseOut};
use crate::rng::Rng;
use crate::session::{shape_string, Session, WriteOp};
use crate::simfs::SimFs;
use crate::{dbutil, watch};

pub struct HistoryParams {
    pub n_ops: usize,
    pub family: KeyFamily,
    pub pool_size: usize,
    pub value_mix: ValueMix,
    pub cfg: Config,
    pub checkpoint_every: usize,
    pub reopen_weight: u64,
    pub compact_weight: u64,
    /// weight of "sink a key range to a deeper level" (level-by-level manual compaction through the
    /// hook accessor): reaches levels 3-6, which size triggers only reach with gigabytes of data
    pub sink_weight: u64,
    /// weight of "take a snapshot (at most three are held) or release one": compactions then have
    /// to keep several versions of a user key, also as the last entries of an output file
    pub snapshot_weight: u64,
    pub tiny_configs_on_reopen: bool,
    /// reopen with the same options (e.g. to keep appending to one reused WAL and manifest)
    pub keep_config_on_reopen: bool,
}

impl HistoryParams {
    pub fn generate(rng: &mut Rng, idx: u64, n_ops: usize) -> HistoryParams {
        let family = KeyFamily::ALL[(idx % 6) as usize];
        let cfg = if idx % 4 == 3 { gen::config(rng) } else { gen::tiny_config(rng) };
        HistoryParams {
            n_ops,
            family,
            pool_size: rng.range(20, 220) as usize,
            value_mix: match rng.below(10) {
                0..=5 => ValueMix::Small,
                6..=8 => ValueMix::Medium,
                _ => ValueMix::Large,
            },
            cfg,
            checkpoint_every: 25,
            reopen_weight: 3,
            compact_weight: 3,
            sink_weight: if idx % 3 == 1 { 4 } else { 0 },
            snapshot_weight: if idx % 2 == 0 { 3 } else { 0 },
            tiny_configs_on_reopen: idx % 4 != 3,
            keep_config_on_reopen: false,
        }
    }
    /// A long-lived write-ahead log: default-sized memtable, log reuse on, the same options at every
    /// reopen, medium values - several MB go into one WAL (and one manifest) across many reopens,
    /// so appends resume at every alignment within the 32 KiB log blocks.
    pub fn long_wal(rng: &mut Rng, n_ops: usize) -> HistoryParams {
        HistoryParams {
            n_ops,
            family: KeyFamily::Ascii,
            pool_size: rng.range(100, 400) as usize,
            value_mix: ValueMix::Medium,
            cfg: Config { memtable: 4 << 20, file: 2 << 20, block: 4096, reuse: true },
            checkpoint_every: 400,
            reopen_weight: 1,
            compact_weight: 0,
            sink_weight: 0,
            snapshot_weight: 0,
            tiny_configs_on_reopen: false,
            keep_config_on_reopen: true,
        }
    }

    pub fn describe(&self) -> Value {
        json!({"ops": self.n_ops, "keys": self.family.name(), "pool": self.pool_size,
            "values": format!("{:?}", self.value_mix), "config": self.cfg.describe()})
    }
}

pub trait Observer {
    /// Called at checkpoints: every `checkpoint_every` ops, after compact_range, after reopen, at
    /// the end. `universe` is every key the history has ever used.
    fn checkpoint(&mut self, sess: &mut Session, out: &mut CaseOut, universe: &BTreeSet<Vec<u8>>, reason: &str);
    /// Called after every get with the model's answer.
    fn after_get(&mut self, _sess: &Session, _out: &mut CaseOut, _key: &[u8], _got: &Result<Option<Vec<u8>>, String>) {}
}

pub struct Outcome {
    pub shapes: BTreeSet<String>,
    pub reopen_pattern: String,
    pub max_level: usize,
    pub degenerate: Option<String>,
    pub ops_done: usize,
}

fn neighbours(k: &[u8]) -> Vec<Vec<u8>> {
    let mut out = vec![];
    let mut after = k.to_vec();
    after.push(0);
    out.push(after);
    if let Some(&last) = k.last() {
        if last > 0 {
            let mut b = k.to_vec();
            *b.last_mut().unwrap() = last - 1;
            out.push(b);
        }
        out.push(k[..k.len() - 1].to_vec());
    }
    out
}

/// Run one history. Returns coverage facts; violations go to `out` via the observer.
pub fn run(
    out: &mut CaseOut,
    rng: &mut Rng,
    params: &HistoryParams,
    observer: &mut dyn Observer,
) -> Outcome {
    let d = director();
    d.reset(rng.next_u64());
    let fs = SimFs::from_image(&dbutil::root_image());
    let mut sess = Session::new(fs, params.cfg);
    let mut outcome = Outcome {
        shapes: BTreeSet::new(),
        reopen_pattern: String::new(),
        max_level: 0,
        degenerate: None,
        ops_done: 0,
    };
    if let Err(e) = sess.open() {
        out.violate("open-failed/fresh-database", json!({"error": e, "config": params.cfg.describe()}));
        return outcome;
    }
    let pool = gen::key_pool(rng, params.family, params.pool_size);
    let mut universe: BTreeSet<Vec<u8>> = BTreeSet::new();
    let mut counter = 0u64;
    let mut since_checkpoint = 0usize;

    let total_weight = 45 + 12 + 8 + 15 + params.compact_weight + params.reopen_weight + 2 + 2 + params.sink_weight + params.snapshot_weight;
    let mut held: Vec<raindb::Snapshot> = vec![];
    for opi in 0..params.n_ops {
        watch::tick();
        outcome.ops_done = opi + 1;
        let mut roll = rng.below(total_weight);
        let mut checkpoint_reason: Option<&str> = None;
        let mut write: Option<Vec<WriteOp>> = None;
        if roll < 45 {
            let k = rng.pick(&pool).clone();
            counter += 1;
            let v = if rng.chance(0.01) && params.cfg.memtable <= 65_536 {
                // larger than the whole memtable budget
                gen::tagged_value(rng, &format!("v{counter}:"), params.cfg.memtable + 100)
            } else {
                gen::value(rng, params.value_mix, &format!("v{counter}:"))
            };
            write = Some(vec![(k, Some(v))]);
        } else {
            roll -= 45;
            if roll < 12 {
                write = Some(vec![(rng.pick(&pool).clone(), None)]);
            } else {
                roll -= 12;
                if roll < 8 {
                    // mostly 2-20 operations; now and then a batch with one operation or with none at all
                    let n = if rng.chance(0.08) { rng.below(2) as usize } else { rng.range(2, 20) as usize };
                    if n == 0 {
                        out.add("empty_batches", 1);
                    }
                    let mut ops = vec![];
                    for _ in 0..n {
                        let k = rng.pick(&pool).clone();
                        if rng.chance(0.25) {
                            ops.push((k, None));
                        } else {
                            counter += 1;
                            ops.push((k, Some(gen::value(rng, ValueMix::Small, &format!("b{counter}:")))));
                        }
                    }
                    write = Some(ops);
                } else {
                    roll -= 8;
                    if roll < 15 {
                        let k = if rng.chance(0.85) {
                            rng.pick(&pool).clone()
                        } else {
                            let base = rng.pick(&pool).clone();
                            let n = neighbours(&base);
                            n[rng.usize_below(n.len())].clone()
                        };
                        let got = sess.get(&k);
                        out.add("gets", 1);
                        observer.after_get(&sess, out, &k, &got);
                    } else {
                        roll -= 15;
                        if roll < params.compact_weight {
                            let (a, b) = match rng.below(5) {
                                0 => (None, None),
                                1 => (Some(rng.pick(&pool).clone()), None),
                                2 => (None, Some(rng.pick(&pool).clone())),
                                3 => {
                                    // empty / inverted range
                                    let k = rng.pick(&pool).clone();
                                    (Some(k.clone()), Some(k))
                                }
                                _ => {
                                    let mut a = rng.pick(&pool).clone();
                                    let mut b = rng.pick(&pool).clone();
                                    if a > b {
                                        std::mem::swap(&mut a, &mut b);
                                    }
                                    (Some(a), Some(b))
                                }
                            };
                            sess.compact(a.as_deref(), b.as_deref());
                            out.add("compact_range_calls", 1);
                            checkpoint_reason = Some("after-compact-range");
                        } else {
                            roll -= params.compact_weight;
                            if roll < params.reopen_weight {
                                let cfg = if params.keep_config_on_reopen {
                                    sess.cfg
                                } else if params.tiny_configs_on_reopen {
                                    gen::tiny_config(rng)
                                } else {
                                    gen::config(rng)
                                };
                                outcome.reopen_pattern.push(if cfg.reuse { 'r' } else { 'f' });
                                for snapshot in held.drain(..) {
                                    sess.db().release_snapshot(snapshot);
                                }
                                if let Err(e) = sess.reopen(cfg) {
                                    out.violate(
                                        "open-failed/clean-reopen",
                                        json!({"error": e, "config": cfg.describe(), "recent_ops": sess.recent_ops(12), "files": sess.fs.image().listing()}),
                                    );
                                    return outcome;
                                }
                                out.add("reopens", 1);
                                checkpoint_reason = Some("after-reopen");
                            } else {
                                roll -= params.reopen_weight;
                                if roll < 2 {
                                    // fill: write enough to overflow the memtable once
                                    if sess.cfg.memtable <= 65_536 {
                                        let mut written = 0usize;
                                        while written <= sess.cfg.memtable {
                                            let k = rng.pick(&pool).clone();
                                            counter += 1;
                                            let v = gen::tagged_value(rng, &format!("f{counter}:"), 60);
                                            written += k.len() + v.len() + 40;
                                            universe.insert(k.clone());
                                            if sess.write(vec![(k, Some(v))]).is_err() {
                                                break;
                                            }
                                        }
                                        out.add("fills", 1);
                                    }
                                } else if roll >= 4 + params.sink_weight {
                                    if held.len() < 3 && (held.is_empty() || rng.chance(0.6)) {
                                        held.push(sess.db().get_snapshot());
                                        out.add("snapshots_held_during_histories", 1);
                                    } else {
                                        let i = rng.usize_below(held.len());
                                        sess.db().release_snapshot(held.swap_remove(i));
                                    }
                                } else if roll >= 4 {
                                    // sink a key range one or more levels deeper
                                    let (a, b) = match rng.below(4) {
                                        0 => (None, None),
                                        1 => (Some(rng.pick(&pool).clone()), None),
                                        2 => (None, Some(rng.pick(&pool).clone())),
                                        _ => {
                                            let mut a = rng.pick(&pool).clone();
                                            let mut b = rng.pick(&pool).clone();
                                            if a > b {
                                                std::mem::swap(&mut a, &mut b);
                                            }
                                            (Some(a), Some(b))
                                        }
                                    };
                                    let depth = rng.range(1, 6) as usize;
                                    let steps = sess.sink(a.as_deref(), b.as_deref(), depth);
                                    out.add("level_by_level_compactions", steps);
                                    checkpoint_reason = Some("after-sinking-a-range");
                                } else {
                                    // burst of lookups (charges seeks; may trigger a seek compaction)
                                    for _ in 0..120 {
                                        let k = rng.pick(&pool).clone();
                                        let got = sess.get(&k);
                                        out.add("gets", 1);
                                        observer.after_get(&sess, out, &k, &got);
                                    }
                                    out.add("seek_bursts", 1);
                                }
                            }
                        }
                    }
                }
            }
        }
        if let Some(ops) = write {
            for (k, _) in &ops {
                universe.insert(k.clone());
            }
            out.add("writes", 1);
            if let Err(e) = sess.write(ops) {
                // no faults are injected here: the database refused a write
                let bad = sess.bad_state();
                outcome.degenerate = Some(format!("write failed: {e}; sticky state: {bad:?}"));
                // the refusal itself is not judged here, but whatever refused must have left the
                // writers' queue usable: one more write, under the watchdog (its result is ignored)
                let _ = sess.write(vec![(b"~after-refused-write".to_vec(), Some(b"x".to_vec()))]);
                out.add("writes_after_a_refused_write", 1);
                break;
            }
        }
        since_checkpoint += 1;
        if checkpoint_reason.is_none() && since_checkpoint >= params.checkpoint_every {
            checkpoint_reason = Some("periodic");
        }
        if let Some(reason) = checkpoint_reason {
            since_checkpoint = 0;
            let levels = sess.shape();
            outcome.max_level = outcome.max_level.max(levels.iter().rposition(|n| *n > 0).unwrap_or(0));
            outcome.shapes.insert(shape_string(&levels));
            observer.checkpoint(&mut sess, out, &universe, reason);
            out.add("checkpoints", 1);
            if out.is_violated() {
                break;
            }
        }
    }
    if outcome.degenerate.is_none() && !out.is_violated() {
        sess.wait_quiescent(Duration::from_secs(20));
        let levels = sess.shape();
        outcome.max_level = outcome.max_level.max(levels.iter().rposition(|n| *n > 0).unwrap_or(0));
        outcome.shapes.insert(shape_string(&levels));
        observer.checkpoint(&mut sess, out, &universe, "final");
    }
    for (name, n) in d.note_counts() {
        out.add(&format!("note.{name}"), n);
    }
    // trivial moves / compaction kinds from the note log
    for (name, args) in d.notes_from(0) {
        if name == "compaction.pick" && args.len() >= 5 {
            if args[4] == 1 {
                out.add("trivial_moves", 1);
            } else if args[3] == 1 {
                out.add("manual_table_compactions", 1);
            } else {
                out.add("auto_table_compactions", 1);
            }
            out.max("compaction_level", args[0]);
        }
    }
    if let Some(why) = &outcome.degenerate {
        out.inconclusive(format!("degenerate: {}", why.chars().take(160).collect::<String>()));
    }
    for snapshot in held.drain(..) {
        if sess.db.is_some() {
            sess.db().release_snapshot(snapshot);
        }
    }
    // a history must not leave the DB to be dropped while the case is being judged: close it here
    sess.close();
    out.add("ops", outcome.ops_done as u64);
    let _ = show;
    outcome
}
