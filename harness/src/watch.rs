//! Panic recording, progress ticks, a stall watchdog and the output channel.

use std::collections::BTreeMap;
use std::fs::File;
use std::io::Write;
use std::sync::atomic::{AtomicBool, AtomicU64, Ordering};
use std::time::{Duration, Instant};

use parking_lot::Mutex;
use serde_json::{json, Value};

#[derive(Clone, Debug)]
pub struct PanicRec {
    pub thread: String,
    pub message: String,
    pub location: String,
}

static PANICS: Mutex<Vec<PanicRec>> = parking_lot::const_mutex(Vec::new());
static QUIET_PANICS: AtomicBool = AtomicBool::new(true);
static TICKS: AtomicU64 = AtomicU64::new(0);
static OUT: Mutex<Option<File>> = parking_lot::const_mutex(None);
static CURRENT_CASE: Mutex<Option<(u64, Instant)>> = parking_lot::const_mutex(None);
static STALL_LIMIT_MS: AtomicU64 = AtomicU64::new(30_000);
static CASE_LIMIT_MS: AtomicU64 = AtomicU64::new(900_000);
static CALL_LIMIT_MS: AtomicU64 = AtomicU64::new(60_000);
static LABELS: Mutex<BTreeMap<String, (String, Instant)>> =
    parking_lot::const_mutex(BTreeMap::new());

pub fn tick() {
    TICKS.fetch_add(1, Ordering::Relaxed);
}

pub fn set_stall_limit(d: Duration) {
    STALL_LIMIT_MS.store(d.as_millis() as u64, Ordering::Relaxed);
}

/// Longest time a single harness-issued call may stay outstanding before it is reported as hung
/// (other threads may keep making progress, so global silence alone cannot see this).
pub fn set_call_limit(d: Duration) {
    CALL_LIMIT_MS.store(d.as_millis() as u64, Ordering::Relaxed);
}

fn longest_outstanding_ms() -> u64 {
    LABELS
        .lock()
        .values()
        .map(|(_, since)| since.elapsed().as_millis() as u64)
        .max()
        .unwrap_or(0)
}

pub fn set_case_limit(d: Duration) {
    CASE_LIMIT_MS.store(d.as_millis() as u64, Ordering::Relaxed);
}

pub fn install_panic_hook(verbose: bool) {
    QUIET_PANICS.store(!verbose, Ordering::Relaxed);
    std::panic::set_hook(Box::new(|info| {
        let thread = std::thread::current()
            .name()
            .unwrap_or("<unnamed>")
            .to_string();
        let message = if let Some(s) = info.payload().downcast_ref::<&str>() {
            s.to_string()
        } else if let Some(s) = info.payload().downcast_ref::<String>() {
            s.clone()
        } else {
            "<non-string panic>".to_string()
        };
        let location = info
            .location()
            .map(|l| format!("{}:{}", l.file(), l.line()))
            .unwrap_or_default();
        if !QUIET_PANICS.load(Ordering::Relaxed) {
            eprintln!("[panic] thread={thread} at {location}: {message}");
        }
        let mut p = PANICS.lock();
        if p.len() < 64 {
            p.push(PanicRec {
                thread,
                message: message.chars().take(300).collect(),
                location,
            });
        }
    }));
}

pub fn take_panics() -> Vec<PanicRec> {
    std::mem::take(&mut *PANICS.lock())
}

pub fn peek_panics() -> Vec<PanicRec> {
    PANICS.lock().clone()
}

pub fn bg_panics() -> Vec<PanicRec> {
    PANICS
        .lock()
        .iter()
        .filter(|p| p.thread.starts_with("raindb-"))
        .cloned()
        .collect()
}

pub fn panics_json(p: &[PanicRec]) -> Value {
    json!(p
        .iter()
        .map(|p| json!({"thread": p.thread, "message": p.message, "location": p.location}))
        .collect::<Vec<_>>())
}

/// Strip the checkout prefix so that signatures do not depend on where /repo lives.
pub fn short_location(loc: &str) -> String {
    match loc.find("src/") {
        Some(i) => loc[i..].to_string(),
        None => loc.to_string(),
    }
}

pub fn open_out(path: &str) {
    let f = std::fs::OpenOptions::new()
        .create(true)
        .append(true)
        .open(path)
        .expect("cannot open output file");
    *OUT.lock() = Some(f);
}

pub fn emit(v: &Value) {
    let mut out = OUT.lock();
    match out.as_mut() {
        Some(f) => {
            let _ = writeln!(f, "{}", v);
            let _ = f.flush();
        }
        None => println!("{}", v),
    }
}

pub fn begin_case(idx: u64) {
    *CURRENT_CASE.lock() = Some((idx, Instant::now()));
    tick();
}

pub fn end_case() {
    *CURRENT_CASE.lock() = None;
    LABELS.lock().clear();
}

/// Marks a harness-issued call as outstanding for the stall report.
pub struct CallGuard {
    key: String,
}

pub fn enter(label: &str) -> CallGuard {
    tick();
    let t = std::thread::current();
    let key = format!("{:?}/{}", t.id(), t.name().unwrap_or(""));
    LABELS
        .lock()
        .insert(key.clone(), (label.to_string(), Instant::now()));
    CallGuard { key }
}

impl Drop for CallGuard {
    fn drop(&mut self) {
        LABELS.lock().remove(&self.key);
        tick();
    }
}

fn outstanding() -> Vec<Value> {
    LABELS
        .lock()
        .iter()
        .map(|(k, (label, since))| json!({"thread": k, "call": label, "for_ms": since.elapsed().as_millis() as u64}))
        .collect()
}

/// Backtraces of all threads of this process (through gdb), reduced to raindb / harness frames.
fn thread_stacks() -> Vec<String> {
    if std::env::var("RDBMON_NO_GDB").is_ok() {
        return vec![];
    }
    let pid = std::process::id().to_string();
    // gdb stops every thread of this process, including this one: its output must go to a file,
    // not to a pipe that nobody can drain while we are stopped
    let path = std::env::temp_dir().join(format!("rdbmon-stacks-{pid}.txt"));
    let file = match std::fs::File::create(&path) {
        Ok(f) => f,
        Err(e) => return vec![format!("cannot create {}: {e}", path.display())],
    };
    let status = std::process::Command::new("timeout")
        .args(["-s", "KILL", "25", "gdb", "-p", &pid, "-batch", "-ex", "set pagination off", "-ex", "thread apply all bt 30"])
        .stdin(std::process::Stdio::null())
        .stdout(file)
        .stderr(std::process::Stdio::null())
        .status();
    let text = std::fs::read_to_string(&path).unwrap_or_default();
    let _ = std::fs::remove_file(&path);
    if let Err(e) = status {
        return vec![format!("gdb unavailable: {e}")];
    }
    let mut lines = vec![];
    for l in text.lines() {
        // frame lines look like `#9  [0x… in ]function (args) at file:line`
        let func = l
            .split_whitespace()
            .skip(1)
            .find(|w| !w.starts_with("0x") && *w != "in")
            .unwrap_or("");
        let keep = l.starts_with("Thread ")
            || func.starts_with("raindb::")
            || func.starts_with("rdbmon::")
            || func.starts_with("parking_lot::condvar")
            || func.starts_with("std::sync::mpmc")
            || func.starts_with("std::thread::sleep");
        if keep {
            lines.push(l.chars().take(220).collect());
        }
        if lines.len() > 160 {
            break;
        }
    }
    lines
}

/// Starts the watchdog thread: if no tick is seen for the stall limit while a case is active the
/// process reports the stall and exits with status 3 (the driver restarts the shard).
pub fn start_watchdog() {
    std::thread::Builder::new()
        .name("rdbmon-watchdog".into())
        .spawn(|| {
            let mut last_ticks = TICKS.load(Ordering::Relaxed);
            let mut last_change = Instant::now();
            loop {
                std::thread::sleep(Duration::from_millis(250));
                let now_ticks = TICKS.load(Ordering::Relaxed);
                if now_ticks != last_ticks {
                    last_ticks = now_ticks;
                    last_change = Instant::now();
                }
                let cur = *CURRENT_CASE.lock();
                if let Some((idx, started)) = cur {
                    let stall = last_change.elapsed().as_millis() as u64;
                    let total = started.elapsed().as_millis() as u64;
                    // once the compaction thread of an open database has died, calls that wait for
                    // it can never return: no need to sit out the full limits
                    let dead_worker = PANICS
                        .lock()
                        .iter()
                        .any(|p| p.thread.starts_with("raindb-"));
                    let stalled = stall > STALL_LIMIT_MS.load(Ordering::Relaxed)
                        || longest_outstanding_ms() > CALL_LIMIT_MS.load(Ordering::Relaxed)
                        || (dead_worker && longest_outstanding_ms() > 8_000);
                    let overtime = total > CASE_LIMIT_MS.load(Ordering::Relaxed);
                    if stalled || overtime {
                        let panics = peek_panics();
                        let stacks = thread_stacks();
                        emit(&json!({
                            "stacks": stacks,
                            "t": if stalled { "hang" } else { "overtime" },
                            "case": idx,
                            "stalled_ms": stall,
                            "case_ms": total,
                            "outstanding": outstanding(),
                            "panics": panics_json(&panics),
                        }));
                        std::process::exit(3);
                    }
                } else {
                    last_change = Instant::now();
                }
            }
        })
        .expect("spawn watchdog");
}


/// A logger that formats every record it is handed and throws the text away. It is registered once
/// per process with the maximum level `Off`; a case that wants raindb's logging to be *evaluated*
/// (an application with a logger at Info) switches the level for its duration.
struct EvaluatingLogger;

static LOG_BYTES: AtomicU64 = AtomicU64::new(0);

impl log::Log for EvaluatingLogger {
    fn enabled(&self, metadata: &log::Metadata) -> bool {
        metadata.level() <= log::max_level()
    }
    fn log(&self, record: &log::Record) {
        if self.enabled(record.metadata()) {
            let text = format!("{}", record.args());
            LOG_BYTES.fetch_add(text.len() as u64, Ordering::Relaxed);
        }
    }
    fn flush(&self) {}
}

pub fn install_evaluating_logger() {
    static LOGGER: EvaluatingLogger = EvaluatingLogger;
    if log::set_logger(&LOGGER).is_ok() {
        log::set_max_level(log::LevelFilter::Off);
    }
}

/// Evaluate raindb's log records up to `level` (Off = none); returns the bytes formatted so far.
pub fn set_log_evaluation(level: log::LevelFilter) -> u64 {
    log::set_max_level(level);
    LOG_BYTES.load(Ordering::Relaxed)
}
