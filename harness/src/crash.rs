//! Crash-point machinery shared by C02 (crash between two filesystem calls), C16 (torn last
//! write) and C11 (leftovers): record one execution on a journaling SimFs, rebuild the state after
//! any prefix of its mutating calls, recover from it and judge what comes back.

use std::collections::BTreeSet;

use serde_json::{json, Value};

use crate::director::director;
use crate::gen::{self, Config, KeyFamily, ValueMix};
use crate::report::{show, CaseOut};
use crate::rng::Rng;
use crate::session::{apply_to_map, AckRec, Map, Session, WriteOp};
use crate::simfs::{Image, JEntry, JOp, OpKind, PathClass, SimFs};
use crate::{dbutil, watch};

pub struct Execution {
    pub journal: Vec<JEntry>,
    pub acks: Vec<AckRec>,
    /// (first journal index, one-past-last journal index, config) of every open (incl. recoveries)
    pub opens: Vec<(u64, u64, Config)>,
    pub universe: BTreeSet<Vec<u8>>,
    pub final_cfg: Config,
    pub description: Value,
    pub degenerate: Option<String>,
}

pub struct ExecParams {
    pub n_ops: usize,
    pub family: KeyFamily,
    pub pool: usize,
    pub cfg: Config,
    pub big_values: bool,
    pub reopen_weight: u64,
    /// end with a clean close and an open that does not take the old manifest and WAL over: the
    /// manifest then starts with the snapshot record of all table files
    pub final_reopen_without_reuse: bool,
    /// one put in twelve carries a value a little longer than a block (a data block of its own)
    pub values_longer_than_a_block: bool,
}

impl ExecParams {
    /// A long execution on 256-byte memtables and 1 MiB files: hundreds of version edits go to one
    /// manifest, which grows past the 32 KiB log block size, so that some manifest record is
    /// written as several fragments.
    pub fn fat_manifest(rng: &mut Rng) -> ExecParams {
        ExecParams {
            n_ops: rng.range(2600, 3400) as usize,
            family: KeyFamily::Ascii,
            pool: 60,
            cfg: Config { memtable: 256, file: 1 << 20, block: 256, reuse: true },
            big_values: false,
            reopen_weight: 0,
            final_reopen_without_reuse: false,
            values_longer_than_a_block: false,
        }
    }

    pub fn generate(rng: &mut Rng, idx: u64, n_ops: usize) -> ExecParams {
        ExecParams {
            n_ops,
            family: [KeyFamily::Ascii, KeyFamily::Binary, KeyFamily::OneByte, KeyFamily::Prefixed][(idx % 4) as usize],
            pool: rng.range(10, 80) as usize,
            cfg: Config {
                memtable: *rng.pick(&[256usize, 512, 1024, 4096]),
                file: *rng.pick(&[512u64, 1024, 4096]),
                block: *rng.pick(&[32usize, 256, 4096]),
                reuse: idx % 2 == 0,
            },
            big_values: idx % 5 == 4,
            reopen_weight: 2,
            final_reopen_without_reuse: false,
            values_longer_than_a_block: false,
        }
    }
}

/// Run a single-client history on a journaling file system and return everything the sweep needs.
pub fn record_execution(rng: &mut Rng, params: &ExecParams) -> Execution {
    let d = director();
    d.reset(rng.next_u64());
    let fs = SimFs::from_image(&dbutil::root_image());
    fs.record_journal(true);
    let mut sess = Session::new(fs.clone(), params.cfg);
    sess.record_acks = true;
    let mut exec = Execution {
        journal: vec![],
        acks: vec![],
        opens: vec![],
        universe: BTreeSet::new(),
        final_cfg: params.cfg,
        description: json!({}),
        degenerate: None,
    };
    let m0 = fs.mut_count();
    if let Err(e) = sess.open() {
        exec.degenerate = Some(format!("open failed: {e}"));
        return exec;
    }
    exec.opens.push((m0, fs.mut_count(), params.cfg));
    let pool = gen::key_pool(rng, params.family, params.pool);
    let mut counter = 0u64;
    let mut reopens = 0;
    for _ in 0..params.n_ops {
        watch::tick();
        let roll = rng.below(100);
        let mut write: Option<Vec<WriteOp>> = None;
        if roll < 55 {
            counter += 1;
            let mut k = rng.pick(&pool).clone();
            let v = if params.values_longer_than_a_block && rng.chance(0.2) {
                // the long values go to the three smallest keys: tables then begin with data blocks
                // that hold one entry each
                let mut sorted = pool.clone();
                sorted.sort();
                k = sorted[rng.usize_below(sorted.len().min(3))].clone();
                let extra = rng.below(60) as usize;
                gen::tagged_value(rng, &format!("v{counter}:"), params.cfg.block + 40 + extra)
            } else if params.big_values && rng.chance(0.04) {
                gen::tagged_value(rng, &format!("v{counter}:"), rng.clone().range(33_000, 70_000) as usize)
            } else {
                gen::value(rng, ValueMix::Small, &format!("v{counter}:"))
            };
            write = Some(vec![(k, Some(v))]);
        } else if roll < 70 {
            write = Some(vec![(rng.pick(&pool).clone(), None)]);
        } else if roll < 85 {
            let n = rng.range(2, 40) as usize;
            let mut ops = vec![];
            for _ in 0..n {
                let k = rng.pick(&pool).clone();
                if rng.chance(0.25) {
                    ops.push((k, None));
                } else {
                    counter += 1;
                    ops.push((k, Some(gen::value(rng, ValueMix::Small, &format!("b{counter}:")))));
                }
            }
            write = Some(ops);
        } else if roll < 92 {
            let k = rng.pick(&pool).clone();
            let _ = sess.get(&k);
        } else if roll < 96 {
            match rng.below(2) {
                0 => sess.compact(None, None),
                _ => {
                    let a = rng.pick(&pool).clone();
                    sess.compact(Some(&a), None);
                }
            }
        } else if roll < 96 + params.reopen_weight {
            let cfg = Config { reuse: rng.chance(0.5), ..gen::tiny_config(rng) };
            sess.close();
            let m0 = fs.mut_count();
            sess.cfg = cfg;
            if let Err(e) = sess.open() {
                exec.degenerate = Some(format!("clean reopen failed: {e}"));
                break;
            }
            exec.opens.push((m0, fs.mut_count(), cfg));
            reopens += 1;
        }
        if let Some(ops) = write {
            for (k, _) in &ops {
                exec.universe.insert(k.clone());
            }
            if let Err(e) = sess.write(ops) {
                exec.degenerate = Some(format!("write refused: {e}"));
                break;
            }
        }
    }
    if exec.degenerate.is_none() && params.final_reopen_without_reuse {
        sess.wait_quiescent(std::time::Duration::from_secs(10));
        sess.close();
        let m0 = fs.mut_count();
        sess.cfg = Config { reuse: false, ..sess.cfg };
        match sess.open() {
            Err(e) => exec.degenerate = Some(format!("clean reopen failed: {e}")),
            Ok(()) => {
                exec.opens.push((m0, fs.mut_count(), sess.cfg));
                reopens += 1;
            }
        }
    }
    if exec.degenerate.is_none() {
        sess.wait_quiescent(std::time::Duration::from_secs(10));
    }
    exec.final_cfg = sess.cfg;
    sess.close();
    exec.journal = fs.take_journal();
    exec.acks = std::mem::take(&mut sess.acks);
    exec.description = json!({"ops": params.n_ops, "keys": params.family.name(), "pool": params.pool, "config": params.cfg.describe(),
        "big_values": params.big_values, "reopens": reopens, "mutating_fs_calls": exec.journal.len(), "client_writes": exec.acks.len()});
    exec
}

impl Execution {
    /// Journal indices (0-based) of manifest writes that touch a 32 KiB log-block boundary: the
    /// fragments of a record that spans two blocks and the zero padding of a block trailer.
    pub fn manifest_block_boundary_writes(&self) -> Vec<usize> {
        const BLOCK: u64 = 32768;
        let mut out = vec![];
        for (i, e) in self.journal.iter().enumerate() {
            if let JOp::Write { offset, data, .. } = &e.op {
                if e.op.class() == PathClass::Manifest {
                    let end = *offset + data.len() as u64;
                    let near = |x: u64| x % BLOCK < 64 || BLOCK - (x % BLOCK) < 64;
                    if (*offset / BLOCK != end / BLOCK || near(*offset) || near(end)) && end > BLOCK / 2 {
                        out.push(i);
                    }
                }
            }
        }
        out
    }

    /// The two legal contents after a crash with the first `k` mutating calls applied:
    /// (acknowledged writes, acknowledged writes + the write that was in flight).
    pub fn expected_at(&self, k: u64) -> (Map, Option<Map>) {
        let mut acked = Map::new();
        let mut inflight: Option<&AckRec> = None;
        for a in &self.acks {
            if a.ret_mut <= k {
                if a.ok {
                    apply_to_map(&mut acked, &a.ops);
                }
            } else if a.call_mut < k {
                inflight = Some(a);
                break;
            } else {
                break;
            }
        }
        let with = inflight.map(|a| {
            let mut m = acked.clone();
            apply_to_map(&mut m, &a.ops);
            m
        });
        (acked, with)
    }

    /// Config in effect when the `k`-th mutating call was issued.
    pub fn cfg_at(&self, k: u64) -> Config {
        let mut cfg = self.opens.first().map(|o| o.2).unwrap_or(self.final_cfg);
        for (start, _, c) in &self.opens {
            if *start <= k {
                cfg = *c;
            }
        }
        cfg
    }

    /// A label for the phase the `k`-th journal entry (0-based) belongs to.
    pub fn phase_of(&self, index: usize) -> String {
        let entry = &self.journal[index];
        let in_recovery = self
            .opens
            .iter()
            .skip(1)
            .any(|(s, e, _)| (*s as usize) <= index && index < (*e as usize));
        let in_creation = self.opens.first().map_or(false, |(s, e, _)| (*s as usize) <= index && index < (*e as usize));
        let base = match (entry.op.kind(), entry.op.class()) {
            (OpKind::Write, PathClass::Wal) => "wal-append",
            (OpKind::CreateTrunc, PathClass::Wal) | (OpKind::OpenAppend, PathClass::Wal) => "wal-create",
            (OpKind::Write, PathClass::Table) | (OpKind::CreateTrunc, PathClass::Table) => "table-build",
            (OpKind::Write, PathClass::Manifest) => "manifest-append",
            (OpKind::CreateTrunc, PathClass::Manifest) | (OpKind::OpenAppend, PathClass::Manifest) => "manifest-create",
            (_, PathClass::Temp) | (_, PathClass::Current) => "current-switch",
            (OpKind::Remove, _) => "gc-delete",
            (OpKind::Mkdir, _) => "mkdir",
            (OpKind::Lock, _) => "lock",
            _ => "other",
        };
        if in_recovery {
            format!("recovery/{base}")
        } else if in_creation {
            format!("creation/{base}")
        } else {
            base.to_string()
        }
    }
}

#[derive(Default)]
pub struct Judged {
    pub ok: bool,
    pub matched_inflight: bool,
}

fn diff_class(got: &Map, acked: &Map, with: Option<&Map>) -> (&'static str, Value) {
    // something acknowledged is missing or older?
    for (k, v) in acked {
        let alt = with.and_then(|m| m.get(k));
        match got.get(k) {
            Some(g) if g == v || Some(g) == alt => {}
            Some(g) => {
                return ("acknowledged-write-replaced-by-other-value", json!({"key": show(k), "expected": show(v), "got": show(g)}));
            }
            None => {
                if with.map_or(false, |m| !m.contains_key(k)) {
                    continue;
                }
                return ("acknowledged-write-lost", json!({"key": show(k), "expected": show(v)}));
            }
        }
    }
    for (k, g) in got {
        let in_acked = acked.get(k) == Some(g);
        let in_with = with.map_or(false, |m| m.get(k) == Some(g));
        if !in_acked && !in_with {
            return ("contains-something-never-acknowledged", json!({"key": show(k), "got": show(g), "acked_value": acked.get(k).map(|v| show(v))}));
        }
    }
    ("in-flight-batch-applied-partially", json!({}))
}

/// Open the image, compare contents with the legal states, write, close, reopen, compare again.
/// `sig_prefix` is e.g. "C02" and `phase` the crash phase label.
#[allow(clippy::too_many_arguments)]
pub fn recover_and_judge(
    out: &mut CaseOut,
    image: &Image,
    cfg: Config,
    acked: &Map,
    with_inflight: Option<&Map>,
    universe: &BTreeSet<Vec<u8>>,
    sig_prefix: &str,
    phase: &str,
    ctx: &Value,
    rng: &mut Rng,
    record_recovery: bool,
) -> (Judged, Option<Vec<JEntry>>) {
    let fs = SimFs::from_image(image);
    if record_recovery {
        fs.record_journal(true);
    }
    let mut sess = Session::new(fs.clone(), cfg);
    sess.fill_cache = false;
    let mut judged = Judged::default();
    out.add("images_recovered", 1);
    if let Err(e) = sess.open() {
        out.violate(
            format!("{sig_prefix}/open-failed-after-crash/{phase}"),
            json!({"ctx": ctx, "error": e, "files": image.listing(), "config": cfg.describe()}),
        );
        return (judged, None);
    }
    let recovery_journal = if record_recovery { Some(fs.take_journal()) } else { None };
    fs.record_journal(false);
    // contents: full scan + get of every key ever used
    let got: Map = match sess.scan(None) {
        Ok(entries) => entries.into_iter().collect(),
        Err(e) => {
            out.violate(format!("{sig_prefix}/scan-error-after-recovery/{phase}"), json!({"ctx": ctx, "error": e}));
            sess.close();
            return (judged, recovery_journal);
        }
    };
    let matches_acked = got == *acked;
    let matches_with = with_inflight.map_or(false, |m| got == *m);
    if !matches_acked && !matches_with {
        let (class, detail) = diff_class(&got, acked, with_inflight);
        out.violate(
            format!("{sig_prefix}/contents-after-recovery/{class}/{phase}"),
            json!({"ctx": ctx, "detail": detail, "acked_entries": acked.len(), "recovered_entries": got.len(),
                "in_flight_write": with_inflight.is_some(), "files": image.listing(), "config": cfg.describe()}),
        );
        sess.close();
        return (judged, recovery_journal);
    }
    judged.matched_inflight = matches_with && !matches_acked;
    let reference = if matches_acked { acked.clone() } else { with_inflight.unwrap().clone() };
    for k in universe {
        match sess.get(k) {
            Ok(g) => {
                if g.as_ref() != reference.get(k) {
                    out.violate(
                        format!("{sig_prefix}/get-disagrees-with-scan-after-recovery/{phase}"),
                        json!({"ctx": ctx, "key": show(k), "scan_says": reference.get(k).map(|v| show(v)), "get_says": g.as_ref().map(|v| show(v))}),
                    );
                    sess.close();
                    return (judged, recovery_journal);
                }
            }
            Err(e) => {
                out.violate(format!("{sig_prefix}/get-error-after-recovery/{phase}"), json!({"ctx": ctx, "key": show(k), "error": e}));
                sess.close();
                return (judged, recovery_journal);
            }
        }
    }
    // the recovered database must be fully usable
    sess.model = reference;
    let big_first_write = rng.chance(0.25);
    for i in 0..10 {
        let k = format!("~post{:02}", i).into_bytes();
        // sometimes the very first write after recovery is itself a multi-block log record
        let len = if i == 0 && big_first_write { 40_000 } else { 24 };
        let v = gen::tagged_value(rng, &format!("post{i}:"), len);
        let r = if i == 7 {
            let victim = universe.iter().next().cloned().unwrap_or_else(|| b"x".to_vec());
            sess.write(vec![(k.clone(), Some(v)), (victim, None)])
        } else {
            sess.put(&k, &v)
        };
        if let Err(e) = r {
            out.violate(format!("{sig_prefix}/write-refused-after-recovery/{phase}"), json!({"ctx": ctx, "error": e}));
            sess.close();
            return (judged, recovery_journal);
        }
    }
    let cfg2 = Config { reuse: rng.chance(0.5), ..cfg };
    if let Err(e) = sess.reopen(cfg2) {
        out.violate(
            format!("{sig_prefix}/reopen-failed-after-post-recovery-writes/{phase}"),
            json!({"ctx": ctx, "error": e, "recovered_with": cfg.describe(), "reopened_with": cfg2.describe(), "files": sess.fs.image().listing()}),
        );
        return (judged, recovery_journal);
    }
    match sess.scan(None) {
        Ok(entries) => {
            let got2: Map = entries.into_iter().collect();
            if got2 != sess.model {
                let lost: Vec<String> = sess.model.iter().filter(|(k, v)| got2.get(*k) != Some(*v)).take(5).map(|(k, _)| show(k)).collect();
                let extra: Vec<String> = got2.iter().filter(|(k, v)| sess.model.get(*k) != Some(*v)).take(5).map(|(k, _)| show(k)).collect();
                let class = if lost.iter().any(|k| k.starts_with("~post")) { "post-recovery-writes-lost" } else { "earlier-state-changed" };
                out.violate(
                    format!("{sig_prefix}/after-next-clean-reopen/{class}/{phase}"),
                    json!({"ctx": ctx, "missing_or_different": lost, "unexpected": extra, "recovered_with": cfg.describe(), "reopened_with": cfg2.describe()}),
                );
                sess.close();
                return (judged, recovery_journal);
            }
        }
        Err(e) => {
            out.violate(format!("{sig_prefix}/scan-error-after-next-reopen/{phase}"), json!({"ctx": ctx, "error": e}));
            sess.close();
            return (judged, recovery_journal);
        }
    }
    sess.close();
    judged.ok = true;
    (judged, recovery_journal)
}

/// true if journal entry changes a persistent file (everything except lock/mkdir)
pub fn is_persistent_change(op: &JOp) -> bool {
    !matches!(op, JOp::Lock(_) | JOp::Mkdir(_) | JOp::MkdirAll(_))
}
