//! The handler installed at raindb's verification hooks: counts notes, forces schedules with
//! gates (park a chosen thread at a chosen scheduling point) and perturbs with seeded delays.

use std::cell::Cell;
use std::collections::HashMap;
use std::sync::Arc;
use std::time::{Duration, Instant};

use parking_lot::{Condvar, Mutex};
use raindb::verif::Handler;

use crate::watch;

/// Role of the compaction thread.
pub const COMPACTOR: u32 = 1000;
/// Matches any role.
pub const ANY: u32 = u32::MAX;

thread_local! {
    static ROLE: Cell<u32> = Cell::new(0);
}

/// Declare the calling thread to be client `role` (1..). The harness main thread is role 0.
pub fn set_role(role: u32) {
    ROLE.with(|r| r.set(role));
}

/// The role of the calling thread.
pub fn role() -> u32 {
    current_role()
}

fn current_role() -> u32 {
    let r = ROLE.with(|r| r.get());
    if r != 0 {
        return r;
    }
    let is_bg = std::thread::current()
        .name()
        .map_or(false, |n| n.starts_with("raindb-"));
    if is_bg {
        ROLE.with(|r| r.set(COMPACTOR));
        COMPACTOR
    } else {
        0
    }
}

#[derive(Clone, Copy, Debug, PartialEq, Eq)]
enum GateState {
    Armed,
    Arrived,
    Released,
}

#[derive(Debug)]
struct Gate {
    id: u64,
    role: u32,
    point: &'static str,
    remaining: u64,
    state: GateState,
    args: Vec<u64>,
}

#[derive(Clone, Copy, Debug)]
pub struct Delay {
    pub probability: f64,
    pub min_us: u64,
    pub max_us: u64,
}

#[derive(Default)]
struct Inner {
    notes: HashMap<&'static str, u64>,
    pauses: HashMap<&'static str, u64>,
    note_log: Vec<(&'static str, Vec<u64>)>,
    gates: Vec<Gate>,
    next_gate: u64,
    delays: HashMap<&'static str, Delay>,
    default_delay: Option<Delay>,
    rng: u64,
    signature: u64,
    arrivals: u64,
    gate_timeouts: u64,
    /// callbacks run (outside the director's lock, on the noting thread) when a note is recorded
    note_hooks: Vec<(&'static str, Arc<dyn Fn(&[u64]) + Send + Sync>)>,
}

pub struct Director {
    inner: Mutex<Inner>,
    cv: Condvar,
}

static DIRECTOR: Mutex<Option<Arc<Director>>> = parking_lot::const_mutex(None);

/// The process-wide director (installed as raindb's hook handler on first use).
pub fn director() -> Arc<Director> {
    let mut slot = DIRECTOR.lock();
    if let Some(d) = slot.as_ref() {
        return Arc::clone(d);
    }
    let d = Arc::new(Director {
        inner: Mutex::new(Inner::default()),
        cv: Condvar::new(),
    });
    raindb::verif::set_handler(Some(Arc::clone(&d) as Arc<dyn Handler>));
    *slot = Some(Arc::clone(&d));
    d
}

fn next_rand(state: &mut u64) -> u64 {
    *state ^= *state << 13;
    *state ^= *state >> 7;
    *state ^= *state << 17;
    *state
}

impl Director {
    /// Forget everything (counts, gates, delays). Parked threads are released.
    pub fn reset(&self, seed: u64) {
        let mut inner = self.inner.lock();
        for g in inner.gates.iter_mut() {
            g.state = GateState::Released;
        }
        self.cv.notify_all();
        let gates = std::mem::take(&mut inner.gates);
        *inner = Inner::default();
        // keep released gates around until their threads have left
        inner.gates = gates;
        inner.rng = seed | 1;
    }

    pub fn note_count(&self, name: &str) -> u64 {
        self.inner.lock().notes.get(name).copied().unwrap_or(0)
    }

    pub fn pause_count(&self, name: &str) -> u64 {
        self.inner.lock().pauses.get(name).copied().unwrap_or(0)
    }

    pub fn note_counts(&self) -> Vec<(String, u64)> {
        let mut v: Vec<(String, u64)> = self
            .inner
            .lock()
            .notes
            .iter()
            .map(|(k, n)| (k.to_string(), *n))
            .collect();
        v.sort();
        v
    }

    /// Notes recorded since the log had `from` entries.
    pub fn notes_from(&self, from: usize) -> Vec<(&'static str, Vec<u64>)> {
        let inner = self.inner.lock();
        inner.note_log[from.min(inner.note_log.len())..].to_vec()
    }

    pub fn note_log_len(&self) -> usize {
        self.inner.lock().note_log.len()
    }

    pub fn signature(&self) -> u64 {
        self.inner.lock().signature
    }

    pub fn gate_timeouts(&self) -> u64 {
        self.inner.lock().gate_timeouts
    }

    /// Run `cb` on the noting thread every time the note `point` is recorded (until the next
    /// `reset`). Notes are emitted under the database mutex: the callback must not call into the
    /// database and must not block; arming a file-system fault or bumping a counter is what it is for.
    pub fn on_note(&self, point: &'static str, cb: Arc<dyn Fn(&[u64]) + Send + Sync>) {
        self.inner.lock().note_hooks.push((point, cb));
    }

    pub fn set_delay(&self, point: &'static str, delay: Delay) {
        self.inner.lock().delays.insert(point, delay);
    }

    pub fn set_default_delay(&self, delay: Option<Delay>) {
        self.inner.lock().default_delay = delay;
    }

    pub fn clear_delays(&self) {
        let mut inner = self.inner.lock();
        inner.delays.clear();
        inner.default_delay = None;
    }

    /// Park the thread with `role` when it reaches `point` for the `nth` time (1-based) from now.
    pub fn arm(&self, role: u32, point: &'static str, nth: u64) -> u64 {
        let mut inner = self.inner.lock();
        inner.next_gate += 1;
        let id = inner.next_gate;
        inner.gates.push(Gate {
            id,
            role,
            point,
            remaining: nth.max(1),
            state: GateState::Armed,
            args: vec![],
        });
        id
    }

    /// Wait until a thread is parked at the gate.
    pub fn wait_arrived(&self, id: u64, timeout: Duration) -> bool {
        let deadline = Instant::now() + timeout;
        let mut inner = self.inner.lock();
        loop {
            match inner.gates.iter().find(|g| g.id == id) {
                Some(g) if g.state == GateState::Arrived => return true,
                Some(g) if g.state == GateState::Released => return false,
                None => return false,
                _ => {}
            }
            watch::tick();
            if self
                .cv
                .wait_until(&mut inner, Instant::now() + Duration::from_millis(20))
                .timed_out()
                && Instant::now() >= deadline
            {
                return false;
            }
        }
    }

    pub fn is_arrived(&self, id: u64) -> bool {
        self.inner
            .lock()
            .gates
            .iter()
            .any(|g| g.id == id && g.state == GateState::Arrived)
    }

    pub fn gate_args(&self, id: u64) -> Vec<u64> {
        self.inner
            .lock()
            .gates
            .iter()
            .find(|g| g.id == id)
            .map(|g| g.args.clone())
            .unwrap_or_default()
    }

    /// Release (or disarm) a gate.
    pub fn release(&self, id: u64) {
        let mut inner = self.inner.lock();
        for g in inner.gates.iter_mut() {
            if g.id == id {
                g.state = GateState::Released;
            }
        }
        self.cv.notify_all();
    }

    pub fn release_all(&self) {
        let mut inner = self.inner.lock();
        for g in inner.gates.iter_mut() {
            g.state = GateState::Released;
        }
        self.cv.notify_all();
    }
}

impl Handler for Director {
    fn pause(&self, point: &'static str, args: &[u64]) {
        watch::tick();
        let role = current_role();
        let mut sleep_for: Option<Duration> = None;
        {
            let mut inner = self.inner.lock();
            *inner.pauses.entry(point).or_insert(0) += 1;
            inner.arrivals += 1;
            // interleaving signature: order-sensitive hash of (role, point) arrivals
            let mut h = inner.signature ^ (role as u64).wrapping_mul(0x9E37_79B9_7F4A_7C15);
            for b in point.bytes() {
                h = (h ^ b as u64).wrapping_mul(0x100_0000_01B3);
            }
            inner.signature = h.rotate_left(5);

            let mut parked: Option<u64> = None;
            for g in inner.gates.iter_mut() {
                if g.state == GateState::Armed && g.point == point && (g.role == role || g.role == ANY) {
                    g.remaining -= 1;
                    if g.remaining == 0 {
                        g.state = GateState::Arrived;
                        g.args = args.to_vec();
                        parked = Some(g.id);
                        break;
                    }
                }
            }
            if let Some(id) = parked {
                self.cv.notify_all();
                let hard_deadline = Instant::now() + Duration::from_secs(120);
                loop {
                    let released = inner
                        .gates
                        .iter()
                        .find(|g| g.id == id)
                        .map_or(true, |g| g.state == GateState::Released);
                    if released {
                        break;
                    }
                    if self
                        .cv
                        .wait_until(&mut inner, Instant::now() + Duration::from_millis(50))
                        .timed_out()
                        && Instant::now() >= hard_deadline
                    {
                        inner.gate_timeouts += 1;
                        for g in inner.gates.iter_mut() {
                            if g.id == id {
                                g.state = GateState::Released;
                            }
                        }
                        break;
                    }
                }
                inner.gates.retain(|g| g.id != id);
                return;
            }
            let delay = inner.delays.get(point).copied().or(inner.default_delay);
            if let Some(d) = delay {
                let r = next_rand(&mut inner.rng);
                let p = (r >> 11) as f64 / ((1u64 << 53) as f64);
                if p < d.probability {
                    let span = d.max_us.saturating_sub(d.min_us) + 1;
                    let us = d.min_us + next_rand(&mut inner.rng) % span;
                    sleep_for = Some(Duration::from_micros(us));
                }
            }
        }
        if let Some(d) = sleep_for {
            if d.as_micros() == 0 {
                std::thread::yield_now();
            } else {
                std::thread::sleep(d);
            }
        }
    }

    fn note(&self, point: &'static str, args: &[u64]) {
        watch::tick();
        let mut inner = self.inner.lock();
        *inner.notes.entry(point).or_insert(0) += 1;
        if inner.note_log.len() < 200_000 {
            inner.note_log.push((point, args.to_vec()));
        }
        if inner.note_hooks.is_empty() {
            return;
        }
        let hooks: Vec<_> = inner.note_hooks.iter().filter(|(p, _)| *p == point).map(|(_, cb)| Arc::clone(cb)).collect();
        drop(inner);
        for cb in hooks {
            cb(args);
        }
    }
}
