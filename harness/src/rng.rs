//! Small deterministic PRNG (xoshiro256** seeded by splitmix64) — no external crates.

#[derive(Clone, Debug)]
pub struct Rng {
    s: [u64; 4],
}

fn splitmix(x: &mut u64) -> u64 {
    *x = x.wrapping_add(0x9E37_79B9_7F4A_7C15);
    let mut z = *x;
    z = (z ^ (z >> 30)).wrapping_mul(0xBF58_476D_1CE4_E5B9);
    z = (z ^ (z >> 27)).wrapping_mul(0x94D0_49BB_1331_11EB);
    z ^ (z >> 31)
}

/// Hash a few integers and a string into a seed.
pub fn mix(parts: &[u64], tag: &str) -> u64 {
    let mut x: u64 = 0x1234_5678_9ABC_DEF0;
    for p in parts {
        x ^= *p;
        splitmix(&mut x);
        x = x.rotate_left(17);
    }
    for b in tag.bytes() {
        x ^= b as u64;
        splitmix(&mut x);
    }
    splitmix(&mut x)
}

impl Rng {
    pub fn new(seed: u64) -> Self {
        let mut x = seed;
        let s = [
            splitmix(&mut x),
            splitmix(&mut x),
            splitmix(&mut x),
            splitmix(&mut x),
        ];
        Rng { s }
    }
    pub fn next_u64(&mut self) -> u64 {
        let result = self.s[1].wrapping_mul(5).rotate_left(7).wrapping_mul(9);
        let t = self.s[1] << 17;
        self.s[2] ^= self.s[0];
        self.s[3] ^= self.s[1];
        self.s[1] ^= self.s[2];
        self.s[0] ^= self.s[3];
        self.s[2] ^= t;
        self.s[3] = self.s[3].rotate_left(45);
        result
    }
    /// uniform in 0..n (n > 0)
    pub fn below(&mut self, n: u64) -> u64 {
        if n == 0 {
            return 0;
        }
        self.next_u64() % n
    }
    pub fn usize_below(&mut self, n: usize) -> usize {
        self.below(n as u64) as usize
    }
    /// uniform in lo..=hi
    pub fn range(&mut self, lo: u64, hi: u64) -> u64 {
        lo + self.below(hi - lo + 1)
    }
    pub fn chance(&mut self, p: f64) -> bool {
        (self.next_u64() >> 11) as f64 / ((1u64 << 53) as f64) < p
    }
    pub fn pick<'a, T>(&mut self, items: &'a [T]) -> &'a T {
        &items[self.usize_below(items.len())]
    }
    pub fn bytes(&mut self, n: usize) -> Vec<u8> {
        let mut out = Vec::with_capacity(n);
        while out.len() < n {
            let w = self.next_u64().to_le_bytes();
            let take = (n - out.len()).min(8);
            out.extend_from_slice(&w[..take]);
        }
        out
    }
    pub fn shuffle<T>(&mut self, items: &mut [T]) {
        for i in (1..items.len()).rev() {
            let j = self.usize_below(i + 1);
            items.swap(i, j);
        }
    }
    pub fn fork(&mut self, tag: &str) -> Rng {
        Rng::new(mix(&[self.next_u64()], tag))
    }
}
