//! C03 — a snapshot or iterator sees exactly the state at its creation, forever.

use std::collections::BTreeSet;
use std::time::Duration;

use raindb::{RainDBError, ReadOptions, Snapshot};
use serde_json::json;

use crate::director::{director, set_role};
use crate::gen::{self, Config, KeyFamily, ValueMix};
use crate::props::c04::CursorChecker;
use crate::report::{show, show_opt, CaseOut};
use crate::rng::{mix, Rng};
use crate::session::{Map, Session, WriteOp};
use crate::shapes;
use crate::simfs::SimFs;
use crate::{dbutil, watch};

pub fn plan(tier: &str) -> u64 {
    n_history(tier) + n_forced(tier) + n_split(tier) + n_concurrent(tier)
}

fn n_concurrent(tier: &str) -> u64 {
    if tier == "quick" {
        48
    } else {
        600
    }
}

fn n_forced(tier: &str) -> u64 {
    if tier == "quick" {
        24
    } else {
        300
    }
}

fn n_split(tier: &str) -> u64 {
    if tier == "quick" {
        480
    } else {
        4800
    }
}

fn n_history(tier: &str) -> u64 {
    if tier == "quick" {
        64
    } else {
        800
    }
}

struct LiveSnapshot {
    snapshot: Snapshot,
    frozen: Map,
    created_at_op: usize,
    shape_at_creation: String,
    picks_at_creation: (u64, u64, u64),
    verifications: u64,
}

/// (auto table compactions, manual table compactions, trivial moves) noted so far
fn pick_counts() -> (u64, u64, u64) {
    let mut c = (0, 0, 0);
    for (name, args) in director().notes_from(0) {
        if name == "compaction.pick" && args.len() >= 5 {
            if args[4] == 1 {
                c.2 += 1;
            } else if args[3] == 1 {
                c.1 += 1;
            } else {
                c.0 += 1;
            }
        }
    }
    c
}

/// Full verification of one snapshot: every key by get, forward scan, backward scan.
pub fn verify_view(
    out: &mut CaseOut,
    sess: &Session,
    snapshot: Option<&Snapshot>,
    frozen: &Map,
    universe: &BTreeSet<Vec<u8>>,
    when: &str,
    ctx: &serde_json::Value,
    prop: &str,
) {
    for k in universe {
        out.add("snapshot_gets", 1);
        match sess.get_at(snapshot, k) {
            Err(e) => {
                out.violate(format!("{prop}/snapshot-get-error/{when}"), json!({"ctx": ctx, "key": show(k), "error": e}));
                return;
            }
            Ok(got) => {
                let expected = frozen.get(k);
                if got.as_ref() != expected {
                    let class = match (expected, &got) {
                        (Some(_), None) => "visible-value-missing",
                        (None, Some(_)) => "later-or-deleted-value-visible",
                        _ => "wrong-version",
                    };
                    let holders: Vec<String> = sess.db().verif_files().iter()
                        .filter(|f| f.smallest.user_key.as_slice() <= k.as_slice() && k.as_slice() <= f.largest.user_key.as_slice())
                        .map(|f| format!("L{}#{}[{}@{}..{}@{}]", f.level, f.number, show(&f.smallest.user_key), f.smallest.sequence, show(&f.largest.user_key), f.largest.sequence))
                        .collect();
                    let layout: Vec<String> = sess.db().verif_files().iter().take(80)
                        .map(|f| format!("L{}#{}[{}@{}..{}@{}]", f.level, f.number, show(&f.smallest.user_key[..f.smallest.user_key.len().min(6)]), f.smallest.sequence, show(&f.largest.user_key[..f.largest.user_key.len().min(6)]), f.largest.sequence))
                        .collect();
                    let snapshot_sequence = snapshot.map(|s| format!("{s:?}"));
                    out.violate(
                        format!("{prop}/snapshot-get-mismatch/{class}/{when}"),
                        json!({"ctx": ctx, "key": show(k), "expected": show_opt(expected.map(|v| v.as_slice())), "got": show_opt(got.as_deref()),
                            "files_covering_key": holders, "layout": layout, "snapshot": snapshot_sequence, "recent_ops": sess.recent_ops(12)}),
                    );
                    return;
                }
            }
        }
    }
    let expected: Vec<(Vec<u8>, Vec<u8>)> = frozen.iter().map(|(k, v)| (k.clone(), v.clone())).collect();
    for (dir, scan) in [("forward", sess.scan(snapshot)), ("backward", sess.scan_back(snapshot))] {
        out.add("snapshot_scans", 1);
        match scan {
            Err(e) => {
                out.violate(format!("{prop}/snapshot-scan-error/{when}"), json!({"ctx": ctx, "direction": dir, "error": e}));
                return;
            }
            Ok(got) => {
                if got != expected {
                    let at = got.iter().zip(expected.iter()).position(|(a, b)| a != b).unwrap_or(got.len().min(expected.len()));
                    out.violate(
                        format!("{prop}/snapshot-scan-mismatch/{dir}/{when}"),
                        json!({"ctx": ctx, "expected_entries": expected.len(), "got_entries": got.len(), "first_difference_at": at,
                            "expected_there": expected.get(at).map(|(k, v)| format!("{}={}", show(k), show(&v[..v.len().min(12)]))),
                            "got_there": got.get(at).map(|(k, v)| format!("{}={}", show(k), show(&v[..v.len().min(12)]))),
                            "recent_ops": sess.recent_ops(12)}),
                    );
                    return;
                }
            }
        }
    }
}

fn case_history(out: &mut CaseOut, tier: &str, seed: u64, idx: u64) {
    let mut rng = Rng::new(mix(&[seed, idx], "c03-h"));
    let d = director();
    d.reset(rng.next_u64());
    let family = [KeyFamily::OneByte, KeyFamily::FfRuns, KeyFamily::Ascii, KeyFamily::Binary, KeyFamily::Prefixed, KeyFamily::Ragged][(idx % 6) as usize];
    let cfg = Config {
        memtable: *rng.pick(&[256usize, 512, 1024]),
        file: *rng.pick(&[512u64, 1024, 2048]),
        block: *rng.pick(&[16usize, 64, 256]),
        reuse: rng.chance(0.5),
    };
    let fs = SimFs::from_image(&dbutil::root_image());
    let mut sess = Session::new(fs, cfg);
    if let Err(e) = sess.open() {
        out.violate("C03/open-failed", json!({"error": e}));
        return;
    }
    let pool_size = rng.range(6, 40) as usize;
    let pool = gen::key_pool(&mut rng, family, pool_size);
    let n_ops = if tier == "quick" { 400 } else { rng.range(400, 2000) as usize };
    let mut universe: BTreeSet<Vec<u8>> = BTreeSet::new();
    let mut live: Vec<LiveSnapshot> = vec![];
    let mut iters = vec![]; // (CursorChecker, description)
    let mut counter = 0u64;
    let mut last_installs = 0u64;
    let mut outlived: BTreeSet<String> = BTreeSet::new();
    let ctx = json!({"config": cfg.describe(), "keys": family.name(), "pool": pool.len()});
    let mut degenerate = None;

    'ops: for opi in 0..n_ops {
        watch::tick();
        let roll = rng.below(100);
        if roll < 62 {
            let mut ops: Vec<WriteOp> = vec![];
            let n = if rng.chance(0.1) { rng.range(2, 8) } else { 1 };
            for _ in 0..n {
                let k = rng.pick(&pool).clone();
                universe.insert(k.clone());
                if rng.chance(0.25) {
                    ops.push((k, None));
                } else {
                    counter += 1;
                    ops.push((k, Some(gen::value(&mut rng, ValueMix::Small, &format!("v{counter}:")))));
                }
            }
            if let Err(e) = sess.write(ops) {
                degenerate = Some(e);
                break 'ops;
            }
        } else if roll < 70 {
            if live.len() < 6 {
                let snapshot = sess.db().get_snapshot();
                let (_, sig) = shapes::children_and_signature(&sess);
                let ls = LiveSnapshot {
                    snapshot,
                    frozen: sess.model.clone(),
                    created_at_op: opi,
                    shape_at_creation: sig,
                    picks_at_creation: pick_counts(),
                    verifications: 0,
                };
                verify_view(out, &sess, Some(&ls.snapshot), &ls.frozen, &universe, "at-creation", &ctx, "C03");
                live.push(ls);
                out.add("snapshots_taken", 1);
            }
        } else if roll < 76 {
            if !live.is_empty() {
                let i = rng.usize_below(live.len());
                let ls = live.remove(i);
                verify_view(out, &sess, Some(&ls.snapshot), &ls.frozen, &universe, "before-release", &ctx, "C03");
                let now = pick_counts();
                let (a, m, t) = (now.0 - ls.picks_at_creation.0, now.1 - ls.picks_at_creation.1, now.2 - ls.picks_at_creation.2);
                if a + m > 0 {
                    outlived.insert(format!("{}/outlived-auto{}-manual{}-trivial{}", ls.shape_at_creation, (a > 0) as u8, (m > 0) as u8, (t > 0) as u8));
                }
                out.max("snapshot_lifetime_ops", (opi - ls.created_at_op) as u64);
                out.add("snapshot_verifications", ls.verifications + 2);
                sess.db().release_snapshot(ls.snapshot);
            }
        } else if roll < 82 {
            if iters.len() < 3 {
                // an iterator at the latest state or at a live snapshot
                let (snap, frozen, what) = if !live.is_empty() && rng.chance(0.4) {
                    let ls = &live[rng.usize_below(live.len())];
                    (Some(ls.snapshot.clone()), ls.frozen.clone(), "at-snapshot")
                } else {
                    (None, sess.model.clone(), "at-latest")
                };
                match sess.db().new_iterator(ReadOptions { fill_cache: rng.chance(0.5), snapshot: snap }) {
                    Ok(it) => {
                        iters.push((CursorChecker::new(it, &frozen), what, pick_counts()));
                        out.add("iterators_created", 1);
                    }
                    Err(e) => out.violate("C03/new-iterator-error", json!({"ctx": ctx, "error": e.to_string()})),
                }
            }
        } else if roll < 90 {
            if !iters.is_empty() {
                let i = rng.usize_below(iters.len());
                let steps = rng.range(5, 60) as usize;
                let recent = sess.recent_ops(8);
                let (checker, what, _) = &mut iters[i];
                let c = json!({"ctx": ctx, "iterator": what});
                checker.run(out, &mut rng, steps, &c, "C03/live-iterator", &recent);
                out.add("live_iterator_steps", steps as u64);
            }
        } else if roll < 93 {
            if !iters.is_empty() {
                let i = rng.usize_below(iters.len());
                let (checker, what, picks0) = iters.remove(i);
                let now = pick_counts();
                if now.0 + now.1 > picks0.0 + picks0.1 && checker.steps > 0 {
                    outlived.insert(format!("iterator-{what}/outlived-table-compaction"));
                }
                drop(checker);
            }
        } else if roll < 97 {
            match rng.below(3) {
                0 => sess.compact(None, None),
                _ => {
                    let mut a = rng.pick(&pool).clone();
                    let mut b = rng.pick(&pool).clone();
                    if a > b {
                        std::mem::swap(&mut a, &mut b);
                    }
                    sess.compact(Some(&a), Some(&b));
                }
            }
            out.add("compact_range_calls", 1);
        } else {
            for _ in 0..110 {
                let k = rng.pick(&pool).clone();
                let _ = sess.get(&k);
            }
            out.add("seek_bursts", 1);
        }
        // re-verify every live snapshot whenever a new version has been installed
        let installs = d.note_count("version.install");
        if installs != last_installs && opi % 3 == 0 {
            last_installs = installs;
            for ls in live.iter_mut() {
                ls.verifications += 1;
                verify_view(out, &sess, Some(&ls.snapshot), &ls.frozen, &universe, "after-version-install", &ctx, "C03");
            }
        }
        if out.is_violated() {
            break;
        }
    }
    iters.clear();
    for ls in live.drain(..) {
        if !out.is_violated() && degenerate.is_none() {
            verify_view(out, &sess, Some(&ls.snapshot), &ls.frozen, &universe, "before-release", &ctx, "C03");
        }
        sess.db().release_snapshot(ls.snapshot);
    }
    if let Some(e) = degenerate {
        out.inconclusive(format!("degenerate: write refused: {e}"));
    }
    for (name, n) in d.note_counts() {
        out.add(&format!("note.{name}"), n);
    }
    sess.close();
    for o in outlived {
        out.nontrivial(format!("{}/{}", family.name(), o));
    }
    out.sample = Some(json!({"family": "snapshot-history", "config": cfg.describe(), "keys": family.name(), "pool": pool.len(), "ops": n_ops,
        "first_keys": pool.iter().take(5).map(|k| show(k)).collect::<Vec<_>>()}));
}

/// A reader (or an iterator) is held between capturing its version and reading table files while
/// the files it needs are compacted away and obsolete files are deleted.
fn case_forced(out: &mut CaseOut, seed: u64, idx: u64) {
    let mut rng = Rng::new(mix(&[seed, idx], "c03-f"));
    let d = director();
    d.reset(rng.next_u64());
    let cfg = Config { memtable: *rng.pick(&[512usize, 1024, 4096]), file: *rng.pick(&[512u64, 2048]), block: *rng.pick(&[64usize, 256]), reuse: true };
    let fs = SimFs::from_image(&dbutil::root_image());
    fs.set_strict_unlink(true);
    let mut sess = Session::new(fs.clone(), cfg);
    sess.fill_cache = false;
    if let Err(e) = sess.open() {
        out.violate("C03/open-failed", json!({"error": e}));
        return;
    }
    let family = if idx % 2 == 0 { KeyFamily::Ascii } else { KeyFamily::OneByte };
    let pool = gen::key_pool(&mut rng, family, 60);
    let mut counter = 0u64;
    for k in &pool {
        counter += 1;
        let v = gen::tagged_value(&mut rng, &format!("v{counter}:"), 40);
        if sess.put(k, &v).is_err() {
            out.inconclusive("degenerate: load refused");
            return;
        }
    }
    sess.compact(None, None);
    sess.wait_quiescent(Duration::from_secs(10));
    let variant = idx % 3;
    let point: &'static str = if variant == 1 { "get.before_imm" } else { "get.before_tables" };
    let use_snapshot = rng.chance(0.5);
    let victim = rng.pick(&pool).clone();
    let frozen = sess.model.clone();
    let universe: BTreeSet<Vec<u8>> = pool.iter().cloned().collect();
    let snapshot = if use_snapshot || variant == 2 { Some(sess.db().get_snapshot()) } else { None };
    let removed_before: u64 = fs.removed_counts().values().sum();
    let gc0 = d.note_count("gc.plan");
    let variant_name = ["get parked at get.before_tables", "get parked at get.before_imm", "iterator created, first used after compaction+GC"][variant as usize];
    let ctx = json!({"variant": variant_name,
        "config": cfg.describe(), "victim": show(&victim), "with_snapshot": snapshot.is_some()});

    let churn = |sess: &mut Session, rng: &mut Rng, counter: &mut u64| -> bool {
        // overwrite everything twice, delete a third, then compact the whole range
        for round in 0..2 {
            for (i, k) in pool.iter().enumerate() {
                *counter += 1;
                let r = if round == 1 && i % 3 == 0 {
                    sess.delete(k)
                } else {
                    let v = gen::tagged_value(rng, &format!("n{}:", *counter), 40);
                    sess.put(k, &v)
                };
                if r.is_err() {
                    return false;
                }
            }
        }
        sess.compact(None, None);
        sess.wait_quiescent(Duration::from_secs(10))
    };

    if variant == 2 {
        let it = match sess.db().new_iterator(ReadOptions { fill_cache: false, snapshot: if use_snapshot { snapshot.clone() } else { None } }) {
            Ok(it) => it,
            Err(e) => {
                out.violate("C03/new-iterator-error", json!({"ctx": ctx, "error": e.to_string()}));
                return;
            }
        };
        let mut checker = CursorChecker::new(it, &frozen);
        let ok = churn(&mut sess, &mut rng, &mut counter);
        let removed_after: u64 = fs.removed_counts().values().sum();
        let recent = sess.recent_ops(6);
        checker.run(out, &mut rng, 300, &ctx, "C03/forced/iterator", &recent);
        drop(checker);
        if !ok {
            out.inconclusive("forced: churn did not complete");
        } else if removed_after > removed_before && d.note_count("gc.plan") > gc0 {
            out.nontrivial(format!("forced/iterator/{}/snap{}", family.name(), use_snapshot as u8));
            out.add("windows_achieved", 1);
        }
        out.add("windows_attempted", 1);
    } else {
        let gate = d.arm(1, point, 1);
        let db = sess.db_arc();
        let snap_for_reader = snapshot.clone();
        let victim2 = victim.clone();
        let reader = std::thread::Builder::new().name("c03-reader".into()).spawn(move || {
            set_role(1);
            let _g = watch::enter("get(parked)");
            let r = db.get(ReadOptions { fill_cache: false, snapshot: snap_for_reader }, &victim2);
            drop(db);
            r
        }).unwrap();
        out.add("windows_attempted", 1);
        if !d.wait_arrived(gate, Duration::from_secs(10)) {
            d.release(gate);
            let _ = reader.join();
            out.inconclusive(format!("forced: reader did not reach {point}"));
        } else {
            let ok = churn(&mut sess, &mut rng, &mut counter);
            let removed_after: u64 = fs.removed_counts().values().sum();
            let achieved = ok && removed_after > removed_before && d.note_count("gc.plan") > gc0;
            d.release(gate);
            let result = reader.join();
            let expected = frozen.get(&victim);
            match result {
                Err(_) => out.violate("C03/forced/reader-panicked", json!({"ctx": ctx, "panics": watch::panics_json(&watch::peek_panics())})),
                Ok(r) => {
                    let got = match r {
                        Ok(v) => Ok(Some(v)),
                        Err(RainDBError::KeyNotFound) => Ok(None),
                        Err(e) => Err(e.to_string()),
                    };
                    match got {
                        Err(e) => out.violate(
                            format!("C03/forced/get-error-after-compaction-and-gc/{point}"),
                            json!({"ctx": ctx, "error": e, "fs_anomalies": fs.anomalies().iter().take(5).map(|a| format!("{} {}", a.what, a.path)).collect::<Vec<_>>()}),
                        ),
                        Ok(got) => {
                            if got.as_ref() != expected {
                                out.violate(
                                    format!("C03/forced/get-mismatch-after-compaction-and-gc/{point}"),
                                    json!({"ctx": ctx, "expected": show_opt(expected.map(|v| v.as_slice())), "got": show_opt(got.as_deref())}),
                                );
                            }
                        }
                    }
                }
            }
            if achieved {
                out.add("windows_achieved", 1);
                out.nontrivial(format!("forced/{point}/{}/snap{}", family.name(), snapshot.is_some() as u8));
            } else {
                out.inconclusive("forced: compaction + GC did not complete while the reader was parked");
            }
        }
    }
    // the snapshot (if any) must still show the frozen state after everything
    if let Some(s) = &snapshot {
        verify_view(out, &sess, Some(s), &frozen, &universe, "after-forced-window", &ctx, "C03");
    }
    if let Some(s) = snapshot {
        sess.db().release_snapshot(s);
    }
    out.add("files_removed_during_window", fs.removed_counts().values().sum::<u64>() - removed_before);
    sess.close();
    out.sample = Some(json!({"family": "forced-window", "ctx": ctx}));
}

/// Few keys, many versions per key, values sized so that a table file holds only a handful of
/// entries: compaction outputs are routinely cut between two versions of one user key, and short
/// lived snapshots keep old versions alive across one compaction and let the next one drop them.
/// Partial-range manual compactions then pick inputs next to such cuts. Every snapshot and the
/// latest state are re-read after every version install.
fn case_split(out: &mut CaseOut, tier: &str, seed: u64, idx: u64) {
    let mut rng = Rng::new(mix(&[seed, idx], "c03-s"));
    let d = director();
    d.reset(rng.next_u64());
    let family = [KeyFamily::OneByte, KeyFamily::Ascii, KeyFamily::FfRuns, KeyFamily::Binary][(idx % 4) as usize];
    let cfg = Config {
        memtable: *rng.pick(&[256usize, 256, 256, 512]),
        file: *rng.pick(&[512u64, 512, 1024]),
        block: *rng.pick(&[64usize, 256]),
        reuse: rng.chance(0.5),
    };
    let fs = SimFs::from_image(&dbutil::root_image());
    let mut sess = Session::new(fs, cfg);
    if let Err(e) = sess.open() {
        out.violate("C03/open-failed", json!({"error": e}));
        return;
    }
    let pool_size = if rng.chance(0.8) { rng.range(4, 12) } else { rng.range(12, 30) } as usize;
    let pool = gen::key_pool(&mut rng, family, pool_size);
    let value_len = *rng.pick(&[120usize, 200, 300, 300, 500]);
    let quiesce = rng.chance(0.5);
    let n_ops = if tier == "quick" { 600 } else { rng.range(500, 1500) as usize };
    let del_p = *rng.pick(&[0.2f64, 0.35, 0.5]);
    let snap_max = rng.range(2, 5) as usize;
    let mut live: Vec<LiveSnapshot> = vec![];
    let mut counter = 0u64;
    let mut last_installs = 0u64;
    let mut outlived: BTreeSet<String> = BTreeSet::new();
    let universe: BTreeSet<Vec<u8>> = pool.iter().cloned().collect();
    let ctx = json!({"family": "split-hunter", "config": cfg.describe(), "keys": family.name(), "pool": pool.len(), "value_len": value_len, "quiesce_after_each_op": quiesce});
    let mut degenerate = None;

    for opi in 0..n_ops {
        watch::tick();
        let roll = rng.below(100);
        if roll < 52 {
            let k = rng.pick(&pool).clone();
            let op: WriteOp = if rng.chance(del_p) {
                (k, None)
            } else {
                counter += 1;
                let len = 8 + rng.usize_below(value_len);
                (k, Some(gen::tagged_value(&mut rng, &format!("v{counter}:"), len)))
            };
            if let Err(e) = sess.write(vec![op]) {
                degenerate = Some(e);
                break;
            }
        } else if roll < 64 {
            if live.len() < snap_max {
                let snapshot = sess.db().get_snapshot();
                live.push(LiveSnapshot {
                    snapshot,
                    frozen: sess.model.clone(),
                    created_at_op: opi,
                    shape_at_creation: String::new(),
                    picks_at_creation: pick_counts(),
                    verifications: 0,
                });
                out.add("snapshots_taken", 1);
            }
        } else if roll < 78 {
            if !live.is_empty() {
                let i = rng.usize_below(live.len());
                let ls = live.remove(i);
                verify_view(out, &sess, Some(&ls.snapshot), &ls.frozen, &universe, "before-release", &ctx, "C03");
                let now = pick_counts();
                let (a, m) = (now.0 - ls.picks_at_creation.0, now.1 - ls.picks_at_creation.1);
                if a + m > 0 {
                    outlived.insert(format!("split/outlived-auto{}-manual{}", (a > 0) as u8, (m > 0) as u8));
                }
                out.max("snapshot_lifetime_ops", (opi - ls.created_at_op) as u64);
                out.add("snapshot_verifications", ls.verifications + 1);
                sess.db().release_snapshot(ls.snapshot);
            }
        } else if roll < 97 {
            let mut a = rng.pick(&pool).clone();
            let mut b = rng.pick(&pool).clone();
            if a > b {
                std::mem::swap(&mut a, &mut b);
            }
            match rng.below(4) {
                0 => sess.compact(None, Some(&b)),
                1 => sess.compact(Some(&a), None),
                _ => sess.compact(Some(&a), Some(&b)),
            }
            out.add("compact_range_calls", 1);
        } else {
            sess.compact(None, None);
            out.add("compact_range_calls", 1);
        }
        if quiesce {
            sess.wait_quiescent(Duration::from_secs(10));
        }
        let installs = d.note_count("version.install");
        if installs != last_installs {
            last_installs = installs;
            verify_view(out, &sess, None, &sess.model, &universe, "latest-after-version-install", &ctx, "C03");
            for ls in live.iter_mut() {
                ls.verifications += 1;
                verify_view(out, &sess, Some(&ls.snapshot), &ls.frozen, &universe, "after-version-install", &ctx, "C03");
            }
        }
        if out.is_violated() {
            break;
        }
    }
    for ls in live.drain(..) {
        if !out.is_violated() && degenerate.is_none() {
            verify_view(out, &sess, Some(&ls.snapshot), &ls.frozen, &universe, "before-release", &ctx, "C03");
        }
        sess.db().release_snapshot(ls.snapshot);
    }
    if let Some(e) = degenerate {
        out.inconclusive(format!("degenerate: write refused: {e}"));
    }
    // how often one user key straddled two files of one level (the layouts this family is after)
    let files = sess.db().verif_files();
    let mut straddles = 0u64;
    for a in &files {
        for b in &files {
            if a.level == b.level && a.level > 0 && a.number != b.number && a.largest.user_key == b.smallest.user_key {
                straddles += 1;
            }
        }
    }
    out.add("final_layout_same_key_straddles", straddles);
    for (name, n) in d.note_counts() {
        out.add(&format!("note.{name}"), n);
    }
    sess.close();
    for o in outlived {
        out.nontrivial(format!("{}/{}/q{}", family.name(), o, quiesce as u8));
    }
    out.sample = Some(json!({"family": "split-hunter", "ctx": ctx, "ops": n_ops}));
}

pub fn run_case(tier: &str, seed: u64, idx: u64) -> CaseOut {
    let mut out = CaseOut::new();
    let nh = n_history(tier);
    let nf = n_forced(tier);
    if idx < nh {
        case_history(&mut out, tier, seed, idx);
    } else if idx < nh + nf {
        case_forced(&mut out, seed, idx - nh);
    } else if idx < nh + nf + n_split(tier) {
        case_split(&mut out, tier, seed, idx - nh - nf);
    } else {
        case_concurrent(&mut out, tier, seed, idx - nh - nf - n_split(tier));
    }
    out
}

// ------------------------------------------------------------------------------------------------
// Snapshots and iterators taken WHILE writers are running.
//
// Each writer owns a disjoint set of keys and applies its operations one after the other, so the
// state of its keys after every prefix of its operations is known exactly. A view taken between
// stamps s0 (before the call that creates the snapshot / iterator) and s1 (after it returned) must,
// restricted to one writer's keys, equal the state after some prefix p of that writer's
// operations with  #(operations that returned before s0) <= p <= #(operations issued before s1).
// That is what "the state that was committed when the snapshot was taken" means when the moment
// is only known up to the duration of the call. The view is then read again and again (gets,
// forward and backward scans, the same iterator re-positioned) while the writers, flushes and
// compactions go on: every reading must equal the first one, and gets must agree with scans.

struct WriterOp {
    ops: Vec<WriteOp>,
    call: u64,
    ret: u64,
}

struct ViewRec {
    kind: &'static str,
    s0: u64,
    s1: u64,
    view: Map,
    rereads: u64,
    reader: usize,
}

fn scan_iter<I>(it: &mut I, backward: bool) -> Result<Map, String>
where
    I: raindb::RainDbIterator<Key = Vec<u8>>,
    I::Error: std::fmt::Display,
{
    let mut m = Map::new();
    let mut prev: Option<Vec<u8>> = None;
    if backward { it.seek_to_last() } else { it.seek_to_first() }.map_err(|e| e.to_string())?;
    while it.is_valid() {
        let (k, v) = it.current().unwrap();
        if let Some(p) = &prev {
            if (backward && k >= p) || (!backward && k <= p) {
                return Err(format!("keys out of order or repeated: {} after {}", show(k), show(p)));
            }
        }
        prev = Some(k.clone());
        m.insert(k.clone(), v.clone());
        if backward { it.prev() } else { it.next() };
    }
    if let Some(e) = it.status() {
        return Err(format!("iterator status: {e}"));
    }
    Ok(m)
}

fn case_concurrent(out: &mut CaseOut, tier: &str, seed: u64, idx: u64) {
    use crate::director::Delay;
    use raindb::{Batch, RainDbIterator, WriteOptions};
    use std::sync::atomic::{AtomicBool, AtomicU64, Ordering};
    use std::sync::Arc;

    let mut rng = Rng::new(mix(&[seed, idx], "c03-concurrent"));
    let d = director();
    d.reset(rng.next_u64());
    d.set_default_delay(Some(Delay { probability: 0.02, min_us: 0, max_us: 150 }));
    let hot = *rng.pick(&["write.after_wal", "write.after_mem", "write.before_wal", "flush.after_build", "manifest.after_append", "compact.step", "gc.before_delete", "get.before_tables"]);
    d.set_delay(hot, Delay { probability: 0.4, min_us: 100, max_us: 3000 });
    let cfg = Config {
        memtable: *rng.pick(&[256usize, 512, 1024, 4096]),
        file: *rng.pick(&[512u64, 2048, 1 << 20]),
        block: *rng.pick(&[32usize, 256, 4096]),
        reuse: true,
    };
    let fs = SimFs::from_image(&dbutil::root_image());
    fs.set_strict_unlink(true);
    let mut sess = Session::new(fs, cfg);
    sess.fill_cache = false;
    if let Err(e) = sess.open() {
        out.violate("C03/open-failed", json!({"error": e}));
        return;
    }
    let db = sess.db_arc();
    let writers = rng.range(2, 4) as usize;
    let readers = rng.range(1, 3) as usize;
    let per_writer = if tier == "quick" { rng.range(60, 140) } else { rng.range(100, 400) } as usize;
    let keys_per_writer = rng.range(3, 12);
    let clock = Arc::new(AtomicU64::new(1));
    let stop = Arc::new(AtomicBool::new(false));
    let ctx = json!({"family": "concurrent-snapshots", "config": cfg.describe(), "writers": writers, "readers": readers, "ops_per_writer": per_writer,
        "keys_per_writer": keys_per_writer, "hot_point": hot});
    let mut whandles = vec![];
    for t in 0..writers {
        let (db, clock) = (Arc::clone(&db), Arc::clone(&clock));
        let mut trng = Rng::new(mix(&[seed, idx, t as u64], "c03-concurrent-writer"));
        whandles.push(std::thread::Builder::new().name(format!("c03-writer-{t}")).spawn(move || {
            set_role(t as u32 + 1);
            let mut log: Vec<WriterOp> = vec![];
            let mut counter = 0u64;
            for _ in 0..per_writer {
                watch::tick();
                let n = if trng.chance(0.6) { 1 } else { trng.range(2, 6) as usize };
                let mut ops: Vec<WriteOp> = vec![];
                for _ in 0..n {
                    let k = format!("w{t}-{:02}", trng.below(keys_per_writer)).into_bytes();
                    if trng.chance(0.25) {
                        ops.push((k, None));
                    } else {
                        counter += 1;
                        let len = trng.range(8, 48) as usize;
                        ops.push((k, Some(gen::tagged_value(&mut trng, &format!("w{t}c{counter}:"), len))));
                    }
                }
                let mut batch = Batch::new();
                for (k, v) in &ops {
                    match v {
                        Some(v) => batch.add_put(k.clone(), v.clone()),
                        None => batch.add_delete(k.clone()),
                    };
                }
                let call = clock.fetch_add(1, Ordering::SeqCst);
                let r = {
                    let _g = watch::enter("write");
                    db.apply(WriteOptions::default(), batch)
                };
                let ret = clock.fetch_add(1, Ordering::SeqCst);
                if r.is_err() {
                    return (log, Some(format!("{:?}", r.err().map(|e| e.to_string()))));
                }
                log.push(WriterOp { ops, call, ret });
                if trng.chance(0.02) {
                    let _g = watch::enter("compact_range");
                    db.compact_range(None..None);
                }
            }
            (log, None)
        }).unwrap());
    }
    let mut rhandles = vec![];
    for r in 0..readers {
        let (db, clock, stop) = (Arc::clone(&db), Arc::clone(&clock), Arc::clone(&stop));
        let mut rrng = Rng::new(mix(&[seed, idx, r as u64], "c03-concurrent-reader"));
        let all_keys: Vec<Vec<u8>> = (0..writers).flat_map(|t| (0..keys_per_writer).map(move |i| format!("w{t}-{i:02}").into_bytes())).collect();
        rhandles.push(std::thread::Builder::new().name(format!("c03-reader-{r}")).spawn(move || {
            set_role(20 + r as u32);
            let mut views: Vec<ViewRec> = vec![];
            let mut problems: Vec<(String, serde_json::Value)> = vec![];
            while !stop.load(Ordering::SeqCst) && views.len() < 400 && problems.len() < 3 {
                watch::tick();
                let use_iterator_only = rrng.chance(0.3);
                if use_iterator_only {
                    // an iterator without an explicit snapshot: the state at its creation
                    let s0 = clock.fetch_add(1, Ordering::SeqCst);
                    let it = { let _g = watch::enter("new_iterator"); db.new_iterator(ReadOptions { fill_cache: false, snapshot: None }) };
                    let s1 = clock.fetch_add(1, Ordering::SeqCst);
                    let mut it = match it { Ok(it) => it, Err(e) => { problems.push(("new-iterator-failed".into(), json!({"error": e.to_string()}))); break; } };
                    let first = { let _g = watch::enter("scan"); scan_iter(&mut it, false) };
                    let view = match first { Ok(m) => m, Err(e) => { problems.push(("iterator-scan-failed".into(), json!({"error": e}))); break; } };
                    let mut rereads = 0;
                    for round in 0..rrng.range(1, 5) {
                        std::thread::sleep(Duration::from_micros(rrng.range(50, 3000)));
                        let again = { let _g = watch::enter("scan"); scan_iter(&mut it, round % 2 == 0) };
                        match again {
                            Ok(m) if m == view => rereads += 1,
                            Ok(m) => {
                                let diff: Vec<String> = all_keys.iter().filter(|k| m.get(*k) != view.get(*k)).take(5).map(|k| format!("{}: first {} later {}", show(k), show_opt(view.get(k).map(|v| &v[..])), show_opt(m.get(k).map(|v| &v[..])))).collect();
                                problems.push(("iterator-view-changed-over-time".into(), json!({"round": round, "backward": round % 2 == 0, "differences": diff})));
                                break;
                            }
                            Err(e) => { problems.push(("iterator-scan-failed".into(), json!({"error": e}))); break; }
                        }
                    }
                    drop(it);
                    views.push(ViewRec { kind: "iterator", s0, s1, view, rereads, reader: r });
                    continue;
                }
                let s0 = clock.fetch_add(1, Ordering::SeqCst);
                let snap = { let _g = watch::enter("get_snapshot"); db.get_snapshot() };
                let s1 = clock.fetch_add(1, Ordering::SeqCst);
                let ro = || ReadOptions { fill_cache: false, snapshot: Some(snap.clone()) };
                let read_gets = |keys: &[Vec<u8>]| -> Result<Map, String> {
                    let mut m = Map::new();
                    for k in keys {
                        let _g = watch::enter("get");
                        match db.get(ro(), k) {
                            Ok(v) => { m.insert(k.clone(), v); }
                            Err(RainDBError::KeyNotFound) => {}
                            Err(e) => return Err(e.to_string()),
                        }
                    }
                    Ok(m)
                };
                let view = match read_gets(&all_keys) { Ok(m) => m, Err(e) => { problems.push(("snapshot-get-failed".into(), json!({"error": e}))); db.release_snapshot(snap); break; } };
                let mut rereads = 0;
                let rounds = rrng.range(1, 6);
                for round in 0..rounds {
                    let how = rrng.below(3);
                    let again = if how == 0 { read_gets(&all_keys) } else {
                        let _g = watch::enter("scan");
                        match db.new_iterator(ro()) { Ok(mut it) => scan_iter(&mut it, how == 2), Err(e) => Err(e.to_string()) }
                    };
                    match again {
                        Ok(m) if m == view => rereads += 1,
                        Ok(m) => {
                            let diff: Vec<String> = all_keys.iter().filter(|k| m.get(*k) != view.get(*k)).take(5).map(|k| format!("{}: first get {} later {}", show(k), show_opt(view.get(k).map(|v| &v[..])), show_opt(m.get(k).map(|v| &v[..])))).collect();
                            let foreign: Vec<String> = m.keys().filter(|k| !all_keys.contains(k)).take(3).map(|k| show(k)).collect();
                            problems.push((if how == 0 { "snapshot-gets-changed-over-time" } else { "snapshot-scan-disagrees-with-gets" }.into(),
                                json!({"round": round, "how": (["gets", "forward scan", "backward scan"][how as usize]), "differences": diff, "unknown_keys": foreign})));
                            break;
                        }
                        Err(e) => { problems.push(("snapshot-read-failed".into(), json!({"error": e, "how": how}))); break; }
                    }
                    std::thread::sleep(Duration::from_micros(rrng.range(50, 4000)));
                }
                { let _g = watch::enter("release_snapshot"); db.release_snapshot(snap); }
                views.push(ViewRec { kind: "snapshot", s0, s1, view, rereads, reader: r });
            }
            (views, problems)
        }).unwrap());
    }
    // every second case: a thread that keeps sinking random key ranges one level deeper (the
    // crate's level-by-level manual compaction), so that the views outlive compactions at every depth
    let sinker = if idx % 2 == 0 {
        let (db, stop) = (Arc::clone(&db), Arc::clone(&stop));
        let mut srng = Rng::new(mix(&[seed, idx], "c03-concurrent-sinker"));
        Some(std::thread::Builder::new().name("c03-sinker".into()).spawn(move || {
            set_role(40);
            let mut steps = 0u64;
            while !stop.load(Ordering::SeqCst) && steps < 400 {
                watch::tick();
                let files = db.verif_files();
                let levels: Vec<usize> = (0..6).filter(|l| files.iter().any(|f| f.level == *l)).collect();
                if levels.is_empty() {
                    std::thread::sleep(Duration::from_millis(2));
                    continue;
                }
                let level = *srng.pick(&levels);
                let t = srng.below(writers as u64);
                let a = format!("w{t}-{:02}", srng.below(keys_per_writer)).into_bytes();
                let range = match srng.below(3) {
                    0 => (None, None),
                    1 => (Some(a), None),
                    _ => (None, Some(a)),
                };
                let _g = watch::enter("force_level_compaction");
                db.verif_force_level_compaction(level, range.0.as_deref()..range.1.as_deref());
                steps += 1;
                std::thread::sleep(Duration::from_micros(srng.range(100, 2000)));
            }
            steps
        }).unwrap())
    } else {
        None
    };
    let mut logs: Vec<Vec<WriterOp>> = vec![];
    let mut refused = None;
    for h in whandles {
        match h.join() {
            Ok((log, err)) => {
                if err.is_some() { refused = err; }
                logs.push(log);
            }
            Err(_) => { logs.push(vec![]); refused = Some("writer thread panicked".into()); }
        }
    }
    stop.store(true, Ordering::SeqCst);
    if let Some(h) = sinker {
        out.add("level_by_level_compactions_beside_live_views", h.join().unwrap_or(0));
    }
    let mut views: Vec<ViewRec> = vec![];
    for h in rhandles {
        if let Ok((v, problems)) = h.join() {
            for (class, detail) in problems {
                out.violate(format!("C03/concurrent/{class}"), json!({"ctx": ctx, "detail": detail}));
            }
            views.extend(v);
        } else {
            out.violate("C03/concurrent/reader-thread-panicked", json!({"ctx": ctx}));
        }
    }
    d.clear_delays();
    drop(db);
    let installs = d.note_count("version.install");
    let picks = pick_counts();
    if let Some(e) = refused {
        out.inconclusive(format!("degenerate: a write was refused without any fault: {e}"));
    } else {
        // judge every view against the writers' prefixes
        let mut judged = 0u64;
        let mut pinned_tight = 0u64;
        for v in &views {
            for (t, log) in logs.iter().enumerate() {
                let prefix = format!("w{t}-").into_bytes();
                let mine: Map = v.view.iter().filter(|(k, _)| k.starts_with(&prefix)).map(|(k, v)| (k.clone(), v.clone())).collect();
                let lo = log.iter().filter(|o| o.ret < v.s0).count();
                let hi = log.iter().filter(|o| o.call < v.s1).count();
                let mut state = Map::new();
                for o in &log[..lo] {
                    crate::session::apply_to_map(&mut state, &o.ops);
                }
                let mut found = state == mine;
                let mut p = lo;
                while !found && p < hi {
                    crate::session::apply_to_map(&mut state, &log[p].ops);
                    p += 1;
                    found = state == mine;
                }
                judged += 1;
                if hi - lo <= 1 {
                    pinned_tight += 1;
                }
                if !found {
                    let mut at_lo = Map::new();
                    for o in &log[..lo] {
                        crate::session::apply_to_map(&mut at_lo, &o.ops);
                    }
                    let keys: BTreeSet<&Vec<u8>> = at_lo.keys().chain(mine.keys()).collect();
                    let diff: Vec<String> = keys.iter().filter(|k| at_lo.get(**k) != mine.get(**k)).take(6)
                        .map(|k| format!("{}: after {} ops {} view {}", show(k), lo, show_opt(at_lo.get(*k).map(|v| &v[..])), show_opt(mine.get(*k).map(|v| &v[..])))).collect();
                    out.violate(format!("C03/concurrent/{}-is-no-state-the-writer-ever-had", v.kind),
                        json!({"ctx": ctx, "writer": t, "reader": v.reader, "prefix_range": [lo, hi], "writer_ops": log.len(), "differences_from_earliest_legal_state": diff}));
                    break;
                }
            }
            if out.violations.len() >= 3 {
                break;
            }
        }
        out.add("views_taken_while_writers_ran", views.len() as u64);
        out.add("views.iterator", views.iter().filter(|v| v.kind == "iterator").count() as u64);
        out.add("view_rereads_equal", views.iter().map(|v| v.rereads).sum());
        out.add("writer_prefix_judgements", judged);
        out.add("writer_prefix_judgements_pinned_to_at_most_two_states", pinned_tight);
        out.add("version_installs_during_concurrent_cases", installs);
        let outlived = views.len() as u64 > 0 && installs >= 2;
        if outlived && judged > 0 {
            out.nontrivial(format!("concurrent/{}/w{writers}r{readers}/{}/picks{}-{}-{}", cfg.class(), hot, picks.0.min(3), picks.1.min(2), picks.2.min(2)));
        }
    }
    if watch::bg_panics().is_empty() {
        sess.close();
    } else {
        std::mem::forget(sess);
    }
    out.sample = Some(json!({"family": "concurrent-snapshots", "ctx": ctx, "views": views.len()}));
}
