//! C17 — one owner at a time: a database cannot be opened or destroyed while open.
//!
//! Runs on a real disk-backed file system (raindb's TmpFileSystem / OsFileSystem over a scratch
//! directory that the case creates and removes).

use std::collections::BTreeMap;
use std::path::PathBuf;
use std::sync::atomic::{AtomicBool, AtomicU64, Ordering};
use std::sync::{Arc, Barrier};
use std::time::Duration;

use raindb::fs::{FileSystem, OsFileSystem, TmpFileSystem};
use raindb::{DbOptions, RainDBError, ReadOptions, WriteOptions, DB};
use serde_json::json;

use crate::director::{director, set_role};
use crate::report::{show, CaseOut};
use crate::rng::{mix, Rng};
use crate::watch;

pub fn plan(tier: &str) -> u64 {
    n_rounds_cases(tier) + n_destroy_cases(tier) + n_spin_cases(tier) + n_nested_cases(tier) + n_parked_close_cases(tier)
}

fn n_rounds_cases(tier: &str) -> u64 {
    if tier == "quick" {
        40
    } else {
        600
    }
}

fn n_destroy_cases(tier: &str) -> u64 {
    if tier == "quick" {
        2 * DESTROY_POSITIONS
    } else {
        12 * DESTROY_POSITIONS
    }
}

fn n_nested_cases(tier: &str) -> u64 {
    if tier == "quick" {
        8
    } else {
        48
    }
}

/// Close arrives while a memtable flush runs *inside* a table compaction. That flush, like every
/// finished piece of background work, wakes everybody who waits for background work - also a close
/// that must go on waiting, because the compaction round it belongs to is not over. The lock may
/// only be released once no background round is scheduled any more (raindb's hook at the release
/// reports that flag), and the data must be complete after a reopen.
fn case_close_during_nested_flush(out: &mut CaseOut, seed: u64, idx: u64) {
    use crate::director::COMPACTOR;
    let mut rng = Rng::new(mix(&[seed, idx], "c17-nested"));
    let d = director();
    d.reset(rng.next_u64());
    let scratch = Scratch::new(300_000 + idx);
    let use_tmpfs = idx % 2 == 0;
    let tmpfs_holder;
    let (fs, db_path): (Arc<dyn FileSystem>, String) = if use_tmpfs {
        tmpfs_holder = Arc::new(TmpFileSystem::new(Some(&scratch.dir)));
        (tmpfs_holder.clone() as Arc<dyn FileSystem>, "db".to_string())
    } else {
        (Arc::new(OsFileSystem::new()), scratch.dir.join("db").to_string_lossy().to_string())
    };
    let memtable = 1024usize;
    let ctx = json!({"family": "close-during-flush-nested-in-a-table-compaction", "filesystem": if use_tmpfs { "TmpFileSystem" } else { "OsFileSystem" }});
    let db = match DB::open(options(&fs, &db_path, memtable)) {
        Ok(db) => db,
        Err(e) => {
            out.violate("C17/owner-open-failed-although-nobody-holds-the-database", json!({"ctx": ctx, "error": e.to_string()}));
            return;
        }
    };
    let mut model: BTreeMap<Vec<u8>, Vec<u8>> = BTreeMap::new();
    let mut counter = 0u64;
    let mut put = |db: &DB, model: &mut BTreeMap<Vec<u8>, Vec<u8>>, counter: &mut u64| -> bool {
        *counter += 1;
        let k = format!("k{:03}", (*counter * 17) % 40).into_bytes(); // every memtable spans the whole key range
        let v = format!("v{}-{}", *counter, "z".repeat(40)).into_bytes();
        let _g = watch::enter("put(owner)");
        if db.put(WriteOptions::default(), k.clone(), v.clone()).is_ok() {
            model.insert(k, v);
            true
        } else {
            false
        }
    };
    // Overlapping level-0 files until the first table compaction starts and parks at its first
    // merge step. This thread only writes while no immutable memtable is pending: such a put can
    // rotate the memtable but never has to wait for a flush that the parked thread cannot do.
    let gate_a = d.arm(COMPACTOR, "compact.step", 1);
    let deadline = std::time::Instant::now() + Duration::from_secs(15);
    while !d.is_arrived(gate_a) && std::time::Instant::now() < deadline {
        watch::tick();
        if db.verif_probe().has_immutable_memtable {
            std::thread::sleep(Duration::from_micros(200));
            continue;
        }
        if !put(&db, &mut model, &mut counter) {
            break;
        }
    }
    let in_merge = d.wait_arrived(gate_a, Duration::from_secs(2));
    // one memtable rotation while the compaction is parked: an immutable memtable is pending
    let mut rotated = false;
    if in_merge {
        for _ in 0..400 {
            if db.verif_probe().has_immutable_memtable {
                rotated = true;
                break;
            }
            if !put(&db, &mut model, &mut counter) {
                break;
            }
        }
    }
    let shape_at_arming: Vec<usize> = (0..7).map(|l| db.verif_files().iter().filter(|f| f.level == l).count()).collect();
    let puts_in_phase_0 = counter;
    let gate_b = d.arm(COMPACTOR, "flush.after_build", 1);
    d.release(gate_a);
    let in_nested_flush = rotated && d.wait_arrived(gate_b, Duration::from_secs(10));
    let notes0 = d.notes_from(0).len();
    let closer = std::thread::Builder::new().name("c17-closer".into()).spawn(move || {
        set_role(1);
        let _g = watch::enter("close(owner)");
        drop(db);
    }).unwrap();
    // let the close reach its wait for background work, then let the nested flush finish
    std::thread::sleep(Duration::from_millis(rng.range(10, 40)));
    d.release(gate_b);
    let _ = closer.join();
    out.add("closes_during_nested_flush", in_nested_flush as u64);
    let released_while_scheduled = d.notes_from(notes0).iter().any(|(name, args)| *name == "close.lock_released" && args.first() == Some(&1));
    if released_while_scheduled {
        out.violate(
            "C17/lock-released-while-a-background-round-was-still-scheduled",
            json!({"ctx": ctx, "compaction_parked_in_merge": in_merge, "memtable_rotated_meanwhile": rotated, "nested_flush_parked_after_building_its_table": in_nested_flush}),
        );
    }
    match DB::open(options(&fs, &db_path, memtable)) {
        Ok(db) => {
            verify_contents(out, &db, &model, "after-close-during-nested-flush", &ctx);
            drop(db);
        }
        Err(e) => out.violate("C17/owner-open-failed-although-nobody-holds-the-database", json!({"ctx": ctx, "error": e.to_string(), "files": listing(&scratch.dir)})),
    }
    if in_nested_flush {
        out.nontrivial(format!("close-during-nested-flush/{}", if use_tmpfs { "tmpfs" } else { "osfs" }));
    } else {
        out.add("nested_flush_window_not_reached", 1);
    }
    let _ = DB::destroy_database(options(&fs, &db_path, memtable));
    out.sample = Some(json!({"family": "close-during-nested-flush", "ctx": ctx, "compaction_parked_in_merge": in_merge, "memtable_rotated_meanwhile": rotated, "nested_flush_reached": in_nested_flush, "files_per_level_at_arming": shape_at_arming, "puts_before_arming": puts_in_phase_0, "picks": d.note_count("compaction.pick"), "rotations": d.note_count("mem.rotate")}));
}

fn n_parked_close_cases(tier: &str) -> u64 {
    if tier == "quick" {
        28
    } else {
        128
    }
}

/// Close arrives while the background thread is parked in the middle of a piece of work that
/// touches the directory - building or installing a flush, merging, and in particular *deleting*
/// the files a finished compaction made obsolete. As long as that thread has work in flight the old
/// handle is not closed (its `drop` has not returned, its thread will still create or unlink
/// files), so every open attempted meanwhile must be refused; once the work is released and the
/// close has returned, an open must succeed and find everything that was acknowledged. The oracle
/// looks at outcomes only (does the second open succeed?), not at what raindb's hook reports.
fn case_close_while_worker_parked(out: &mut CaseOut, seed: u64, idx: u64) {
    use crate::director::COMPACTOR;
    let mut rng = Rng::new(mix(&[seed, idx], "c17-parked-close"));
    let d = director();
    d.reset(rng.next_u64());
    let scratch = Scratch::new(400_000 + idx);
    let use_tmpfs = idx % 2 == 0;
    let tmpfs_holder;
    let (fs, db_path): (Arc<dyn FileSystem>, String) = if use_tmpfs {
        tmpfs_holder = Arc::new(TmpFileSystem::new(Some(&scratch.dir)));
        (tmpfs_holder.clone() as Arc<dyn FileSystem>, "db".to_string())
    } else {
        (Arc::new(OsFileSystem::new()), scratch.dir.join("db").to_string_lossy().to_string())
    };
    // collections dominate: which of them follows a flush and which a table compaction depends on the run
    const POINTS: [(&str, u64); 14] = [("gc.delete_one", 2), ("gc.before_delete", 3), ("manifest.before_append", 4), ("gc.delete_one", 9), ("flush.after_build", 3),
        ("compact.step", 5), ("manifest.after_append", 5), ("gc.before_delete", 6), ("gc.delete_one", 5), ("gc.before_delete", 9), ("gc.delete_one", 14),
        ("gc.before_delete", 12), ("gc.delete_one", 20), ("gc.before_delete", 4)];
    let (point, nth) = POINTS[(idx / 2 % POINTS.len() as u64) as usize];
    let memtable = 1024usize;
    let ctx = json!({"family": "close-while-the-background-thread-is-parked-mid-work", "filesystem": if use_tmpfs { "TmpFileSystem" } else { "OsFileSystem" }, "parked_at": point, "nth_arrival": nth});
    let db = match DB::open(options(&fs, &db_path, memtable)) {
        Ok(db) => db,
        Err(e) => {
            out.violate("C17/owner-open-failed-although-nobody-holds-the-database", json!({"ctx": ctx, "error": e.to_string()}));
            return;
        }
    };
    let mut model: BTreeMap<Vec<u8>, Vec<u8>> = BTreeMap::new();
    let mut counter = 0u64;
    let gate = d.arm(COMPACTOR, point, nth);
    let deadline = std::time::Instant::now() + Duration::from_secs(15);
    while !d.is_arrived(gate) && std::time::Instant::now() < deadline {
        watch::tick();
        // only write while no immutable memtable is pending: such a put never waits for the parked thread
        if db.verif_probe().has_immutable_memtable {
            std::thread::sleep(Duration::from_micros(200));
            continue;
        }
        counter += 1;
        let k = format!("k{:03}", (counter * 17) % 40).into_bytes();
        let v = format!("v{}-{}", counter, "z".repeat(40)).into_bytes();
        let _g = watch::enter("put(owner)");
        if db.put(WriteOptions::default(), k.clone(), v.clone()).is_err() {
            break;
        }
        model.insert(k, v);
    }
    let parked = d.wait_arrived(gate, Duration::from_secs(2));
    let closer = std::thread::Builder::new().name("c17-closer".into()).spawn(move || {
        set_role(1);
        let _g = watch::enter("close(owner)");
        drop(db);
    }).unwrap();
    let mut intruded = 0u64;
    let mut attempts = 0u64;
    if parked {
        std::thread::sleep(Duration::from_millis(rng.range(15, 40)));
        for _ in 0..3 {
            attempts += 1;
            let _g = watch::enter("open(intruder)");
            match DB::open(options(&fs, &db_path, memtable)) {
                Err(_) => {}
                Ok(second) => {
                    intruded += 1;
                    out.violate(
                        format!("C17/second-open-succeeded-while-the-old-handle-still-had-background-work-in-flight/{point}"),
                        json!({"ctx": ctx, "closer_finished": closer.is_finished(), "files": listing(&scratch.dir)}),
                    );
                    // let go of it before the old thread continues
                    let _g2 = watch::enter("close(intruder)");
                    drop(second);
                    break;
                }
            }
            std::thread::sleep(Duration::from_millis(5));
        }
    }
    d.release(gate);
    let _ = closer.join();
    out.add("closes_while_worker_parked", parked as u64);
    out.add("opens_attempted_while_worker_parked", attempts);
    out.add(&format!("parked_close.{point}"), parked as u64);
    match DB::open(options(&fs, &db_path, memtable)) {
        Ok(db) => {
            if intruded == 0 {
                verify_contents(out, &db, &model, "after-close-while-worker-parked", &ctx);
            }
            drop(db);
        }
        Err(e) => out.violate("C17/owner-open-failed-although-nobody-holds-the-database", json!({"ctx": ctx, "error": e.to_string(), "files": listing(&scratch.dir)})),
    }
    if parked {
        out.nontrivial(format!("close-while-worker-parked/{point}/{}", if use_tmpfs { "tmpfs" } else { "osfs" }));
    } else {
        out.add("parked_close_window_not_reached", 1);
    }
    let _ = DB::destroy_database(options(&fs, &db_path, memtable));
    out.sample = Some(json!({"family": "close-while-worker-parked", "ctx": ctx, "worker_parked": parked, "opens_refused_meanwhile": attempts - intruded, "puts_before": counter}));
}

fn n_spin_cases(tier: &str) -> u64 {
    if tier == "quick" {
        16
    } else {
        96
    }
}

/// The window of destroy-vs-open that no gate can hold open lies *inside* one file system call:
/// an open that has resolved the LOCK path just before destroy_database unlinks and unlocks it,
/// and takes its lock just after. Opener threads spin on DB::open while the destroyer, stopped
/// right before it removes LOCK, is let go. Whoever obtains an instance must be the only owner.
fn case_destroy_spin(out: &mut CaseOut, seed: u64, idx: u64) {
    let mut rng = Rng::new(mix(&[seed, idx], "c17-spin"));
    director().reset(rng.next_u64());
    let use_tmpfs = idx % 2 == 0;
    let fsname = if use_tmpfs { "tmpfs" } else { "osfs" };
    let memtable = 4096usize;
    let trials = 40;
    let mut instances_won = 0u64;
    let mut ctx = json!({"family": "destroy-vs-spinning-opens", "filesystem": fsname});
    for trial in 0..trials {
        watch::tick();
        let scratch = Scratch::new(200_000 + idx * 1000 + trial);
        let tmpfs_holder;
        let (inner, db_path): (Arc<dyn FileSystem>, String) = if use_tmpfs {
            tmpfs_holder = Arc::new(TmpFileSystem::new(Some(&scratch.dir)));
            (tmpfs_holder.clone() as Arc<dyn FileSystem>, "db".to_string())
        } else {
            (Arc::new(OsFileSystem::new()), scratch.dir.join("db").to_string_lossy().to_string())
        };
        let gate_fs = Arc::new(GateFs {
            inner: Arc::clone(&inner),
            stop_desc: Some("remove_file:LOCK"),
            stop_at: u64::MAX,
            calls: AtomicU64::new(0),
            state: parking_lot::Mutex::new((false, false, String::new())),
            cv: parking_lot::Condvar::new(),
            trace: parking_lot::Mutex::new(vec![]),
            all_calls: parking_lot::Mutex::new(vec![]),
        });
        let fs: Arc<dyn FileSystem> = gate_fs.clone();
        match DB::open(options(&fs, &db_path, memtable)) {
            Ok(db) => {
                let _ = db.put(WriteOptions::default(), b"k".to_vec(), b"v".to_vec());
                drop(db);
            }
            Err(e) => {
                out.violate("C17/owner-open-failed-although-nobody-holds-the-database", json!({"ctx": ctx, "error": e.to_string()}));
                return;
            }
        }
        let destroyer = {
            let (fs, db_path) = (Arc::clone(&fs), db_path.clone());
            std::thread::Builder::new().name("c17-destroyer".into()).spawn(move || {
                set_role(DESTROYER);
                let _g = watch::enter("destroy_database(gated)");
                DB::destroy_database(options(&fs, &db_path, memtable)).is_ok()
            }).unwrap()
        };
        if gate_fs.wait_arrived(Duration::from_secs(10)).is_none() {
            gate_fs.release();
            let _ = destroyer.join();
            out.inconclusive("destroy-spin: destroy_database never reached the removal of LOCK");
            return;
        }
        let stop = Arc::new(AtomicBool::new(false));
        let won: Arc<parking_lot::Mutex<Vec<DB>>> = Arc::new(parking_lot::Mutex::new(vec![]));
        let mut openers = vec![];
        for o in 0..3u32 {
            let (fs, db_path, stop, won) = (Arc::clone(&fs), db_path.clone(), Arc::clone(&stop), Arc::clone(&won));
            openers.push(std::thread::Builder::new().name(format!("c17-spinner-{o}")).spawn(move || {
                set_role(40 + o);
                let _g = watch::enter("open(spinning)");
                while !stop.load(Ordering::Relaxed) {
                    if let Ok(db) = DB::open(options(&fs, &db_path, memtable)) {
                        won.lock().push(db);
                        break;
                    }
                }
            }).unwrap());
        }
        std::thread::sleep(Duration::from_micros(rng.range(200, 3000)));
        gate_fs.release();
        let destroyed = destroyer.join().unwrap_or(false);
        std::thread::sleep(Duration::from_millis(5));
        stop.store(true, Ordering::Relaxed);
        for o in openers {
            let _ = o.join();
        }
        let mut held = std::mem::take(&mut *won.lock());
        ctx["trial"] = json!(trial);
        ctx["destroy_returned_ok"] = json!(destroyed);
        ctx["spinning_opens_that_succeeded"] = json!(held.len());
        out.add("destroy_spin_trials", 1);
        if held.len() > 1 {
            let calls = gate_fs.all_calls.lock().clone();
            // the interesting ones: everything but the refused attempts (create_dir_all ok, lock_file ERR)
            let interesting: Vec<String> = calls.iter().enumerate().filter(|(_, c)| !(c.ends_with("lock_file LOCK ERR") || (c.contains("create_dir_all") && c.ends_with("ok") && c.contains("spinner")))).map(|(i, c)| format!("{i}: {c}")).collect();
            let tail: Vec<String> = interesting[interesting.len().saturating_sub(120)..].to_vec();
            out.violate("C17/several-racing-opens-succeeded/while-destroy-ran", json!({"ctx": ctx, "files": listing(&scratch.dir), "last_file_system_calls": tail}));
        }
        if let Some(db) = held.first() {
            instances_won += 1;
            let _g = watch::enter("open(second-while-held)");
            if let Ok(second) = DB::open(options(&fs, &db_path, memtable)) {
                out.violate("C17/second-open-succeeded-while-open/open-raced-the-end-of-destroy", json!({"ctx": ctx, "files": listing(&scratch.dir)}));
                drop(second);
            }
            if db.put(WriteOptions::default(), b"after".to_vec(), b"race".to_vec()).is_err() {
                out.violate("C17/owner-write-failed-after-destroy-ran", json!({"ctx": ctx}));
            }
        }
        held.clear();
        let _ = DB::destroy_database(options(&inner, &db_path, memtable));
        if out.is_violated() {
            break;
        }
    }
    out.add("instances_obtained_while_destroy_finished", instances_won);
    if instances_won > 0 {
        out.nontrivial(format!("destroy-spin/{fsname}/instances-won"));
    }
    out.nontrivial(format!("destroy-spin/{fsname}/trials"));
    out.sample = Some(ctx);
}

/// destroy_database makes about ten file system calls on a small closed database; the gate is put
/// before each of them in turn
const DESTROY_POSITIONS: u64 = 14;
const DESTROYER: u32 = 77;

/// Passes every call through to a disk-backed file system; the thread with role DESTROYER is
/// stopped before its `stop_at`-th call until released.
struct GateFs {
    inner: Arc<dyn FileSystem>,
    /// stop before the call with this description instead of before the `stop_at`-th call
    stop_desc: Option<&'static str>,
    stop_at: u64,
    calls: AtomicU64,
    state: parking_lot::Mutex<(bool, bool, String)>,
    cv: parking_lot::Condvar,
    trace: parking_lot::Mutex<Vec<String>>,
    /// every mutating call of every thread with its outcome, in completion order (diagnosis)
    all_calls: parking_lot::Mutex<Vec<String>>,
}

impl GateFs {
    fn done(&self, what: &str, path: &std::path::Path, ok: bool) {
        let t = std::thread::current();
        let mut all = self.all_calls.lock();
        if all.len() < 200_000 {
            all.push(format!("{} {what} {} {}", t.name().unwrap_or("?"), path.file_name().map(|n| n.to_string_lossy().to_string()).unwrap_or_default(), if ok { "ok" } else { "ERR" }));
        }
    }
    fn gate(&self, what: &str, path: &std::path::Path) {
        if crate::director::role() != DESTROYER {
            return;
        }
        let name = path.file_name().map(|n| n.to_string_lossy().to_string()).unwrap_or_default();
        let class = if name == "LOCK" || name == "CURRENT" { name.clone() } else if name.starts_with("MANIFEST") { "MANIFEST".into() } else if name == "wal" || name == "data" { name.clone() } else { "root".into() };
        let desc = format!("{what}:{class}");
        self.trace.lock().push(desc.clone());
        let n = self.calls.fetch_add(1, Ordering::SeqCst);
        let here = match self.stop_desc {
            Some(d) => d == desc && !self.state.lock().0,
            None => n == self.stop_at,
        };
        if !here {
            return;
        }
        let mut st = self.state.lock();
        st.0 = true;
        st.2 = desc;
        self.cv.notify_all();
        let deadline = std::time::Instant::now() + Duration::from_secs(20);
        while !st.1 {
            if self.cv.wait_until(&mut st, deadline).timed_out() {
                break;
            }
        }
    }
    fn wait_arrived(&self, timeout: Duration) -> Option<String> {
        let deadline = std::time::Instant::now() + timeout;
        let mut st = self.state.lock();
        while !st.0 {
            if self.cv.wait_until(&mut st, deadline).timed_out() {
                return None;
            }
        }
        Some(st.2.clone())
    }
    fn release(&self) {
        let mut st = self.state.lock();
        st.1 = true;
        self.cv.notify_all();
    }
}

impl FileSystem for GateFs {
    fn get_name(&self) -> String {
        format!("GateFs({})", self.inner.get_name())
    }
    fn create_dir(&self, path: &std::path::Path) -> std::io::Result<()> {
        self.gate("create_dir", path);
        let r = self.inner.create_dir(path);
        self.done("create_dir", path, r.is_ok());
        r
    }
    fn create_dir_all(&self, path: &std::path::Path) -> std::io::Result<()> {
        self.gate("create_dir_all", path);
        let r = self.inner.create_dir_all(path);
        self.done("create_dir_all", path, r.is_ok());
        r
    }
    fn list_dir(&self, path: &std::path::Path) -> std::io::Result<Vec<PathBuf>> {
        self.gate("list_dir", path);
        self.inner.list_dir(path)
    }
    fn open_file(&self, path: &std::path::Path) -> std::io::Result<Box<dyn raindb::fs::ReadonlyRandomAccessFile>> {
        self.gate("open_file", path);
        self.inner.open_file(path)
    }
    fn rename(&self, from: &std::path::Path, to: &std::path::Path) -> std::io::Result<()> {
        self.gate("rename", from);
        self.inner.rename(from, to)
    }
    fn create_file(&self, path: &std::path::Path, append: bool) -> std::io::Result<Box<dyn raindb::fs::RandomAccessFile>> {
        self.gate("create_file", path);
        let r = self.inner.create_file(path, append);
        self.done("create_file", path, r.is_ok());
        r
    }
    fn remove_file(&self, path: &std::path::Path) -> std::io::Result<()> {
        self.gate("remove_file", path);
        let r = self.inner.remove_file(path);
        self.done("remove_file", path, r.is_ok());
        r
    }
    fn remove_dir(&self, path: &std::path::Path) -> std::io::Result<()> {
        self.gate("remove_dir", path);
        let r = self.inner.remove_dir(path);
        self.done("remove_dir", path, r.is_ok());
        r
    }
    fn remove_dir_all(&self, path: &std::path::Path) -> std::io::Result<()> {
        self.gate("remove_dir_all", path);
        self.inner.remove_dir_all(path)
    }
    fn get_file_size(&self, path: &std::path::Path) -> std::io::Result<u64> {
        self.gate("get_file_size", path);
        self.inner.get_file_size(path)
    }
    fn is_dir(&self, path: &std::path::Path) -> std::io::Result<bool> {
        self.gate("is_dir", path);
        self.inner.is_dir(path)
    }
    fn lock_file(&self, path: &std::path::Path) -> std::io::Result<raindb::fs::FileLock> {
        self.gate("lock_file", path);
        let r = self.inner.lock_file(path);
        self.done("lock_file", path, r.is_ok());
        r
    }
}

/// destroy_database of a closed database is stopped before one of its file system calls; an open
/// arrives in that window. Whoever gets the database must really own it: if the open succeeds the
/// instance keeps working, stays exclusive and keeps its data, whatever destroy does afterwards;
/// if it is refused, the database is either gone or intact afterwards.
fn case_destroy_race(out: &mut CaseOut, seed: u64, idx: u64) {
    let mut rng = Rng::new(mix(&[seed, idx], "c17-destroy"));
    director().reset(rng.next_u64());
    let scratch = Scratch::new(100_000 + idx);
    let position = idx % DESTROY_POSITIONS;
    let use_tmpfs = (idx / DESTROY_POSITIONS) % 2 == 0;
    let tmpfs_holder;
    let (inner, db_path): (Arc<dyn FileSystem>, String) = if use_tmpfs {
        tmpfs_holder = Arc::new(TmpFileSystem::new(Some(&scratch.dir)));
        (tmpfs_holder.clone() as Arc<dyn FileSystem>, "db".to_string())
    } else {
        (Arc::new(OsFileSystem::new()), scratch.dir.join("db").to_string_lossy().to_string())
    };
    let gate_fs = Arc::new(GateFs {
        inner: Arc::clone(&inner),
        stop_desc: None,
        stop_at: position,
        calls: AtomicU64::new(0),
        state: parking_lot::Mutex::new((false, false, String::new())),
        cv: parking_lot::Condvar::new(),
        trace: parking_lot::Mutex::new(vec![]),
        all_calls: parking_lot::Mutex::new(vec![]),
    });
    let fs: Arc<dyn FileSystem> = gate_fs.clone();
    let memtable = *rng.pick(&[512usize, 65536]);
    let fsname = if use_tmpfs { "tmpfs" } else { "osfs" };
    // a small closed database
    let mut old: BTreeMap<Vec<u8>, Vec<u8>> = BTreeMap::new();
    {
        let db = match DB::open(options(&fs, &db_path, memtable)) {
            Ok(db) => db,
            Err(e) => {
                out.violate("C17/owner-open-failed-although-nobody-holds-the-database", json!({"error": e.to_string()}));
                return;
            }
        };
        for i in 0..rng.range(5, 60) {
            let (k, v) = (format!("old{i:03}").into_bytes(), format!("o{i}-{}", "z".repeat(rng.range(0, 80) as usize)).into_bytes());
            if db.put(WriteOptions::default(), k.clone(), v.clone()).is_ok() {
                old.insert(k, v);
            }
        }
        drop(db);
    }
    let destroyer = {
        let (fs, db_path) = (Arc::clone(&fs), db_path.clone());
        std::thread::Builder::new().name("c17-destroyer".into()).spawn(move || {
            set_role(DESTROYER);
            let _g = watch::enter("destroy_database(gated)");
            DB::destroy_database(options(&fs, &db_path, memtable)).map_err(|e| e.to_string())
        }).unwrap()
    };
    let stopped_before = gate_fs.wait_arrived(Duration::from_secs(10));
    let mut ctx = json!({"family": "destroy-vs-open", "filesystem": fsname, "destroy_stopped_before_call": position, "call": stopped_before});
    let mut held: Option<DB> = None;
    let mut files_at_open = vec![];
    if stopped_before.is_some() {
        let _g = watch::enter("open(during-destroy)");
        if let Ok(db) = DB::open(options(&fs, &db_path, memtable)) {
            files_at_open = listing(&scratch.dir);
            held = Some(db);
        }
    }
    gate_fs.release();
    let destroy_result = match destroyer.join() {
        Ok(r) => r,
        Err(_) => Err("destroy_database panicked".to_string()),
    };
    ctx["destroy_result"] = json!(destroy_result.clone().err().unwrap_or_else(|| "Ok".into()));
    ctx["destroy_calls"] = json!(gate_fs.trace.lock().clone());
    ctx["open_during_destroy"] = json!(held.is_some());
    out.add("destroy_races", 1);
    match (&stopped_before, held) {
        (Some(call), Some(db)) => {
            out.add("opens_that_won_against_destroy", 1);
            // the instance obtained during the destroy call owns the database from here on
            let after = listing(&scratch.dir);
            let vanished: Vec<&String> = files_at_open.iter().filter(|f| {
                let name = f.split(':').next().unwrap_or("");
                (name.ends_with("CURRENT") || name.ends_with("LOCK") || name.contains("MANIFEST")) && !after.iter().any(|g| g.split(':').next() == Some(name))
            }).collect();
            if !vanished.is_empty() {
                out.violate("C17/destroy-removed-files-of-an-open-database", json!({"ctx": ctx, "vanished": vanished}));
            }
            let mut model: BTreeMap<Vec<u8>, Vec<u8>> = BTreeMap::new();
            let mut write_failed = false;
            for i in 0..30 {
                let (k, v) = (format!("new{i:03}").into_bytes(), format!("n{i}-{}", "q".repeat(40)).into_bytes());
                match db.put(WriteOptions::default(), k.clone(), v.clone()) {
                    Ok(()) => {
                        model.insert(k, v);
                    }
                    Err(e) => {
                        out.violate("C17/owner-write-failed-after-destroy-ran", json!({"ctx": ctx, "error": e.to_string()}));
                        write_failed = true;
                        break;
                    }
                }
            }
            verify_contents(out, &db, &model, "instance-opened-during-destroy", &ctx);
            {
                let _g = watch::enter("open(second-while-held)");
                if let Ok(second) = DB::open(options(&fs, &db_path, memtable)) {
                    out.violate("C17/second-open-succeeded-while-open/after-destroy-ran", json!({"ctx": ctx, "files": listing(&scratch.dir)}));
                    drop(second);
                }
            }
            drop(db);
            if !write_failed && !out.is_violated() {
                match DB::open(options(&fs, &db_path, memtable)) {
                    Ok(db) => {
                        verify_contents(out, &db, &model, "reopen-after-instance-opened-during-destroy", &ctx);
                        drop(db);
                    }
                    Err(e) => out.violate("C17/reopen-failed-after-instance-opened-during-destroy", json!({"ctx": ctx, "error": e.to_string(), "files": listing(&scratch.dir)})),
                }
            }
            out.nontrivial(format!("destroy-race/{fsname}/before-{call}/open-won"));
        }
        (Some(call), None) => {
            // the open was refused: destroy owned the path. A refused attempt must leave no trace, so
            // the destroy call it ran into finishes as if it had been alone - successfully
            if let Err(e) = &destroy_result {
                out.violate("C17/refused-open-made-the-destroy-in-progress-fail", json!({"ctx": ctx, "destroy_error": e, "left_behind": listing(&scratch.dir)}));
            }
            // afterwards the path is free
            match DB::open(options(&fs, &db_path, memtable)) {
                Ok(db) => {
                    if destroy_result.is_ok() {
                        for k in old.keys().take(5) {
                            if db.get(ReadOptions::default(), k).is_ok() {
                                out.violate("C17/data-survived-a-successful-destroy", json!({"ctx": ctx, "key": show(k)}));
                                break;
                            }
                        }
                    }
                    drop(db);
                }
                Err(e) => out.violate("C17/owner-open-failed-although-nobody-holds-the-database", json!({"ctx": ctx, "error": e.to_string(), "files": listing(&scratch.dir)})),
            }
            out.nontrivial(format!("destroy-race/{fsname}/before-{call}/open-refused"));
        }
        (None, _) => {
            // destroy made fewer calls than this position: nothing to race with
            out.add("destroy_finished_before_gate", 1);
        }
    }
    let _ = DB::destroy_database(options(&inner, &db_path, memtable));
    out.sample = Some(ctx);
}

struct Scratch {
    dir: PathBuf,
}

impl Scratch {
    fn new(idx: u64) -> Self {
        let dir = std::env::temp_dir().join(format!("rdbmon-c17-{}-{}", std::process::id(), idx));
        let _ = std::fs::remove_dir_all(&dir);
        std::fs::create_dir_all(&dir).expect("create scratch dir");
        Scratch { dir }
    }
}

impl Drop for Scratch {
    fn drop(&mut self) {
        let _ = std::fs::remove_dir_all(&self.dir);
    }
}

fn listing(dir: &PathBuf) -> Vec<String> {
    fn walk(p: &PathBuf, base: &PathBuf, out: &mut Vec<String>) {
        if let Ok(rd) = std::fs::read_dir(p) {
            for e in rd.flatten() {
                let path = e.path();
                if path.is_dir() {
                    walk(&path, base, out);
                } else {
                    let len = e.metadata().map(|m| m.len()).unwrap_or(0);
                    out.push(format!("{}:{}", path.strip_prefix(base).unwrap_or(&path).display(), len));
                }
            }
        }
    }
    let mut out = vec![];
    walk(dir, dir, &mut out);
    out.sort();
    out
}

fn options(fs: &Arc<dyn FileSystem>, db_path: &str, memtable: usize) -> DbOptions {
    DbOptions {
        db_path: db_path.to_string(),
        max_memtable_size: memtable,
        max_file_size: 4096,
        filesystem_provider: Arc::clone(fs),
        create_if_missing: true,
        ..crate::dbutil::options(Arc::clone(fs), db_path, &crate::gen::Config { memtable, file: 4096, block: 256, reuse: true })
    }
}

fn verify_contents(out: &mut CaseOut, db: &DB, model: &BTreeMap<Vec<u8>, Vec<u8>>, when: &str, ctx: &serde_json::Value) {
    for (k, v) in model {
        match db.get(ReadOptions::default(), k) {
            Ok(got) if got == *v => {}
            Ok(got) => {
                out.violate(format!("C17/owner-data-wrong/{when}"), json!({"ctx": ctx, "key": show(k), "expected": show(v), "got": show(&got)}));
                return;
            }
            Err(RainDBError::KeyNotFound) => {
                out.violate(format!("C17/owner-data-missing/{when}"), json!({"ctx": ctx, "key": show(k), "expected": show(v)}));
                return;
            }
            Err(e) => {
                out.violate(format!("C17/owner-read-error/{when}"), json!({"ctx": ctx, "key": show(k), "error": e.to_string()}));
                return;
            }
        }
    }
}

/// Being refused is the ordinary outcome of an open on a database in use: it is reported by an
/// error, not by a thread that dies with a panic in the process that hosts the running instance.
fn judge_panics_of_refused_opens(out: &mut CaseOut) {
    let dead: Vec<_> = watch::bg_panics().into_iter().filter(|p| p.message.contains("RecvError")).collect();
    if !dead.is_empty() {
        out.violate(
            "C17/refused-open-panicked-a-background-thread",
            json!({"panics": dead.len(), "first": {"thread": dead[0].thread, "message": dead[0].message, "location": dead[0].location}}),
        );
    }
}

pub fn run_case(tier: &str, seed: u64, idx: u64) -> CaseOut {
    let mut out = run_case_inner(tier, seed, idx);
    judge_panics_of_refused_opens(&mut out);
    out
}

fn run_case_inner(tier: &str, seed: u64, idx: u64) -> CaseOut {
    let mut out = CaseOut::new();
    let before_parked_close = n_rounds_cases(tier) + n_destroy_cases(tier) + n_spin_cases(tier) + n_nested_cases(tier);
    if idx >= before_parked_close {
        case_close_while_worker_parked(&mut out, seed, idx - before_parked_close);
        return out;
    }
    if idx >= n_rounds_cases(tier) + n_destroy_cases(tier) + n_spin_cases(tier) {
        case_close_during_nested_flush(&mut out, seed, idx - n_rounds_cases(tier) - n_destroy_cases(tier) - n_spin_cases(tier));
        return out;
    }
    if idx >= n_rounds_cases(tier) + n_destroy_cases(tier) {
        case_destroy_spin(&mut out, seed, idx - n_rounds_cases(tier) - n_destroy_cases(tier));
        return out;
    }
    if idx >= n_rounds_cases(tier) {
        case_destroy_race(&mut out, seed, idx - n_rounds_cases(tier));
        return out;
    }
    let mut rng = Rng::new(mix(&[seed, idx], "c17"));
    let d = director();
    d.reset(rng.next_u64());
    let scratch = Scratch::new(idx);
    let use_tmpfs = idx % 3 != 2;
    let tmpfs_holder;
    let (fs, db_path): (Arc<dyn FileSystem>, String) = if use_tmpfs {
        tmpfs_holder = Arc::new(TmpFileSystem::new(Some(&scratch.dir)));
        (tmpfs_holder.clone() as Arc<dyn FileSystem>, "db".to_string())
    } else {
        (Arc::new(OsFileSystem::new()), scratch.dir.join("db").to_string_lossy().to_string())
    };
    let memtable = *rng.pick(&[512usize, 4096, 65536]);
    let rounds = if tier == "quick" { 3 } else { 6 };
    let mut model: BTreeMap<Vec<u8>, Vec<u8>> = BTreeMap::new();
    let mut counter = 0u64;
    let ctx = json!({"filesystem": if use_tmpfs { "TmpFileSystem" } else { "OsFileSystem" }, "memtable": memtable});
    let mut outcomes: Vec<String> = vec![];

    for round in 0..rounds {
        watch::tick();
        // ---- the owner opens and works while others attack --------------------------------
        let owner = {
            let _g = watch::enter("open(owner)");
            match DB::open(options(&fs, &db_path, memtable)) {
                Ok(db) => Arc::new(db),
                Err(e) => {
                    out.violate("C17/owner-open-failed-although-nobody-holds-the-database", json!({"ctx": ctx, "round": round, "error": e.to_string(), "files": listing(&scratch.dir)}));
                    return out;
                }
            }
        };
        verify_contents(&mut out, &owner, &model, "after-open", &ctx);
        let n_attackers = rng.range(2, 7) as usize;
        let stop = Arc::new(AtomicBool::new(false));
        let attempts = Arc::new(AtomicU64::new(0));
        let bad: Arc<parking_lot::Mutex<Vec<serde_json::Value>>> = Arc::new(parking_lot::Mutex::new(vec![]));
        let before = listing(&scratch.dir);
        let mut attackers = vec![];
        for a in 0..n_attackers {
            let (fs, db_path, stop, attempts, bad) = (Arc::clone(&fs), db_path.clone(), Arc::clone(&stop), Arc::clone(&attempts), Arc::clone(&bad));
            let destroyer = a % 3 == 2;
            attackers.push(std::thread::Builder::new().name(format!("c17-attacker-{a}")).spawn(move || {
                set_role(10 + a as u32);
                let mut n = 0;
                while !stop.load(Ordering::Relaxed) || n < 3 {
                    n += 1;
                    attempts.fetch_add(1, Ordering::Relaxed);
                    let _g = watch::enter(if destroyer { "destroy_database(attacker)" } else { "open(attacker)" });
                    if destroyer {
                        if DB::destroy_database(options(&fs, &db_path, memtable)).is_ok() {
                            bad.lock().push(json!({"attacker": a, "what": "destroy_database returned Ok while the database was open"}));
                        }
                    } else {
                        match DB::open(options(&fs, &db_path, memtable)) {
                            Err(_) => {}
                            Ok(second) => {
                                bad.lock().push(json!({"attacker": a, "what": "a second DB::open succeeded while the database was open"}));
                                drop(second);
                            }
                        }
                    }
                    if n > 40 {
                        break;
                    }
                }
            }).unwrap());
        }
        // owner's own model-checked traffic while being attacked
        let n_ops = rng.range(20, 120);
        for _ in 0..n_ops {
            counter += 1;
            let k = format!("k{:03}", rng.below(40)).into_bytes();
            let v = format!("v{counter}-{}", "x".repeat(rng.range(0, 60) as usize)).into_bytes();
            let _g = watch::enter("put(owner)");
            match owner.put(WriteOptions::default(), k.clone(), v.clone()) {
                Ok(()) => {
                    model.insert(k, v);
                }
                Err(e) => {
                    out.violate("C17/owner-write-failed-during-attacks", json!({"ctx": ctx, "error": e.to_string()}));
                    break;
                }
            }
            if rng.chance(0.3) {
                let probe = format!("k{:03}", rng.below(40)).into_bytes();
                let got = owner.get(ReadOptions::default(), &probe);
                let ok = match (&got, model.get(&probe)) {
                    (Ok(g), Some(v)) => g == v,
                    (Err(RainDBError::KeyNotFound), None) => true,
                    _ => false,
                };
                if !ok {
                    out.violate("C17/owner-read-wrong-during-attacks", json!({"ctx": ctx, "key": show(&probe), "expected": model.get(&probe).map(|v| show(v)), "got": format!("{:?}", got.map(|v| show(&v)))}));
                }
            }
        }
        stop.store(true, Ordering::Relaxed);
        // An attempt has to FAIL: one that neither fails nor succeeds but waits for the owner to go
        // away is no refusal. The owner stays open and idle here; every attacker makes at most a few
        // more attempts of a few milliseconds each. If they have not come back after 20 s, during
        // the last 10 of which not a single attempt was begun, they are blocked inside one.
        let wait_start = std::time::Instant::now();
        let mut last_attempts = attempts.load(Ordering::Relaxed);
        let mut last_change = std::time::Instant::now();
        let mut blocked = false;
        while attackers.iter().any(|a| !a.is_finished()) {
            std::thread::sleep(Duration::from_millis(5));
            watch::tick();
            let now = attempts.load(Ordering::Relaxed);
            if now != last_attempts {
                last_attempts = now;
                last_change = std::time::Instant::now();
            }
            if wait_start.elapsed() > Duration::from_secs(20) && last_change.elapsed() > Duration::from_secs(10) {
                blocked = true;
                break;
            }
        }
        if blocked {
            let stuck = attackers.iter().filter(|a| !a.is_finished()).count();
            out.violate("C17/attempt-neither-failed-nor-succeeded-while-the-database-was-open",
                json!({"ctx": ctx, "round": round, "attackers_still_inside_open_or_destroy": stuck, "waited_s": wait_start.elapsed().as_secs(),
                    "note": "the owner was open and idle; the attempts only came back after it had been closed"}));
            // let them out: close the owner (they will get the lock one after the other)
            drop(owner);
            for a in attackers {
                let _ = a.join();
            }
            return out;
        }
        for a in attackers {
            let _ = a.join();
        }
        out.add("attack_attempts", attempts.load(Ordering::Relaxed));
        for b in bad.lock().drain(..) {
            let sig = if b["what"].as_str().unwrap_or("").contains("destroy") { "C17/destroy-succeeded-while-open" } else { "C17/second-open-succeeded-while-open" };
            out.violate(sig, json!({"ctx": ctx, "round": round, "detail": b}));
        }
        // nothing the owner needs may have been removed by the refused attempts
        let after = listing(&scratch.dir);
        let vanished: Vec<&String> = before.iter().filter(|f| {
            let name = f.split(':').next().unwrap_or("");
            (name.ends_with("CURRENT") || name.ends_with("LOCK") || name.contains("MANIFEST")) && !after.iter().any(|g| g.split(':').next() == Some(name))
        }).collect();
        if !vanished.is_empty() {
            out.violate("C17/files-removed-by-refused-attempts", json!({"ctx": ctx, "vanished": vanished}));
        }
        verify_contents(&mut out, &owner, &model, "after-attacks", &ctx);
        out.nontrivial(format!("held-by-owner/attackers{}/{}", n_attackers.min(6), if use_tmpfs { "tmpfs" } else { "osfs" }));
        outcomes.push(format!("r{round}:attacked x{}", attempts.load(Ordering::Relaxed)));

        // ---- close while background work of this instance is still in flight ---------------
        // The compaction thread is held inside a memtable flush; close has been called and must
        // wait for that work. As long as the flush has not finished this instance still owns
        // (and writes to) the directory, so no other open may succeed.
        if round % 2 == 0 {
            use crate::director::COMPACTOR;
            // start from a quiet database: a flush that is already pending would reach the gate
            // while the writes below are still waiting for it
            let quiet_deadline = std::time::Instant::now() + Duration::from_secs(10);
            loop {
                let p = owner.verif_probe();
                if (!p.has_immutable_memtable && !p.background_compaction_scheduled) || std::time::Instant::now() > quiet_deadline {
                    break;
                }
                std::thread::sleep(Duration::from_millis(1));
                watch::tick();
            }
            let gate = d.arm(COMPACTOR, "flush.before_build", 1);
            let rot0 = d.note_count("mem.rotate");
            for i in 0..2000u64 {
                // a flush that was already pending may reach the gate at once; writing on would
                // then wait for that very flush
                if d.is_arrived(gate) {
                    break;
                }
                counter += 1;
                let k = format!("k{:03}", i % 40).into_bytes();
                let v = format!("f{counter}-{}", "y".repeat(50)).into_bytes();
                let _g = watch::enter("put(owner)");
                if owner.put(WriteOptions::default(), k.clone(), v.clone()).is_err() {
                    break;
                }
                model.insert(k, v);
                if d.note_count("mem.rotate") > rot0 {
                    break;
                }
            }
            if d.wait_arrived(gate, Duration::from_secs(5)) {
                let closing = Arc::clone(&owner);
                drop(owner);
                let closer = std::thread::Builder::new().name("c17-closer".into()).spawn(move || {
                    set_role(1);
                    let _g = watch::enter("close(owner)");
                    if let Ok(db) = Arc::try_unwrap(closing) {
                        drop(db);
                    }
                }).unwrap();
                std::thread::sleep(Duration::from_millis(rng.range(5, 30)));
                let mut intruders = 0;
                for attempt in 0..rng.range(3, 10) {
                    let _g = watch::enter("open(during-flush-of-closing-owner)");
                    if let Ok(second) = DB::open(options(&fs, &db_path, memtable)) {
                        intruders += 1;
                        out.violate(
                            "C17/second-open-succeeded-while-closing-owner-still-had-work-in-flight",
                            json!({"ctx": ctx, "round": round, "attempt": attempt, "compaction_thread_parked_at": "flush.before_build"}),
                        );
                        drop(second);
                        break;
                    }
                }
                d.release(gate);
                let _ = closer.join();
                out.add("closes_with_work_in_flight", 1);
                out.nontrivial(format!("close-with-flush-in-flight/{}/intruders{}", if use_tmpfs { "tmpfs" } else { "osfs" }, intruders));
                // the database must now be free and intact
                match DB::open(options(&fs, &db_path, memtable)) {
                    Ok(db) => {
                        verify_contents(&mut out, &db, &model, "after-close-with-work-in-flight", &ctx);
                        drop(db);
                    }
                    Err(e) => out.violate("C17/owner-open-failed-although-nobody-holds-the-database", json!({"ctx": ctx, "round": round, "error": e.to_string()})),
                }
                if out.is_violated() {
                    break;
                }
                continue;
            }
            d.release(gate);
            out.add("flush_gate_not_reached", 1);
        }

        // ---- close; then racing opens: exactly one winner ---------------------------------
        let park_close = round % 2 == 1;
        let gate = if park_close { Some(d.arm(1, "close.lock_released", 1)) } else { None };
        let closer = {
            let owner = owner;
            std::thread::Builder::new().name("c17-closer".into()).spawn(move || {
                set_role(1);
                let _g = watch::enter("close(owner)");
                match Arc::try_unwrap(owner) {
                    Ok(db) => drop(db),
                    Err(_) => {}
                }
            }).unwrap()
        };
        let mut closer = Some(closer);
        if let Some(g) = gate {
            // the lock is released but the old handle is still joining its worker: a new owner
            // must already get a consistent database
            if d.wait_arrived(g, Duration::from_secs(10)) {
                let _g2 = watch::enter("open(during-close)");
                match DB::open(options(&fs, &db_path, memtable)) {
                    Ok(db) => {
                        verify_contents(&mut out, &db, &model, "opened-while-old-handle-was-still-closing", &ctx);
                        out.nontrivial(format!("open-during-close/{}", if use_tmpfs { "tmpfs" } else { "osfs" }));
                        out.add("opens_during_close", 1);
                        // the old handle now finishes closing; whatever it still does must not
                        // take the database away from the new owner
                        d.release(g);
                        if let Some(c) = closer.take() {
                            let _ = c.join();
                        }
                        {
                            let _g3 = watch::enter("open(third-while-second-holds)");
                            if let Ok(third) = DB::open(options(&fs, &db_path, memtable)) {
                                out.violate("C17/second-open-succeeded-while-open/after-previous-owner-finished-closing", json!({"ctx": ctx, "round": round, "files": listing(&scratch.dir)}));
                                drop(third);
                            }
                        }
                        verify_contents(&mut out, &db, &model, "after-previous-owner-finished-closing", &ctx);
                        drop(db);
                    }
                    Err(e) => out.violate("C17/open-refused-after-lock-was-released", json!({"ctx": ctx, "error": e.to_string()})),
                }
            } else {
                out.inconclusive("close did not reach close.lock_released");
            }
            d.release(g);
        }
        if let Some(c) = closer.take() {
            let _ = c.join();
        }

        let n_racers = rng.range(2, 8) as usize;
        let barrier = Arc::new(Barrier::new(n_racers));
        let winners: Arc<parking_lot::Mutex<Vec<DB>>> = Arc::new(parking_lot::Mutex::new(vec![]));
        let mut racers = vec![];
        for r in 0..n_racers {
            let (fs, db_path, barrier, winners) = (Arc::clone(&fs), db_path.clone(), Arc::clone(&barrier), Arc::clone(&winners));
            racers.push(std::thread::Builder::new().name(format!("c17-racer-{r}")).spawn(move || {
                set_role(30 + r as u32);
                barrier.wait();
                let _g = watch::enter("open(racer)");
                if let Ok(db) = DB::open(options(&fs, &db_path, memtable)) {
                    // keep the handle until everyone has tried
                    winners.lock().push(db);
                }
            }).unwrap());
        }
        for r in racers {
            let _ = r.join();
        }
        let mut won = std::mem::take(&mut *winners.lock());
        out.add("open_races", 1);
        if won.len() != 1 {
            out.violate(
                if won.is_empty() { "C17/no-racing-open-succeeded-after-close" } else { "C17/several-racing-opens-succeeded" },
                json!({"ctx": ctx, "round": round, "racers": n_racers, "successes": won.len()}),
            );
        } else {
            verify_contents(&mut out, &won[0], &model, "race-winner", &ctx);
        }
        out.nontrivial(format!("race/racers{}/winners{}", n_racers.min(8), won.len()));
        outcomes.push(format!("r{round}:race {}→{}", n_racers, won.len()));
        for db in won.drain(..) {
            let _g = watch::enter("close(winner)");
            drop(db);
        }
        if out.is_violated() {
            break;
        }
    }
    // finally: destroy must work once nobody holds the database
    if !out.is_violated() {
        let _g = watch::enter("destroy_database(final)");
        if let Err(e) = DB::destroy_database(options(&fs, &db_path, memtable)) {
            out.violate("C17/destroy-refused-although-closed", json!({"ctx": ctx, "error": e.to_string(), "files": listing(&scratch.dir)}));
        }
    }
    out.sample = Some(json!({"family": "ownership-rounds", "ctx": ctx, "rounds": outcomes}));
    out
}
