//! C06 — no reader ever observes part of a batch.
//!
//! Every batch rewrites *all* keys of one key group with the same fresh tag (or deletes them all).
//! Any sequence-consistent view of a group — gets at one snapshot, or one iterator's scan — must
//! therefore show a single tag on all of the group's keys.

use std::collections::BTreeSet;
use std::sync::atomic::{AtomicBool, AtomicU64, Ordering};
use std::sync::Arc;
use std::time::Duration;

use parking_lot::Mutex;
use raindb::{Batch, RainDBError, RainDbIterator, ReadOptions, WriteOptions, DB};
use serde_json::json;

use crate::director::{director, set_role, Delay};
use crate::gen::Config;
use crate::report::{show, CaseOut};
use crate::rng::{mix, Rng};
use crate::simfs::SimFs;
use crate::{dbutil, watch};

pub fn plan(tier: &str) -> u64 {
    match tier {
        "quick" => 32 + 100 + n_recovered(tier),
        _ => 320 + 3000 + n_recovered(tier),
    }
}

fn n_perturbed(tier: &str) -> u64 {
    if tier == "quick" { 100 } else { 3000 }
}

fn n_recovered(tier: &str) -> u64 {
    if tier == "quick" { 24 } else { 300 }
}

fn n_forced(tier: &str) -> u64 {
    if tier == "quick" { 32 } else { 320 }
}

const POINTS: [&str; 4] = ["write.before_wal", "write.after_wal", "write.mem_insert", "write.after_mem"];

#[derive(Clone)]
struct Group {
    keys: Vec<Vec<u8>>,
}

fn make_groups(rng: &mut Rng, n_groups: usize, big: bool) -> Vec<Group> {
    (0..n_groups)
        .map(|g| {
            let size = if big && g == 0 { rng.range(24, 64) } else { rng.range(2, 12) } as usize;
            Group { keys: (0..size).map(|k| format!("g{g}-{k:03}").into_bytes()).collect() }
        })
        .collect()
}

fn tag_of(value: &[u8]) -> String {
    let end = value.iter().position(|b| *b == b':').unwrap_or(value.len());
    String::from_utf8_lossy(&value[..end]).to_string()
}

struct Shared {
    /// (group, stamp at call, stamp at return) of every batch
    batches: Mutex<Vec<(usize, u64, u64)>>,
    /// (group, stamp when the view was fixed) of every view
    views: Mutex<Vec<(usize, u64)>>,
    clock: AtomicU64,
    mixed: Mutex<Vec<serde_json::Value>>,
    errors: AtomicU64,
}

impl Shared {
    fn stamp(&self) -> u64 {
        self.clock.fetch_add(1, Ordering::SeqCst) + 1
    }
}

fn write_group(db: &DB, shared: &Shared, group_idx: usize, group: &Group, tag: &str, delete: bool, pad: usize) -> bool {
    let mut batch = Batch::new();
    for k in &group.keys {
        if delete {
            batch.add_delete(k.clone());
        } else {
            let mut v = format!("{tag}:").into_bytes();
            v.extend(std::iter::repeat(b'.').take(pad));
            batch.add_put(k.clone(), v);
        }
    }
    let c = shared.stamp();
    let _g = watch::enter("apply(batch)");
    // synchronous and ordinary writers are mixed: a group commit must stop at a synchronous follower
    let r = db.apply(WriteOptions { synchronous: c % 3 == 0 }, batch);
    let t = shared.stamp();
    shared.batches.lock().push((group_idx, c, t));
    if r.is_err() {
        shared.errors.fetch_add(1, Ordering::Relaxed);
    }
    r.is_ok()
}

/// Take one view of a group and report the distinct tags seen ("∅" = absent).
fn view_group(db: &DB, shared: &Shared, group_idx: usize, group: &Group, by_iterator: bool) -> Option<(BTreeSet<String>, Vec<String>)> {
    let _g = watch::enter("view");
    let mut tags = BTreeSet::new();
    let mut seen: Vec<String> = vec![];
    if by_iterator {
        let mut it = match db.new_iterator(ReadOptions { fill_cache: false, snapshot: None }) {
            Ok(it) => it,
            Err(_) => {
                shared.errors.fetch_add(1, Ordering::Relaxed);
                return None;
            }
        };
        shared.views.lock().push((group_idx, shared.stamp()));
        let prefix = format!("g{group_idx}-").into_bytes();
        let mut present: std::collections::BTreeMap<Vec<u8>, String> = Default::default();
        // every other iterator view walks the group backwards (seek past its end, then prev)
        let backwards = shared.clock.load(Ordering::Relaxed) % 2 == 0;
        if backwards {
            let past_end = format!("g{group_idx}.").into_bytes();
            if it.seek(&past_end).is_err() {
                shared.errors.fetch_add(1, Ordering::Relaxed);
                return None;
            }
            if it.is_valid() {
                it.prev();
            } else if it.seek_to_last().is_err() {
                shared.errors.fetch_add(1, Ordering::Relaxed);
                return None;
            }
            while it.is_valid() {
                let (k, v) = it.current().unwrap();
                if !k.starts_with(&prefix) {
                    break;
                }
                present.insert(k.clone(), tag_of(v));
                it.prev();
            }
        } else {
            if it.seek(&prefix).is_err() {
                shared.errors.fetch_add(1, Ordering::Relaxed);
                return None;
            }
            while it.is_valid() {
                let (k, v) = it.current().unwrap();
                if !k.starts_with(&prefix) {
                    break;
                }
                present.insert(k.clone(), tag_of(v));
                it.next();
            }
        }
        drop(it);
        for k in &group.keys {
            let tag = present.get(k).cloned().unwrap_or_else(|| "∅".to_string());
            seen.push(format!("{}={}", show(k), tag));
            tags.insert(tag);
        }
    } else {
        let snapshot = db.get_snapshot();
        shared.views.lock().push((group_idx, shared.stamp()));
        for k in &group.keys {
            let tag = match db.get(ReadOptions { fill_cache: false, snapshot: Some(snapshot.clone()) }, k) {
                Ok(v) => tag_of(&v),
                Err(RainDBError::KeyNotFound) => "∅".to_string(),
                Err(_) => {
                    shared.errors.fetch_add(1, Ordering::Relaxed);
                    db.release_snapshot(snapshot);
                    return None;
                }
            };
            seen.push(format!("{}={}", show(k), tag));
            tags.insert(tag);
        }
        db.release_snapshot(snapshot);
    }
    Some((tags, seen))
}

fn check_view(shared: &Shared, group_idx: usize, group: &Group, db: &DB, by_iterator: bool, during: &str) -> bool {
    match view_group(db, shared, group_idx, group, by_iterator) {
        None => true,
        Some((tags, seen)) => {
            if tags.len() > 1 {
                let mut mixed = shared.mixed.lock();
                if mixed.len() < 4 {
                    mixed.push(json!({"group": group_idx, "view": if by_iterator { "iterator scan" } else { "gets at one snapshot" },
                        "when": during, "tags_seen": tags, "keys": seen.into_iter().take(24).collect::<Vec<_>>()}));
                }
                false
            } else {
                true
            }
        }
    }
}

/// Reads without a snapshot, one per key of the group. Only sound while nothing can commit between
/// the reads (the only writer is parked inside its write and every other writer queues behind it, or
/// all writers have finished): each get then reads at the same published sequence number, so the
/// reads form a sequence-consistent view and must show the whole batch or none of it.
fn check_plain_gets(shared: &Shared, group_idx: usize, group: &Group, db: &DB, during: &str) {
    let _g = watch::enter("view");
    shared.views.lock().push((group_idx, shared.stamp()));
    let mut tags = BTreeSet::new();
    let mut seen: Vec<String> = vec![];
    for k in &group.keys {
        let tag = match db.get(ReadOptions { fill_cache: false, snapshot: None }, k) {
            Ok(v) => tag_of(&v),
            Err(RainDBError::KeyNotFound) => "∅".to_string(),
            Err(_) => {
                shared.errors.fetch_add(1, Ordering::Relaxed);
                return;
            }
        };
        seen.push(format!("{}={}", show(k), tag));
        tags.insert(tag);
    }
    if tags.len() > 1 {
        let mut mixed = shared.mixed.lock();
        if mixed.len() < 4 {
            mixed.push(json!({"group": group_idx, "view": "gets without a snapshot while nothing can commit", "when": during, "tags_seen": tags,
                "keys": seen.into_iter().take(24).collect::<Vec<_>>()}));
        }
    }
}

fn open_db(out: &mut CaseOut, cfg: &Config) -> Option<Arc<DB>> {
    let fs = SimFs::from_image(&dbutil::root_image());
    let options = dbutil::options(fs.as_provider(), dbutil::DB_PATH, cfg);
    let _g = watch::enter("open");
    match DB::open(options) {
        Ok(db) => Some(Arc::new(db)),
        Err(e) => {
            out.violate("C06/open-failed", json!({"error": e.to_string()}));
            None
        }
    }
}

fn finish(out: &mut CaseOut, db: Arc<DB>, shared: &Shared, ctx: &serde_json::Value, scenario: &str) -> u64 {
    let mixed = std::mem::take(&mut *shared.mixed.lock());
    for m in mixed {
        let how = if m["view"] == "iterator scan" { "iterator" } else if m["view"] == "gets at one snapshot" { "snapshot-gets" } else { "plain-gets" };
        out.violate(format!("C06/partial-batch-visible/{how}/{scenario}"), json!({"ctx": ctx, "view": m}));
    }
    // views whose fixing stamp lies inside a batch of the same group
    let batches = shared.batches.lock().clone();
    let views = shared.views.lock().clone();
    let concurrent = views.iter().filter(|(g, s)| batches.iter().any(|(bg, c, t)| bg == g && c < s && s < t)).count() as u64;
    out.add("views", views.len() as u64);
    out.add("batches", batches.len() as u64);
    out.add("views_fixed_while_a_batch_of_their_group_was_in_flight", concurrent);
    let errors = shared.errors.load(Ordering::Relaxed);
    if errors > 0 {
        out.inconclusive(format!("degenerate: {errors} calls returned errors in a fault-free run"));
    }
    match Arc::try_unwrap(db) {
        Ok(db) => {
            let _g = watch::enter("close");
            drop(db);
        }
        Err(_) => out.inconclusive("database handle still shared at close"),
    }
    concurrent
}

fn new_shared() -> Arc<Shared> {
    Arc::new(Shared { batches: Mutex::new(vec![]), views: Mutex::new(vec![]), clock: AtomicU64::new(0), mixed: Mutex::new(vec![]), errors: AtomicU64::new(0) })
}

/// The writer is parked inside its write (before the WAL append, after it, in the middle of the
/// memtable insertion, after it — always before the sequence number is published) while readers
/// take snapshots and iterators.
fn case_forced(out: &mut CaseOut, seed: u64, idx: u64) {
    let mut rng = Rng::new(mix(&[seed, idx], "c06-forced"));
    let d = director();
    d.reset(rng.next_u64());
    let point = POINTS[(idx % 4) as usize];
    let with_followers = (idx / 4) % 3 == 2;
    let cfg = Config { memtable: *rng.pick(&[256usize, 1024, 4096]), file: *rng.pick(&[1024u64, 4096]), block: 256, reuse: true };
    let db = match open_db(out, &cfg) {
        Some(db) => db,
        None => return,
    };
    let shared = new_shared();
    let groups = make_groups(&mut rng, 3, (idx / 4) % 3 == 1);
    // initial state: every group written once
    for (gi, g) in groups.iter().enumerate() {
        write_group(&db, &shared, gi, g, &format!("init{gi}"), false, 20);
    }
    let target = rng.usize_below(groups.len());
    let n = groups[target].keys.len() as u64;
    let nth = if point == "write.mem_insert" { (n / 2).max(1) } else { 1 };
    let gate = d.arm(1, point, nth);
    let delete = rng.chance(0.2);
    let writer = {
        let (db, shared, g) = (Arc::clone(&db), Arc::clone(&shared), groups[target].clone());
        std::thread::Builder::new().name("c06-writer".into()).spawn(move || {
            set_role(1);
            write_group(&db, &shared, target, &g, "parked", delete, 30);
            drop(db);
        }).unwrap()
    };
    out.add("windows_attempted", 1);
    let arrived = d.wait_arrived(gate, Duration::from_secs(5));
    let mut followers = vec![];
    if arrived && with_followers {
        // queue more writers behind the parked leader: the next group commit carries their batches
        for f in 0..rng.range(1, 4) {
            let (db, shared, groups) = (Arc::clone(&db), Arc::clone(&shared), groups.clone());
            let gi = rng.usize_below(groups.len());
            followers.push(std::thread::Builder::new().name(format!("c06-follower-{f}")).spawn(move || {
                set_role(10 + f as u32);
                write_group(&db, &shared, gi, &groups[gi], &format!("follower{f}"), false, 25);
                drop(db);
            }).unwrap());
        }
        std::thread::sleep(Duration::from_millis(30));
    }
    let mut views_during = 0;
    if arrived {
        for _ in 0..6 {
            for (gi, g) in groups.iter().enumerate() {
                check_view(&shared, gi, g, &db, rng.chance(0.5), &format!("writer parked at {point}"));
                check_plain_gets(&shared, gi, g, &db, &format!("writer parked at {point}"));
                views_during += 2;
            }
        }
    }
    d.release(gate);
    let _ = writer.join();
    for f in followers {
        let _ = f.join();
    }
    for (gi, g) in groups.iter().enumerate() {
        check_view(&shared, gi, g, &db, false, "after release");
        check_view(&shared, gi, g, &db, true, "after release");
        check_plain_gets(&shared, gi, g, &db, "after release");
    }
    let ctx = json!({"scenario": "writer parked inside its write", "point": point, "insert_index": nth, "batch_keys": n, "batch_is_delete": delete,
        "followers_queued": with_followers, "config": cfg.describe(), "writer_reached_point": arrived, "views_while_parked": views_during});
    finish(out, db, &shared, &ctx, &format!("writer-parked-at-{point}"));
    if arrived {
        out.add("windows_achieved", 1);
        let bucket = match n { 0..=4 => "<=4", 5..=12 => "5-12", _ => ">12" };
        out.nontrivial(format!("forced/{point}/batch{bucket}/followers{}/delete{}", with_followers as u8, delete as u8));
    } else {
        out.inconclusive(format!("forced: writer did not reach {point}"));
    }
    out.sample = Some(json!({"family": "forced-window", "ctx": ctx}));
}

fn case_perturbed(out: &mut CaseOut, tier: &str, seed: u64, idx: u64) {
    let mut rng = Rng::new(mix(&[seed, idx], "c06-pert"));
    let d = director();
    d.reset(rng.next_u64());
    d.set_default_delay(Some(Delay { probability: 0.03, min_us: 0, max_us: 150 }));
    let hot = *rng.pick(&["write.before_wal", "write.after_wal", "write.mem_insert", "write.after_mem", "get.unlocked", "get.before_imm", "get.before_tables", "flush.after_build", "manifest.after_append", "compact.step"]);
    d.set_delay(hot, Delay { probability: 0.4, min_us: 100, max_us: 3000 });
    let cfg = Config { memtable: *rng.pick(&[256usize, 512, 1024, 4096]), file: *rng.pick(&[512u64, 2048]), block: *rng.pick(&[64usize, 256]), reuse: true };
    let db = match open_db(out, &cfg) {
        Some(db) => db,
        None => return,
    };
    let shared = new_shared();
    let n_groups = rng.range(2, 5) as usize;
    let big_group = rng.chance(0.4);
    let groups = Arc::new(make_groups(&mut rng, n_groups, big_group));
    for (gi, g) in groups.iter().enumerate() {
        write_group(&db, &shared, gi, g, &format!("init{gi}"), false, 20);
    }
    let n_writers = rng.range(1, 3) as u32;
    let n_readers = rng.range(2, 3) as u32;
    let batches_per_writer = if tier == "quick" { rng.range(20, 60) } else { rng.range(30, 150) };
    let stop = Arc::new(AtomicBool::new(false));
    let mut writers = vec![];
    for w in 1..=n_writers {
        let (db, shared, groups) = (Arc::clone(&db), Arc::clone(&shared), Arc::clone(&groups));
        let mut trng = rng.fork("w");
        writers.push(std::thread::Builder::new().name(format!("c06-writer-{w}")).spawn(move || {
            set_role(w);
            for i in 0..batches_per_writer {
                let gi = trng.usize_below(groups.len());
                let pad = trng.range(5, 80) as usize;
                write_group(&db, &shared, gi, &groups[gi], &format!("w{w}.{i}"), trng.chance(0.15), pad);
            }
            drop(db);
        }).unwrap());
    }
    let mut readers = vec![];
    for r in 0..n_readers {
        let (db, shared, groups, stop) = (Arc::clone(&db), Arc::clone(&shared), Arc::clone(&groups), Arc::clone(&stop));
        let mut trng = rng.fork("r");
        readers.push(std::thread::Builder::new().name(format!("c06-reader-{r}")).spawn(move || {
            set_role(20 + r);
            while !stop.load(Ordering::Relaxed) {
                let gi = trng.usize_below(groups.len());
                check_view(&shared, gi, &groups[gi], &db, trng.chance(0.5), "concurrent");
            }
            drop(db);
        }).unwrap());
    }
    for w in writers {
        let _ = w.join();
    }
    stop.store(true, Ordering::Relaxed);
    for r in readers {
        let _ = r.join();
    }
    d.clear_delays();
    let ctx = json!({"scenario": "perturbation", "hot_point": hot, "config": cfg.describe(), "writers": n_writers, "readers": n_readers,
        "groups": groups.iter().map(|g| g.keys.len()).collect::<Vec<_>>(), "batches_per_writer": batches_per_writer});
    let concurrent = finish(out, db, &shared, &ctx, "perturbation");
    if concurrent > 0 {
        out.nontrivial(format!("perturbation/sig{:016x}", d.signature()));
        out.set_add("interleavings", format!("{:016x}", d.signature()));
    }
    out.sample = Some(json!({"family": "perturbation", "ctx": ctx}));
}

/// Batches also have to stay whole across a crash: a recorded single-client run of whole-group
/// batches over small memtables is cut after every creation of a write-ahead log file (the new
/// log exists and is empty, the flush of the full memtable is not recorded yet) and after the
/// calls that follow. Each image is recovered and every group is viewed - gets at one snapshot and
/// one iterator scan - right after recovery and after each of a few later single writes, which
/// advance the sequence number one step at a time.
fn case_recovered(out: &mut CaseOut, tier: &str, seed: u64, idx: u64) {
    use crate::session::{Session, WriteOp};
    use crate::simfs::{classify, JOp, PathClass, Replayer};
    let mut rng = Rng::new(mix(&[seed, idx], "c06-r"));
    director().reset(rng.next_u64());
    let cfg = Config { memtable: *rng.pick(&[512usize, 1024, 2048, 8192]), file: 4096, block: 256, reuse: rng.chance(0.5) };
    let fs = SimFs::from_image(&dbutil::root_image());
    fs.record_journal(true);
    let mut sess = Session::new(fs.clone(), cfg);
    if let Err(e) = sess.open() {
        out.violate("C06/open-failed", json!({"error": e}));
        return;
    }
    let n_groups = rng.range(2, 6) as usize;
    let groups = make_groups(&mut rng, n_groups, false);
    let n_batches = rng.range(20, 90);
    let pad = rng.range(0, 60) as usize;
    for b in 0..n_batches {
        watch::tick();
        let g = &groups[rng.usize_below(groups.len())];
        let delete = rng.chance(0.12);
        let ops: Vec<WriteOp> = g.keys.iter().map(|k| {
            if delete {
                (k.clone(), None)
            } else {
                let mut v = format!("t{b}:").into_bytes();
                v.extend(std::iter::repeat(b'.').take(pad));
                (k.clone(), Some(v))
            }
        }).collect();
        if let Err(e) = sess.write(ops) {
            out.inconclusive(format!("degenerate: write refused: {e}"));
            return;
        }
    }
    sess.wait_quiescent(Duration::from_secs(10));
    sess.close();
    let journal = fs.take_journal();
    let mut points: BTreeSet<usize> = BTreeSet::new();
    for (i, e) in journal.iter().enumerate() {
        let wal_created = match &e.op {
            JOp::CreateTrunc(p) | JOp::OpenAppend(p) => classify(p) == PathClass::Wal,
            _ => false,
        };
        if wal_created {
            for d in 1..=4 {
                if i + d <= journal.len() {
                    points.insert(i + d);
                }
            }
        }
    }
    let mut points: Vec<usize> = points.into_iter().collect();
    let budget = if tier == "quick" { 16 } else { 64 };
    while points.len() > budget {
        let i = rng.usize_below(points.len());
        points.remove(i);
    }
    let ctx = json!({"family": "recovered-image", "config": cfg.describe(), "groups": groups.len(), "batches": n_batches, "journal_calls": journal.len()});
    let view = |s2: &Session, when: &str, k: usize, out: &mut CaseOut| -> bool {
        for (gi, g) in groups.iter().enumerate() {
            // gets at one snapshot
            let snapshot = s2.db().get_snapshot();
            let mut tags = BTreeSet::new();
            let mut seen = vec![];
            let mut failed = false;
            for key in &g.keys {
                let tag = match s2.get_at(Some(&snapshot), key) {
                    Ok(Some(v)) => tag_of(&v),
                    Ok(None) => "∅".to_string(),
                    Err(_) => {
                        failed = true;
                        break;
                    }
                };
                seen.push(format!("{}={}", show(key), tag));
                tags.insert(tag);
            }
            s2.db().release_snapshot(snapshot);
            out.add("recovered_views", 1);
            if !failed && tags.len() > 1 {
                out.violate(format!("C06/partial-batch-visible/snapshot-gets/{when}"), json!({"ctx": ctx, "crash_after_call": k, "group": gi, "tags_seen": tags, "keys": seen}));
                return false;
            }
            // one iterator scan
            if let Ok(entries) = s2.scan(None) {
                let prefix = format!("g{gi}-").into_bytes();
                let present: std::collections::BTreeMap<&Vec<u8>, String> = entries.iter().filter(|(k, _)| k.starts_with(&prefix)).map(|(k, v)| (k, tag_of(v))).collect();
                let tags: BTreeSet<String> = g.keys.iter().map(|k| present.get(k).cloned().unwrap_or_else(|| "∅".to_string())).collect();
                out.add("recovered_views", 1);
                if tags.len() > 1 {
                    out.violate(format!("C06/partial-batch-visible/iterator/{when}"), json!({"ctx": ctx, "crash_after_call": k, "group": gi, "tags_seen": tags}));
                    return false;
                }
            }
        }
        true
    };
    let mut replayer = Replayer::new(&dbutil::root_image());
    let mut images = 0u64;
    for (i, e) in journal.iter().enumerate() {
        replayer.step(e);
        if !points.contains(&(i + 1)) {
            continue;
        }
        watch::tick();
        let image = replayer.image();
        let wal_sizes: Vec<usize> = image.files.iter().filter(|(p, _)| classify(p) == PathClass::Wal).map(|(_, b)| b.len()).collect();
        let empty_newest_wal = wal_sizes.len() >= 2 && wal_sizes.iter().any(|s| *s == 0);
        let mut s2 = Session::new(SimFs::from_image(&image), Config { reuse: rng.chance(0.5), ..cfg });
        if s2.open().is_err() {
            out.add("recovered_open_errors", 1);
            continue;
        }
        images += 1;
        let mut ok = view(&s2, "after-recovery", i + 1, out);
        for step in 0..6 {
            if !ok {
                break;
            }
            if s2.put(b"zz-filler", format!("f{step}").as_bytes()).is_err() {
                break;
            }
            ok = view(&s2, "after-recovery-and-later-writes", i + 1, out);
        }
        s2.close();
        if empty_newest_wal {
            out.nontrivial(format!("recovered/{}-wals-newest-empty/mem{}", wal_sizes.len().min(3), cfg.memtable));
        } else {
            out.nontrivial(format!("recovered/{}-wals/mem{}", wal_sizes.len().min(3), cfg.memtable));
        }
        if out.is_violated() {
            break;
        }
    }
    out.add("recovered_images", images);
    out.sample = Some(json!({"family": "recovered-image", "ctx": ctx, "crash_points": points.len(), "images_recovered": images}));
}

pub fn run_case(tier: &str, seed: u64, idx: u64) -> CaseOut {
    let mut out = CaseOut::new();
    let nf = n_forced(tier);
    let np = n_perturbed(tier);
    if idx < nf {
        case_forced(&mut out, seed, idx);
    } else if idx < nf + np {
        case_perturbed(&mut out, tier, seed, idx - nf);
    } else {
        case_recovered(&mut out, tier, seed, idx - nf - np);
    }
    out
}
