//! C08 — I/O failures are reported, never swallowed; nothing acknowledged is lost.
//!
//! One case = one single-client history run with exactly one injected filesystem fault (one call
//! position, transient or sticky). Writes are recorded as Ok / failed; reads during the fault must
//! be an error or a value the Ok/failed record allows; after the fault is removed and the database
//! reopened every Ok write must be there and failed batches must be all-or-nothing.

use std::collections::{BTreeMap, BTreeSet};

use serde_json::json;

use crate::director::director;
use crate::gen::{self, Config, KeyFamily, ValueMix};
use crate::report::{show, CaseOut};
use crate::rng::{mix, Rng};
use crate::session::{Session, WriteOp};
use crate::simfs::{Fault, FaultMode, OpKind, PathClass, SimFs};
use crate::{dbutil, watch};

const HISTORIES: u64 = 4;
const SINGLE_QUICK: u64 = 1600;
const SINGLE_THOROUGH: u64 = 12000;

pub fn plan(tier: &str) -> u64 {
    match tier {
        "quick" => SINGLE_QUICK + 240,
        _ => SINGLE_THOROUGH + 1800,
    }
}

#[derive(Clone, Debug, Default)]
struct KeyState {
    /// value after the last write that returned Ok (None = absent)
    base: Option<Vec<u8>>,
    /// values of failed writes since then (each may or may not have taken effect)
    maybe: Vec<Option<Vec<u8>>>,
}

#[derive(Default)]
struct TriModel {
    keys: BTreeMap<Vec<u8>, KeyState>,
    /// failed batches: (position, ops)
    failed: Vec<(usize, Vec<WriteOp>)>,
    position: usize,
    last_touch: BTreeMap<Vec<u8>, usize>,
}

impl TriModel {
    fn record(&mut self, ops: &[WriteOp], ok: bool) {
        self.position += 1;
        for (k, v) in ops {
            let st = self.keys.entry(k.clone()).or_default();
            if ok {
                st.base = v.clone();
                st.maybe.clear();
            } else {
                st.maybe.push(v.clone());
            }
            self.last_touch.insert(k.clone(), self.position);
        }
        if !ok && ops.len() > 1 {
            self.failed.push((self.position, ops.to_vec()));
        }
    }
    fn allowed(&self, key: &[u8], got: &Option<Vec<u8>>) -> bool {
        match self.keys.get(key) {
            None => got.is_none(),
            Some(st) => st.base == *got || st.maybe.iter().any(|m| m == got),
        }
    }
    fn expected_desc(&self, key: &[u8]) -> String {
        match self.keys.get(key) {
            None => "<absent>".into(),
            Some(st) => format!(
                "{} (or, from failed writes: {})",
                st.base.as_ref().map_or("<absent>".to_string(), |v| show(v)),
                st.maybe.iter().map(|m| m.as_ref().map_or("<absent>".to_string(), |v| show(v))).collect::<Vec<_>>().join(" | ")
            ),
        }
    }
}

/// The fault positions worth trying, from a pilot run's call counts.
fn positions(counts: &BTreeMap<(OpKind, PathClass), u64>, thorough: bool) -> Vec<(OpKind, PathClass, u64)> {
    let mut out = vec![];
    for ((kind, class), n) in counts {
        if matches!(kind, OpKind::IsDir | OpKind::Lock | OpKind::Mkdir | OpKind::RemoveDir) {
            continue;
        }
        let n = *n;
        let mut occ: BTreeSet<u64> = BTreeSet::new();
        if thorough {
            let steps = 24u64.min(n);
            for i in 0..steps {
                occ.insert(i * n / steps);
            }
            occ.insert(n - 1);
            occ.insert(1.min(n - 1));
        } else {
            occ.insert(0);
            occ.insert(1.min(n - 1));
            occ.insert(n / 2);
            occ.insert(n - 1);
            if n > 6 {
                occ.insert(n / 4);
                occ.insert(3 * n / 4);
            }
        }
        for o in occ {
            out.push((*kind, *class, o));
        }
    }
    out
}

struct Script {
    cfg: Config,
    pool: Vec<Vec<u8>>,
    ops: Vec<ScriptOp>,
    /// index of the operation before which the fault is armed (occurrences are counted from
    /// there); None = armed from the very beginning
    arm_at: Option<usize>,
    /// a failing write applies the first half of its bytes before reporting the error
    short_writes: bool,
    /// after the run, replay its file-system calls against the file systems raindb ships
    replay_on_shipped_file_systems: bool,
    /// arm the fault when the database itself reports that it enters a phase: (note, phase, k) =
    /// at the k-th note of that name whose arguments match the phase (see `phase_matches`)
    arm_on_note: Option<(&'static str, u64, u64)>,
    /// creations of write-ahead logs take 12 ms and every merge step 0.15-0.3 ms
    slow_wal_creation: bool,
}

#[derive(Clone)]
enum ScriptOp {
    Write(Vec<WriteOp>),
    Get(Vec<u8>),
    Compact,
    Reopen(Config),
}

/// A script whose WAL lives long: a 4 MiB memtable, a short first session, a reopen (where the
/// WAL is taken over for appends), then ~2 MB of 300-700 byte records into the same WAL - about a
/// hundred 32 KiB block boundaries are crossed at all alignments - and a final reopen.
fn make_long_wal_script(seed: u64) -> Script {
    let mut rng = Rng::new(mix(&[seed], "c08-long-wal"));
    let cfg = Config { memtable: 4 << 20, file: 2 << 20, block: 4096, reuse: true };
    let pool = gen::key_pool(&mut rng, KeyFamily::Ascii, 400);
    let mut ops = vec![];
    let mut counter = 0u64;
    for _ in 0..40 {
        counter += 1;
        ops.push(ScriptOp::Write(vec![(rng.pick(&pool).clone(), Some(gen::tagged_value(&mut rng, &format!("v{counter}:"), 200)))]));
    }
    let arm_at = ops.len();
    ops.push(ScriptOp::Reopen(cfg));
    for i in 0..4000u64 {
        counter += 1;
        let len = rng.range(300, 700) as usize;
        ops.push(ScriptOp::Write(vec![(rng.pick(&pool).clone(), Some(gen::tagged_value(&mut rng, &format!("v{counter}:"), len)))]));
        if i % 500 == 250 {
            ops.push(ScriptOp::Get(rng.pick(&pool).clone()));
        }
    }
    ops.push(ScriptOp::Reopen(cfg));
    for _ in 0..20 {
        ops.push(ScriptOp::Get(rng.pick(&pool).clone()));
    }
    Script { cfg, pool, ops, arm_at: Some(arm_at), short_writes: false, replay_on_shipped_file_systems: false, arm_on_note: None, slow_wal_creation: false }
}

/// A compaction over cold tables: four sessions without log reuse each leave one level-0 table
/// (the write-ahead log is converted at the next open), then the database is reopened once more -
/// nothing is in the table cache - and the whole range is compacted with the fault armed for
/// exactly that call; every key is read afterwards, and again after a fault-free reopen.
fn make_cold_compaction_script(seed: u64) -> Script {
    let mut rng = Rng::new(mix(&[seed], "c08-cold-compaction"));
    let cfg = Config { memtable: 64 * 1024, file: *rng.pick(&[1024u64, 4096]), block: 256, reuse: false };
    let pool = gen::key_pool(&mut rng, KeyFamily::Ascii, 30);
    let mut ops = vec![];
    let mut counter = 0u64;
    for _ in 0..4 {
        for _ in 0..rng.range(8, 20) {
            let k = rng.pick(&pool).clone();
            if rng.chance(0.2) {
                ops.push(ScriptOp::Write(vec![(k, None)]));
            } else {
                counter += 1;
                ops.push(ScriptOp::Write(vec![(k, Some(gen::tagged_value(&mut rng, &format!("v{counter}:"), 60)))]));
            }
        }
        ops.push(ScriptOp::Reopen(cfg));
    }
    let arm_at = ops.len();
    ops.push(ScriptOp::Compact);
    for k in &pool {
        ops.push(ScriptOp::Get(k.clone()));
    }
    counter += 1;
    ops.push(ScriptOp::Write(vec![(pool[0].clone(), Some(gen::tagged_value(&mut rng, &format!("v{counter}:"), 60)))]));
    ops.push(ScriptOp::Compact);
    for k in &pool {
        ops.push(ScriptOp::Get(k.clone()));
    }
    Script { cfg, pool, ops, arm_at: Some(arm_at), short_writes: false, replay_on_shipped_file_systems: false, arm_on_note: None, slow_wal_creation: false }
}

/// A write-ahead log that goes on living after a failed call: the memtable budget is large enough
/// that nothing rotates, the fault is armed for one write in the middle of the session (every call
/// that write makes, transient or sticky, every other failing write a short one), and the session
/// continues with puts, deletes, batches and reads into the same log. Whatever the later calls were
/// told must be true after the reopen: bytes left behind by the failed append must not take
/// acknowledged records behind them out of reach.
fn make_midlife_wal_fault_script(seed: u64) -> Script {
    let mut rng = Rng::new(mix(&[seed], "c08-midlife-wal"));
    let cfg = Config { memtable: 1 << 20, file: 2 << 20, block: 4096, reuse: rng.chance(0.5) };
    let pool = gen::key_pool(&mut rng, KeyFamily::Ascii, 30);
    let mut ops = vec![];
    let mut counter = 0u64;
    let some_write = |rng: &mut Rng, counter: &mut u64| -> ScriptOp {
        *counter += 1;
        let roll = rng.below(10);
        if roll < 6 {
            let len = rng.range(20, 400) as usize;
            ScriptOp::Write(vec![(rng.pick(&pool).clone(), Some(gen::tagged_value(rng, &format!("v{counter}:"), len)))])
        } else if roll < 8 {
            ScriptOp::Write(vec![(rng.pick(&pool).clone(), None)])
        } else {
            let n = rng.range(2, 6);
            ScriptOp::Write((0..n).map(|i| (pool[((*counter + i) % 30) as usize].clone(), Some(gen::tagged_value(rng, &format!("b{counter}.{i}:"), 40)))).collect())
        }
    };
    for _ in 0..rng.range(5, 40) {
        ops.push(some_write(&mut rng, &mut counter));
    }
    let arm_at = ops.len();
    // the armed write: sometimes larger than a log block, so that it is written as several fragments
    counter += 1;
    let len = if rng.chance(0.3) { rng.range(33_000, 70_000) as usize } else { rng.range(20, 400) as usize };
    ops.push(ScriptOp::Write(vec![(rng.pick(&pool).clone(), Some(gen::tagged_value(&mut rng, &format!("v{counter}:"), len)))]));
    for i in 0..rng.range(20, 60) {
        ops.push(some_write(&mut rng, &mut counter));
        if i % 5 == 4 {
            ops.push(ScriptOp::Get(rng.pick(&pool).clone()));
        }
    }
    Script { cfg, pool, ops, arm_at: Some(arm_at), short_writes: false, replay_on_shipped_file_systems: false, arm_on_note: None, slow_wal_creation: false }
}

fn make_script(history: u64, seed: u64, n_ops: usize) -> Script {
    if history == 6 {
        return make_midlife_wal_fault_script(seed);
    }
    if history == 4 {
        return make_long_wal_script(seed);
    }
    if history == 5 {
        return make_cold_compaction_script(seed);
    }
    let mut rng = Rng::new(mix(&[seed, history], "c08-script"));
    let cfg = Config {
        memtable: *rng.pick(&[256usize, 512, 1024]),
        file: *rng.pick(&[512u64, 1024, 2048]),
        block: *rng.pick(&[64usize, 256]),
        reuse: history % 2 == 0,
    };
    let pool = gen::key_pool(&mut rng, KeyFamily::Ascii, 40);
    let mut ops = vec![];
    let mut counter = 0u64;
    for _ in 0..n_ops {
        let roll = rng.below(100);
        if roll < 55 {
            counter += 1;
            ops.push(ScriptOp::Write(vec![(rng.pick(&pool).clone(), Some(gen::value(&mut rng, ValueMix::Small, &format!("v{counter}:"))))]));
        } else if roll < 65 {
            ops.push(ScriptOp::Write(vec![(rng.pick(&pool).clone(), None)]));
        } else if roll < 75 {
            let n = rng.range(2, 12);
            let mut b = vec![];
            let mut used = BTreeSet::new();
            for _ in 0..n {
                let k = rng.pick(&pool).clone();
                if !used.insert(k.clone()) {
                    continue;
                }
                counter += 1;
                b.push((k, Some(gen::value(&mut rng, ValueMix::Small, &format!("b{counter}:")))));
            }
            ops.push(ScriptOp::Write(b));
        } else if roll < 92 {
            ops.push(ScriptOp::Get(rng.pick(&pool).clone()));
        } else if roll < 96 {
            ops.push(ScriptOp::Compact);
        } else {
            ops.push(ScriptOp::Reopen(Config { reuse: rng.chance(0.5), ..cfg }));
        }
    }
    Script { cfg, pool, ops, arm_at: None, short_writes: false, replay_on_shipped_file_systems: false, arm_on_note: None, slow_wal_creation: false }
}

/// Phases a fault can be tied to. 0: an automatic compaction that is a trivial move; 1: a manual
/// compaction; 2: an automatic merging compaction; 3: a memtable rotation; 4: a garbage collection
/// with something to delete; 5: an immutable memtable has just been dropped (its flush is installed).
const PHASES: [(&str, &str); 6] = [
    ("compaction.pick", "trivial-move"),
    ("compaction.pick", "manual-compaction"),
    ("compaction.pick", "automatic-merging-compaction"),
    ("mem.rotate", "memtable-rotation"),
    ("gc.plan", "garbage-collection"),
    ("imm.drop", "flush-installed"),
];

fn phase_matches(phase: u64, args: &[u64]) -> bool {
    let a = |i: usize| args.get(i).copied().unwrap_or(0);
    match phase {
        0 => a(4) == 1,
        1 => a(3) == 1,
        2 => a(3) == 0 && a(4) == 0,
        4 => a(0) > 0,
        _ => true,
    }
}

/// The calls worth failing right after a phase has been announced.
fn phase_calls(phase: u64) -> Vec<(OpKind, PathClass)> {
    use OpKind::*;
    match phase {
        0 => vec![(Write, PathClass::Manifest), (Flush, PathClass::Manifest)],
        // (the creation of a write-ahead log while a compaction is merging is a memtable rotation that overlaps it)
        1 | 2 => vec![(CreateTrunc, PathClass::Table), (Write, PathClass::Table), (Flush, PathClass::Table), (OpenRead, PathClass::Table),
            (Read, PathClass::Table), (Write, PathClass::Manifest), (Flush, PathClass::Manifest), (Remove, PathClass::Table), (CreateTrunc, PathClass::Wal), (CreateTrunc, PathClass::Wal)],
        3 => vec![(Write, PathClass::Wal), (Flush, PathClass::Wal), (CreateTrunc, PathClass::Table), (Write, PathClass::Table), (Write, PathClass::Manifest),
            (Flush, PathClass::Manifest), (Remove, PathClass::Wal)],
        4 => vec![(Remove, PathClass::Table), (Remove, PathClass::Wal), (Write, PathClass::Wal)],
        _ => vec![(Remove, PathClass::Wal), (List, PathClass::Dir), (Write, PathClass::Wal), (CreateTrunc, PathClass::Wal)],
    }
}

/// A fault tied to a phase of the background work instead of to a call count: the database's own
/// notes (compaction picked - trivial move, manual, merging -, memtable rotated, garbage collection
/// planned, immutable memtable dropped) arm it, so the failing call is the n-th call of its kind
/// *inside* that phase - positions the occurrence sampling of the single-fault runs reaches only by
/// luck (a manifest write of a trivial move is one manifest write in dozens).
fn case_phase_fault(out: &mut CaseOut, tier: &str, seed: u64, j: u64) {
    let mut rng = Rng::new(mix(&[seed, j], "c08-phase-fault"));
    let phase = [0u64, 1, 2, 3, 4, 5, 0, 2][(j % 8) as usize];
    let (note, phase_name) = PHASES[phase as usize];
    let mut script = make_script(rng.below(HISTORIES), seed, if tier == "quick" { 150 } else { 220 });
    let calls = phase_calls(phase);
    let (kind, class) = *rng.pick(&calls);
    let k = rng.range(1, 3);
    let nth = rng.below(2);
    let mode = *rng.pick(&[FaultMode::Transient, FaultMode::Transient, FaultMode::StickySame, FaultMode::StickyAll]);
    script.arm_on_note = Some((note, phase, k));
    // a failing creation of a write-ahead log is made slow, and so is the merge it overlaps: whatever the
    // compaction thread does in the meantime (opening outputs, taking file numbers) falls inside the failing call
    script.slow_wal_creation = (kind, class) == (OpKind::CreateTrunc, PathClass::Wal);
    script.short_writes = kind == OpKind::Write && rng.chance(0.5);
    let fault = Fault { kind, class, nth, mode, after_effect: false };
    let ctx = json!({"family": "fault-tied-to-a-phase", "phase": phase_name, "armed_at_occurrence_of_phase": k, "config": script.cfg.describe(),
        "failing_write_is_short": script.short_writes, "slow_wal_creation_and_merge": script.slow_wal_creation,
        "fault": {"call": kind.name(), "on": class.name(), "occurrence_after_phase_began": nth, "mode": mode.name()}});
    let result = run_script(out, &script, Some(fault), &ctx);
    let fired = out.obs.get("faults_fired").copied().unwrap_or(0) > 0;
    out.add("phase_fault_runs", 1);
    if let Some(r) = result {
        if fired {
            out.add(&format!("phase_fault_fired.{phase_name}.{}.{}", kind.name(), class.name()), 1);
            if r.ops_after_fault > 0 {
                out.nontrivial(format!("phase/{phase_name}/{}/{}/{}", kind.name(), class.name(), mode.name()));
            }
        } else {
            out.add("phase_fault_not_reached", 1);
        }
    }
    out.sample = Some(json!({"family": "fault-tied-to-a-phase", "ctx": ctx, "fault_fired": fired}));
}

struct RunResult {
    /// calls per (kind, class) from the arming point to the end of the armed operation (for
    /// scripts that arm late) or over the whole run
    counts: BTreeMap<(OpKind, PathClass), u64>,
    ops_after_fault: u64,
}

fn run_script(out: &mut CaseOut, script: &Script, fault: Option<Fault>, ctx: &serde_json::Value) -> Option<RunResult> {
    let d = director();
    d.reset(7);
    let fs = SimFs::from_image(&dbutil::root_image());
    fs.set_short_writes(script.short_writes);
    if script.slow_wal_creation {
        fs.set_delay(Some(std::sync::Arc::new(|kind, class| {
            if kind == OpKind::CreateTrunc && class == PathClass::Wal { Some(std::time::Duration::from_millis(12)) } else { None }
        })));
        d.set_delay("compact.step", crate::director::Delay { probability: 1.0, min_us: 150, max_us: 300 });
    }
    fs.record_journal(fault.is_some() && script.replay_on_shipped_file_systems);
    if script.arm_at.is_none() && script.arm_on_note.is_none() {
        fs.arm_fault(fault.clone());
    }
    let phase_seen = std::sync::Arc::new(std::sync::atomic::AtomicU64::new(0));
    // false once the fault has been taken away for good: a phase that begins later must not arm it again
    let arming_allowed = std::sync::Arc::new(parking_lot::Mutex::new(true));
    if let (Some((note, phase, k)), Some(f)) = (script.arm_on_note, fault.clone()) {
        // the note is emitted by the thread that is about to do the phase's file-system calls (under
        // the database mutex), so 'the n-th such call after the note' is a position inside that phase
        let (fs2, seen, allowed) = (fs.clone(), std::sync::Arc::clone(&phase_seen), std::sync::Arc::clone(&arming_allowed));
        d.on_note(note, std::sync::Arc::new(move |args: &[u64]| {
            if phase_matches(phase, args) && seen.fetch_add(1, std::sync::atomic::Ordering::SeqCst) + 1 == k {
                let allowed = allowed.lock();
                if *allowed {
                    fs2.arm_fault(Some(f.clone()));
                }
            }
        }));
    }
    let mut counts_in_window: Option<BTreeMap<(OpKind, PathClass), u64>> = None;
    let mut sess = Session::new(fs.clone(), script.cfg);
    sess.fill_cache = false;
    let mut model = TriModel::default();
    let mut ops_after_fault = 0u64;
    let judged_fault = fault.is_some();

    // open, retrying through the fault
    let mut open_db = |sess: &mut Session, out: &mut CaseOut, fs: &SimFs| -> bool {
        for attempt in 0..3 {
            match sess.open() {
                Ok(()) => return true,
                Err(e) => {
                    out.add("open_errors_during_fault", 1);
                    if fs.fault_fired().0 == 0 {
                        out.violate("C08/open-failed-without-any-fault-fired", json!({"ctx": ctx, "error": e, "attempt": attempt}));
                        return false;
                    }
                }
            }
        }
        // the fault keeps the database from opening: remove it, then it must open
        *arming_allowed.lock() = false;
        fs.arm_fault(None);
        match sess.open() {
            Ok(()) => true,
            Err(e) => {
                out.violate("C08/open-failed-after-fault-removed", json!({"ctx": ctx, "error": e, "files": fs.image().listing()}));
                false
            }
        }
    };
    if !open_db(&mut sess, out, &fs) {
        return None;
    }
    for (opi, op) in script.ops.iter().enumerate() {
        watch::tick();
        let window = script.arm_at == Some(opi);
        if window {
            fs.reset_call_counts();
            fs.arm_fault(fault.clone());
        }
        if script.arm_at.map_or(false, |a| opi == a + 1) && counts_in_window.is_none() {
            counts_in_window = Some(fs.call_counts());
        }
        if fs.fault_fired().0 > 0 {
            ops_after_fault += 1;
        }
        match op {
            ScriptOp::Write(ops) => {
                let ok = sess.write(ops.clone()).is_ok();
                model.record(ops, ok);
                out.add(if ok { "writes_ok" } else { "writes_failed" }, 1);
            }
            ScriptOp::Get(k) => match sess.get(k) {
                Err(_) => out.add("reads_failed", 1),
                Ok(got) => {
                    out.add("reads_ok", 1);
                    if !model.allowed(k, &got) {
                        let class = if got.is_none() { "key-not-found" } else { "older-or-foreign-value" };
                        out.violate(
                            format!("C08/ok-write-not-visible-while-fault-armed/{class}"),
                            json!({"ctx": ctx, "key": show(k), "got": got.as_ref().map(|v| show(v)), "allowed": model.expected_desc(k),
                                "fault_fired": fs.fault_fired().0, "sticky_state": sess.bad_state(), "recent_ops": sess.recent_ops(10)}),
                        );
                        sess.close();
                        return None;
                    }
                }
            },
            ScriptOp::Compact => sess.compact(None, None),
            ScriptOp::Reopen(cfg) => {
                sess.close();
                sess.cfg = *cfg;
                if !open_db(&mut sess, out, &fs) {
                    return None;
                }
                out.add("reopens", 1);
            }
        }
    }
    let counts = counts_in_window.unwrap_or_else(|| fs.call_counts());
    let (fired, _) = fs.fault_fired();
    out.add("faults_fired", (fired > 0) as u64);
    // the fault is gone; reopen and judge the durable state
    *arming_allowed.lock() = false;
    fs.arm_fault(None);
    sess.close();
    if let Err(e) = sess.open() {
        out.violate("C08/open-failed-after-fault-removed", json!({"ctx": ctx, "error": e, "files": fs.image().listing()}));
        return None;
    }
    let mut probes: BTreeSet<Vec<u8>> = script.pool.iter().cloned().collect();
    probes.extend(model.keys.keys().cloned());
    let mut after: BTreeMap<Vec<u8>, Option<Vec<u8>>> = BTreeMap::new();
    for k in &probes {
        match sess.get(k) {
            Err(e) => {
                out.violate("C08/read-error-after-fault-removed-and-reopen", json!({"ctx": ctx, "key": show(k), "error": e}));
                sess.close();
                return None;
            }
            Ok(got) => {
                if !model.allowed(k, &got) {
                    let class = if model.keys.get(k).map_or(false, |s| s.base.is_some()) && got.is_none() { "ok-write-lost" } else { "ok-write-replaced" };
                    out.violate(
                        format!("C08/after-reopen/{class}"),
                        json!({"ctx": ctx, "key": show(k), "got": got.as_ref().map(|v| show(v)), "allowed": model.expected_desc(k)}),
                    );
                    sess.close();
                    return None;
                }
                after.insert(k.clone(), got);
            }
        }
    }
    // failed batches: all-or-nothing, judged on keys no later write touched
    for (pos, ops) in &model.failed {
        let mut applied = vec![];
        let mut not_applied = vec![];
        for (k, v) in ops {
            // only values long enough to carry their unique tag identify "this batch was applied"
            if model.last_touch.get(k) != Some(pos) || v.as_ref().map_or(true, |v| v.len() < 8) {
                continue;
            }
            if after.get(k).map(|g| g == v).unwrap_or(false) {
                applied.push(show(k));
            } else {
                not_applied.push(show(k));
            }
        }
        if !applied.is_empty() && !not_applied.is_empty() {
            out.violate(
                "C08/after-reopen/failed-batch-applied-partially",
                json!({"ctx": ctx, "batch_position": pos, "keys_applied": applied, "keys_not_applied": not_applied}),
            );
        }
    }
    // scan must agree with the gets
    match sess.scan(None) {
        Ok(entries) => {
            let scanned: BTreeMap<Vec<u8>, Vec<u8>> = entries.into_iter().collect();
            for (k, got) in &after {
                if scanned.get(k) != got.as_ref() {
                    out.violate("C08/after-reopen/scan-disagrees-with-get", json!({"ctx": ctx, "key": show(k)}));
                    break;
                }
            }
        }
        Err(e) => out.violate("C08/scan-error-after-fault-removed-and-reopen", json!({"ctx": ctx, "error": e})),
    }
    sess.close();
    let _ = judged_fault;
    if fault.is_some() && script.replay_on_shipped_file_systems {
        replay_on_shipped_file_systems(out, &fs, ctx);
    }
    Some(RunResult { counts, ops_after_fault })
}

/// The file systems raindb ships (disk-backed `OsFileSystem` and `TmpFileSystem`, and the in-memory
/// one) are given the very calls this run made - a run with a failed call, orphan files, re-used
/// file numbers and a recovery in it - and must end in the state the reference model ends in. With
/// that, what the fault runs establish on the simulated file system carries over to the real ones.
fn replay_on_shipped_file_systems(out: &mut CaseOut, fs: &SimFs, ctx: &serde_json::Value) {
    use raindb::fs::{FileSystem, InMemoryFileSystem, OsFileSystem, TmpFileSystem};
    use std::path::{Path, PathBuf};
    let journal = fs.take_journal();
    fs.record_journal(false);
    let bytes: usize = journal.iter().map(|e| if let crate::simfs::JOp::Write { data, .. } = &e.op { data.len() } else { 0 }).sum();
    if journal.is_empty() || bytes > 8 << 20 {
        return;
    }
    static NEXT: std::sync::atomic::AtomicU64 = std::sync::atomic::AtomicU64::new(0);
    let scratch = std::env::temp_dir().join(format!("rdbmon-c08-{}-{}", std::process::id(), NEXT.fetch_add(1, std::sync::atomic::Ordering::Relaxed)));
    let _ = std::fs::remove_dir_all(&scratch);
    if std::fs::create_dir_all(scratch.join("os")).is_err() || std::fs::create_dir_all(scratch.join("tmp")).is_err() {
        out.inconclusive("could not create a scratch directory for the disk replay");
        return;
    }
    let base = dbutil::root_image();
    let relative = |p: &Path| -> PathBuf { p.strip_prefix("/").unwrap_or(p).to_path_buf() };
    {
        let os_root = scratch.join("os");
        let os = OsFileSystem::new();
        let tmp = TmpFileSystem::new(Some(&scratch.join("tmp")));
        let mem = InMemoryFileSystem::new();
        let targets: Vec<(&dyn FileSystem, Box<dyn Fn(&Path) -> PathBuf>)> = vec![
            (&os, Box::new(move |p: &Path| os_root.join(relative(p)))),
            (&tmp, Box::new(move |p: &Path| relative(p))),
            (&mem, Box::new(|p: &Path| p.to_path_buf())),
        ];
        for (target, map) in targets {
            let report = crate::simfs::replay_for_conformance(target, &*map, &base, &journal);
            out.add("conformance_replays", 1);
            out.add("conformance_ops_replayed", report.ops_replayed);
            out.add("conformance_files_compared", report.files_compared);
            out.add("conformance_truncating_creates_of_nonempty_files", report.truncating_creates_of_nonempty_files);
            out.add("conformance_renames_over_existing", report.renames_over_existing);
            out.add("conformance_recreated_files_that_stayed_shorter", report.recreated_files_that_stayed_shorter);
            if report.truncating_creates_of_nonempty_files > 0 {
                out.nontrivial(format!("conformance/{}/re-created-a-nonempty-file{}", target.get_name(), if report.recreated_files_that_stayed_shorter > 0 { "/that-stayed-shorter" } else { "" }));
            }
            for (what, detail) in report.divergences.iter().take(2) {
                out.violate(format!("C08/shipped-file-system-diverges-from-the-model/{}/{what}", target.get_name()), json!({"ctx": ctx, "file_system": target.get_name(), "detail": detail,
                    "journal_entries": journal.len(), "note": "the calls of this fault run, replayed against the file system raindb ships, leave a different state than the reference file system the run was judged on"}));
            }
        }
    }
    let _ = std::fs::remove_dir_all(&scratch);
}

/// Group commit under a failing write-ahead log: a leader is parked before its WAL append, 2-5
/// more writers (three unique keys each) queue behind it, the next leader commits them as one group
/// and the append (or its flush) of exactly that group - or of the parked leader itself - fails.
/// Every writer must receive its own outcome: an `Ok` means the three keys are readable now and
/// after the fault is gone and the database reopened; an error means all-or-nothing.
fn case_group_fault(out: &mut CaseOut, seed: u64, idx: u64) {
    use crate::director::{set_role, ANY};
    use raindb::{Batch, WriteOptions};
    use std::time::Duration;
    let mut rng = Rng::new(mix(&[seed, idx], "c08-group"));
    let d = director();
    d.reset(rng.next_u64());
    let cfg = Config { memtable: *rng.pick(&[4096usize, 65536]), file: 4096, block: 256, reuse: rng.chance(0.5) };
    let fs = SimFs::from_image(&dbutil::root_image());
    let mut sess = Session::new(fs.clone(), cfg);
    sess.fill_cache = false;
    if let Err(e) = sess.open() {
        out.violate("C08/open-failed-without-any-fault-fired", json!({"error": e}));
        return;
    }
    for i in 0..rng.range(0, 20) {
        let _ = sess.put(format!("pre{i:02}").as_bytes(), format!("p{i}-value").as_bytes());
    }
    let fail_group = idx % 3 != 0; // otherwise the parked leader's own append fails
    let kind = if idx % 2 == 0 { OpKind::Write } else { OpKind::Flush };
    let mode = [FaultMode::Transient, FaultMode::StickySame, FaultMode::StickyAll][(idx / 6 % 3) as usize];
    let n_followers = rng.range(2, 6) as u32;
    let synchronous = rng.chance(0.3);
    let db = sess.db_arc();
    let spawn_writer = |role: u32| {
        let db = std::sync::Arc::clone(&db);
        std::thread::Builder::new().name(format!("c08-writer-{role}")).spawn(move || {
            set_role(role);
            let mut batch = Batch::new();
            for j in 0..3 {
                batch.add_put(format!("w{role}-k{j}").into_bytes(), format!("w{role}-value-{j}-unique").into_bytes());
            }
            let _g = watch::enter("apply(group member)");
            let r = db.apply(WriteOptions { synchronous: synchronous && role % 2 == 0 }, batch);
            drop(db);
            r.map_err(|e| e.to_string())
        }).unwrap()
    };
    let gate1 = d.arm(1, "write.before_wal", 1);
    let leader = spawn_writer(1);
    let mut ctx = json!({"family": "group-commit-under-fault", "config": cfg.describe(), "followers": n_followers,
        "fault": {"call": kind.name(), "on": "wal", "mode": mode.name(), "hits": if fail_group { "the group formed behind the parked leader" } else { "the parked leader's own append" }}});
    if !d.wait_arrived(gate1, Duration::from_secs(10)) {
        d.release_all();
        let _ = leader.join();
        out.inconclusive("group-fault: the leader did not reach write.before_wal");
        sess.close();
        return;
    }
    let mut followers = vec![];
    for f in 0..n_followers {
        followers.push((2 + f, spawn_writer(2 + f)));
        std::thread::sleep(Duration::from_millis(2));
    }
    std::thread::sleep(Duration::from_millis(30));
    let fault = Fault { kind, class: PathClass::Wal, nth: 0, mode, after_effect: false };
    let mut group_ops = 0u64;
    if fail_group {
        // the next arrival at write.before_wal is the leader of the queued writers
        let gate2 = d.arm(ANY, "write.before_wal", 1);
        d.release(gate1);
        if d.wait_arrived(gate2, Duration::from_secs(10)) {
            group_ops = d.gate_args(gate2).get(1).copied().unwrap_or(0);
            fs.arm_fault(Some(fault));
        }
        d.release(gate2);
    } else {
        fs.arm_fault(Some(fault));
        d.release(gate1);
    }
    let mut results: Vec<(u32, Result<(), String>)> = vec![];
    results.push((1, leader.join().unwrap_or_else(|_| Err("writer panicked".into()))));
    for (role, h) in followers {
        results.push((role, h.join().unwrap_or_else(|_| Err("writer panicked".into()))));
    }
    drop(db);
    let fired = fs.fault_fired().0 > 0;
    ctx["group_ops_at_faulted_append"] = json!(group_ops);
    ctx["fault_fired"] = json!(fired);
    ctx["results"] = json!(results.iter().map(|(r, x)| format!("w{r}:{}", if x.is_ok() { "Ok".to_string() } else { "Err".to_string() })).collect::<Vec<_>>());
    out.add("group_fault_runs", 1);
    out.add("group_fault_fired", fired as u64);
    let judge = |out: &mut CaseOut, sess: &Session, when: &str| {
        for (role, r) in &results {
            let mut present = 0;
            let mut read_error = false;
            for j in 0..3 {
                match sess.get(format!("w{role}-k{j}").as_bytes()) {
                    Ok(Some(v)) if v == format!("w{role}-value-{j}-unique").into_bytes() => present += 1,
                    Ok(Some(v)) => {
                        out.violate(format!("C08/group-commit/foreign-value/{when}"), json!({"ctx": ctx, "writer": role, "got": show(&v)}));
                    }
                    Ok(None) => {}
                    Err(_) => read_error = true,
                }
            }
            if read_error {
                out.add("group_fault_read_errors", 1);
                continue;
            }
            if r.is_ok() && present != 3 {
                out.violate(format!("C08/group-commit/ok-write-not-visible/{when}"), json!({"ctx": ctx, "writer": role, "keys_visible": present}));
            } else if r.is_err() && present != 0 && present != 3 {
                out.violate(format!("C08/group-commit/failed-batch-applied-partially/{when}"), json!({"ctx": ctx, "writer": role, "keys_visible": present}));
            }
        }
    };
    judge(out, &sess, "while-fault-armed");
    fs.arm_fault(None);
    sess.close();
    match sess.open() {
        Err(e) => out.violate("C08/open-failed-after-fault-removed", json!({"ctx": ctx, "error": e, "files": fs.image().listing()})),
        Ok(()) => {
            judge(out, &sess, "after-reopen");
            sess.close();
        }
    }
    let oks = results.iter().filter(|(_, r)| r.is_ok()).count();
    if fired {
        let batches_in_group = if fail_group { (group_ops / 3).min(6) } else { 1 };
        out.nontrivial(format!("group-fault/{}/{}/{}/group-of-{}/oks{}", kind.name(), mode.name(), if fail_group { "group" } else { "leader" }, batches_in_group, oks.min(2)));
    } else {
        out.add("fault_not_reached", 1);
    }
    out.sample = Some(ctx);
}

/// A write fails while a manual compaction is in the middle of its merge (the compaction thread is
/// parked at compact.step with the database mutex released): the failed write puts the database
/// into its error state and wakes the thread that asked for the compaction, which gives up and
/// returns. The compaction thread must survive that, and the database must still close and reopen
/// with everything that was acknowledged.
fn case_fault_during_manual_compaction(out: &mut CaseOut, seed: u64, idx: u64) {
    use crate::director::{set_role, COMPACTOR};
    use std::time::Duration;
    let mut rng = Rng::new(mix(&[seed, idx], "c08-manual"));
    let d = director();
    d.reset(rng.next_u64());
    let cfg = Config { memtable: 64 * 1024, file: *rng.pick(&[1024u64, 4096]), block: 256, reuse: rng.chance(0.5) };
    let fs = SimFs::from_image(&dbutil::root_image());
    let mut sess = Session::new(fs.clone(), cfg);
    sess.fill_cache = false;
    if let Err(e) = sess.open() {
        out.violate("C08/open-failed-without-any-fault-fired", json!({"error": e}));
        return;
    }
    let pool = gen::key_pool(&mut rng, KeyFamily::Ascii, 60);
    let mut counter = 0u64;
    // two generations of every key, each compacted down: the next whole-range compaction merges
    for _ in 0..2 {
        for k in &pool {
            counter += 1;
            if sess.put(k, &gen::tagged_value(&mut rng, &format!("v{counter}:"), 50)).is_err() {
                out.inconclusive("degenerate: load refused");
                return;
            }
        }
        sess.compact(None, None);
    }
    for k in pool.iter().step_by(2) {
        counter += 1;
        let _ = sess.put(k, &gen::tagged_value(&mut rng, &format!("v{counter}:"), 50));
    }
    sess.wait_quiescent(Duration::from_secs(10));
    let kind = if idx % 2 == 0 { OpKind::Write } else { OpKind::Flush };
    let ctx = json!({"family": "fault-during-manual-compaction", "config": cfg.describe(), "fault": {"call": kind.name(), "on": "wal", "mode": "transient"}});
    let gate = d.arm(COMPACTOR, "compact.step", rng.range(2, 12));
    let db = sess.db_arc();
    let requester = std::thread::Builder::new().name("c08-compactor-client".into()).spawn(move || {
        set_role(2);
        let _g = watch::enter("compact_range(whole range)");
        db.compact_range(None..None);
        drop(db);
    }).unwrap();
    let parked = d.wait_arrived(gate, Duration::from_secs(10)) && sess.db().verif_probe().manual_compaction_pending;
    let mut failed_write = false;
    if parked {
        fs.arm_fault(Some(Fault { kind, class: PathClass::Wal, nth: 0, mode: FaultMode::Transient, after_effect: false }));
        failed_write = sess.put(b"zz-faulted-write", b"never-acknowledged-value").is_err();
        fs.arm_fault(None);
    }
    // the requester has been woken by the error state; give it a moment to withdraw its request
    std::thread::sleep(Duration::from_millis(rng.range(5, 40)));
    let withdrawn = !sess.db().verif_probe().manual_compaction_pending;
    d.release(gate);
    let _ = requester.join();
    out.add("manual_compaction_fault_runs", 1);
    // every acknowledged write is still readable; close and reopen work
    let mut probes = vec![];
    for k in &pool {
        probes.push((k.clone(), sess.model.get(k).cloned()));
    }
    for (k, expected) in &probes {
        match sess.get(k) {
            Ok(got) if got == *expected => {}
            Ok(got) => {
                out.violate("C08/fault-during-manual-compaction/ok-write-not-visible", json!({"ctx": ctx, "key": show(k), "got": got.as_ref().map(|v| show(v))}));
                break;
            }
            Err(_) => {}
        }
    }
    sess.close();
    match sess.open() {
        Err(e) => out.violate("C08/open-failed-after-fault-removed", json!({"ctx": ctx, "error": e, "files": fs.image().listing()})),
        Ok(()) => {
            for (k, expected) in &probes {
                match sess.get(k) {
                    Ok(got) if got == *expected => {}
                    Ok(got) => {
                        out.violate("C08/after-reopen/ok-write-lost", json!({"ctx": ctx, "key": show(k), "got": got.as_ref().map(|v| show(v))}));
                        break;
                    }
                    Err(e) => {
                        out.violate("C08/read-error-after-fault-removed-and-reopen", json!({"ctx": ctx, "key": show(k), "error": e}));
                        break;
                    }
                }
            }
            sess.close();
        }
    }
    if parked && failed_write {
        out.nontrivial(format!("manual-compaction-fault/{}/request-withdrawn{}", kind.name(), withdrawn as u8));
    } else {
        out.add("fault_not_reached", 1);
    }
    out.sample = Some(json!({"family": "fault-during-manual-compaction", "ctx": ctx, "worker_parked_mid_merge": parked, "write_failed": failed_write, "request_withdrawn_while_parked": withdrawn}));
}

/// A memtable flush nested inside a table compaction whose manifest record needs two log fragments
/// (keys of about 20 KiB make every file's key range larger than a 32 KiB log block) and the write
/// of the second fragment fails once. Whatever the compaction thread does afterwards, the manifest
/// has to stay readable: after close and a fault-free reopen every acknowledged write is there.
fn case_manifest_fault_in_nested_flush(out: &mut CaseOut, seed: u64, idx: u64) {
    use crate::director::{set_role, COMPACTOR};
    use std::time::Duration;
    let mut rng = Rng::new(mix(&[seed, idx], "c08-nested"));
    let d = director();
    d.reset(rng.next_u64());
    let cfg = Config { memtable: 96 * 1024, file: 64 * 1024, block: 4096, reuse: rng.chance(0.5) };
    let fs = SimFs::from_image(&dbutil::root_image());
    let mut sess = Session::new(fs.clone(), cfg);
    sess.fill_cache = false;
    if let Err(e) = sess.open() {
        out.violate("C08/open-failed-without-any-fault-fired", json!({"error": e}));
        return;
    }
    let long_key = |i: u64| -> Vec<u8> {
        let mut k = format!("key{i:03}-").into_bytes();
        k.resize(20 * 1024, b'a' + (i % 26) as u8);
        k
    };
    let mut counter = 0u64;
    let mut acked: std::collections::BTreeMap<Vec<u8>, Vec<u8>> = Default::default();
    let mut put = |sess: &mut Session, i: u64, counter: &mut u64| -> bool {
        *counter += 1;
        let (k, v) = (long_key(i), format!("v{}-{}", *counter, "q".repeat(30)).into_bytes());
        let ok = sess.put(&k, &v).is_ok();
        if ok {
            acked.insert(k, v);
        }
        ok
    };
    for round in 0..2 {
        for i in 0..8 {
            if !put(&mut sess, i, &mut counter) {
                out.inconclusive("degenerate: load refused");
                return;
            }
        }
        let _ = round;
        sess.compact(None, None);
    }
    for i in 0..4 {
        let _ = put(&mut sess, i * 2, &mut counter);
    }
    sess.compact(Some(b"zzzz"), Some(b"zzzz")); // pure flush
    sess.wait_quiescent(Duration::from_secs(20));
    let nth = idx % 3; // which write to the manifest fails: first fragment, second fragment, third
    let short = (idx / 3) % 2 == 1;
    fs.set_short_writes(short);
    let ctx = json!({"family": "manifest-fault-in-nested-flush", "config": cfg.describe(), "key_bytes": 20 * 1024, "fault": {"call": "write", "on": "manifest", "occurrence": nth, "mode": "transient", "short_write": short}});
    let gate = d.arm(COMPACTOR, "compact.step", 2);
    let db = sess.db_arc();
    let requester = std::thread::Builder::new().name("c08-compactor-client".into()).spawn(move || {
        set_role(2);
        let _g = watch::enter("compact_range(whole range)");
        db.compact_range(None..None);
        drop(db);
    }).unwrap();
    let parked = d.wait_arrived(gate, Duration::from_secs(20));
    let mut rotated = false;
    if parked {
        // fill the memtable until it is rotated: the parked compaction will find an immutable
        // memtable at its next step and flush it from inside the table compaction
        let rot0 = d.note_count("mem.rotate");
        for i in 0..8u64 {
            if !put(&mut sess, 20 + i, &mut counter) {
                break;
            }
            if d.note_count("mem.rotate") > rot0 {
                rotated = true;
                break;
            }
        }
        fs.arm_fault(Some(Fault { kind: OpKind::Write, class: PathClass::Manifest, nth, mode: FaultMode::Transient, after_effect: false }));
    }
    d.release(gate);
    let _ = requester.join();
    sess.wait_quiescent(Duration::from_secs(20));
    let fired = fs.fault_fired().0 > 0;
    fs.arm_fault(None);
    out.add("nested_flush_fault_runs", 1);
    sess.close();
    match sess.open() {
        Err(e) => out.violate("C08/open-failed-after-fault-removed", json!({"ctx": ctx, "error": e, "files": fs.image().listing(), "fault_fired": fired, "memtable_rotated_while_parked": rotated})),
        Ok(()) => {
            for (k, v) in &acked {
                match sess.get(k) {
                    Ok(Some(got)) if got == *v => {}
                    Ok(got) => {
                        out.violate("C08/after-reopen/ok-write-lost", json!({"ctx": ctx, "key": show(&k[..8]), "got": got.as_ref().map(|v| show(v)), "expected": show(v)}));
                        break;
                    }
                    Err(e) => {
                        out.violate("C08/read-error-after-fault-removed-and-reopen", json!({"ctx": ctx, "key": show(&k[..8]), "error": e}));
                        break;
                    }
                }
            }
            sess.close();
        }
    }
    if parked && rotated && fired {
        out.nontrivial(format!("nested-flush-manifest-fault/write{nth}/short{}", short as u8));
    } else {
        out.add("fault_not_reached", 1);
    }
    out.sample = Some(json!({"family": "manifest-fault-in-nested-flush", "ctx": ctx, "worker_parked_mid_merge": parked, "memtable_rotated_while_parked": rotated, "fault_fired": fired}));
}

/// One long-lived iterator stepped back and forth (seeks, next, prev, direction changes) over a
/// database with many small tables while single table reads fail transiently. A step whose error
/// is visible through `status()` (or a seek that returns an error) promises nothing; every step
/// after which `status()` is clean must be exactly at the reference cursor's position.
fn case_iterator_faults(out: &mut CaseOut, seed: u64, idx: u64) {
    use crate::props::c04::CursorChecker;
    use raindb::ReadOptions;
    let mut rng = Rng::new(mix(&[seed, idx], "c08-iter"));
    let d = director();
    d.reset(rng.next_u64());
    // every other case keeps its data in a few large multi-block level-0 tables (no compactions)
    let level0_heavy = idx % 2 == 1;
    let cfg = if level0_heavy {
        Config { memtable: 6000, file: 1 << 20, block: *rng.pick(&[64usize, 128]), reuse: true }
    } else {
        Config { memtable: *rng.pick(&[512usize, 1024]), file: *rng.pick(&[512u64, 1024]), block: *rng.pick(&[64usize, 256]), reuse: true }
    };
    let fs = SimFs::from_image(&dbutil::root_image());
    let mut sess = Session::new(fs.clone(), cfg);
    sess.fill_cache = false;
    if let Err(e) = sess.open() {
        out.violate("C08/open-failed-without-any-fault-fired", json!({"error": e}));
        return;
    }
    let pool = gen::key_pool(&mut rng, KeyFamily::Ascii, 60);
    let mut counter = 0u64;
    let n_load = rng.range(200, 400);
    // a snapshot from the middle of the load keeps shadowed versions alive in the deeper levels
    let mut pinned: Option<(raindb::Snapshot, crate::session::Map)> = None;
    for i in 0..n_load {
        if i == n_load * 2 / 3 {
            pinned = Some((sess.db().get_snapshot(), sess.model.clone()));
        }
        let k = rng.pick(&pool).clone();
        let r = if rng.chance(0.2) {
            sess.delete(&k)
        } else {
            counter += 1;
            sess.put(&k, &gen::tagged_value(&mut rng, &format!("v{counter}:"), 30))
        };
        if r.is_err() {
            out.inconclusive("degenerate: load refused");
            return;
        }
        if i % 90 == 89 && !level0_heavy {
            let a = rng.pick(&pool).clone();
            sess.compact(Some(&a), None);
        }
    }
    if level0_heavy {
        sess.compact(Some(b"~~~~"), Some(b"~~~~")); // pure flush
    }
    sess.wait_quiescent(std::time::Duration::from_secs(10));
    let files = sess.db().verif_files().len();
    let it = match sess.db().new_iterator(ReadOptions { fill_cache: false, snapshot: None }) {
        Ok(it) => it,
        Err(e) => {
            out.violate("C08/new-iterator-error-without-fault", json!({"error": e.to_string()}));
            return;
        }
    };
    let ctx = json!({"family": "iterator-under-transient-read-faults", "config": cfg.describe(), "table_files": files, "visible_entries": sess.model.len()});
    let mut checker = CursorChecker::new(it, &sess.model);
    checker.tolerate_reported_errors = true;
    {
        let fs = fs.clone();
        checker.fault_probe = Some(std::sync::Arc::new(move || fs.fault_fired().0));
    }
    let mut fired = 0u64;
    for _round in 0..(if level0_heavy { 300 } else { 40 }) {
        let kind = if rng.chance(0.8) { OpKind::Read } else { OpKind::OpenRead };
        fs.arm_fault(Some(Fault { kind, class: PathClass::Table, nth: rng.range(0, 10), mode: FaultMode::Transient, after_effect: false }));
        let ok = checker.run(out, &mut rng, 14, &ctx, "C08/iterator-after-read-fault", &[]);
        fired += (fs.fault_fired().0 > 0) as u64;
        fs.arm_fault(None);
        if !ok {
            break;
        }
    }
    out.add("iterator_fault_rounds_fired", fired);
    out.add("iterator_errors_reported", checker.reported_errors);
    out.add("iterator_steps_under_faults", checker.steps);
    let reported = checker.reported_errors;
    drop(checker);
    // point reads under the same faults: an error, or exactly the value of the state read - never
    // the value of a shadowed older version from a deeper file, never KeyNotFound for a stored key
    let mut get_errors = 0u64;
    let mut gets = 0u64;
    let mut gets_fired = 0u64;
    'rounds: for _round in 0..150 {
        let kind = if rng.chance(0.8) { OpKind::Read } else { OpKind::OpenRead };
        fs.arm_fault(Some(Fault { kind, class: PathClass::Table, nth: rng.range(0, 6), mode: FaultMode::Transient, after_effect: false }));
        for _ in 0..8 {
            let k = rng.pick(&pool).clone();
            let at_snapshot = pinned.is_some() && rng.chance(0.4);
            let (got, want) = match (&pinned, at_snapshot) {
                (Some((snap, model)), true) => (sess.get_at(Some(snap), &k), model.get(&k).cloned()),
                _ => (sess.get(&k), sess.model.get(&k).cloned()),
            };
            gets += 1;
            match got {
                Err(_) => get_errors += 1,
                Ok(v) if v == want => {}
                Ok(v) => {
                    let what = if v.is_none() { "key-not-found-for-a-stored-key" } else if at_snapshot { "other-value-at-snapshot" } else { "other-value" };
                    out.violate(format!("C08/get-under-read-fault/{what}"), json!({"ctx": ctx, "key": show(&k), "read_at_snapshot": at_snapshot,
                        "got": v.as_ref().map(|v| show(v)), "expected": want.as_ref().map(|v| show(v)), "fault_fired": fs.fault_fired().0 > 0,
                        "fault_kind": format!("{kind:?}")}));
                    break 'rounds;
                }
            }
        }
        gets_fired += (fs.fault_fired().0 > 0) as u64;
        fs.arm_fault(None);
    }
    fs.arm_fault(None);
    out.add("gets_under_faults", gets);
    out.add("get_fault_rounds_fired", gets_fired);
    out.add("get_errors_reported", get_errors);
    if let Some((snap, _)) = pinned {
        sess.db().release_snapshot(snap);
    }
    sess.close();
    if fired > 0 && files >= 2 {
        out.nontrivial(format!("iterator-faults/l0heavy{}/files{}/reported{}", level0_heavy as u8, files.min(12), reported.min(9)));
    }
    out.sample = Some(json!({"family": "iterator-under-transient-read-faults", "ctx": ctx, "faults_fired": fired, "errors_reported_to_caller": reported}));
}

const GROUP_EVERY: u64 = 20;

/// A failing file-system call is answered with an error, not with a thread that dies: a panic on
/// one of raindb's threads during a fault run counts (the worker of an open that failed used to die
/// on its closed channel until the repair D31).
pub fn run_case(tier: &str, seed: u64, idx: u64) -> CaseOut {
    let mut out = run_case_inner(tier, seed, idx);
    for p in watch::bg_panics() {
        out.violate(
            format!("C08/bg-thread-panic/{}", watch::short_location(&p.location)),
            json!({"thread": p.thread, "message": p.message, "location": p.location, "sample": out.sample}),
        );
    }
    out
}

/// A short write, truthfully reported: `RandomAccessFile::append` returns how many bytes it took.
/// The scratch file that becomes CURRENT is written through it. One append on that file takes
/// only the first few bytes and says so; whatever the database makes of it (an error from open, or
/// going on), once the limit is lifted the database must open and hold every acknowledged write.
fn case_short_append(out: &mut CaseOut, seed: u64, j: u64) {
    let mut rng = Rng::new(mix(&[seed, j], "c08-short-append"));
    let d = director();
    d.reset(rng.next_u64());
    let fs = SimFs::from_image(&dbutil::root_image());
    let cfg = Config { memtable: *rng.pick(&[512usize, 4096]), file: 2048, block: 256, reuse: false };
    let mut sess = Session::new(fs.clone(), cfg);
    let at_creation = j % 3 == 2;
    let limit = *rng.pick(&[0usize, 1, 9, 10, 19]);
    let ctx = json!({"family": "short-append-on-the-scratch-file-of-CURRENT", "append_takes_at_most_bytes": limit, "at_creation_of_the_database": at_creation, "config": cfg.describe()});
    if at_creation {
        fs.set_short_append(PathClass::Temp, limit, 1);
    }
    let mut acknowledged: crate::session::Map = Default::default();
    let first_open = sess.open();
    if first_open.is_ok() {
        for i in 0..rng.range(5, 40) {
            let (k, v) = (format!("key{i:03}").into_bytes(), format!("value-{i}").into_bytes());
            if sess.put(&k, &v).is_ok() {
                acknowledged.insert(k, v);
            }
        }
        sess.close();
    }
    if !at_creation {
        // the open that switches CURRENT to a fresh manifest meets the short append
        fs.set_short_append(PathClass::Temp, limit, 1);
        if sess.open().is_ok() {
            let (k, v) = (b"written-after-the-short-append".to_vec(), b"x".to_vec());
            if sess.put(&k, &v).is_ok() {
                acknowledged.insert(k, v);
            }
            sess.close();
        }
    }
    let fired = fs.short_appends_done();
    fs.set_short_append(PathClass::Temp, 0, 0);
    out.add("short_appends_done", fired);
    // the limit is gone
    sess.cfg = Config { reuse: rng.chance(0.5), ..cfg };
    match sess.open() {
        Err(e) => {
            out.violate("C08/short-append/open-failed-after-the-limit-was-lifted", json!({"ctx": ctx, "error": e, "files": fs.image().listing(), "acknowledged_writes": acknowledged.len()}));
        }
        Ok(()) => {
            match sess.scan(None) {
                Ok(entries) => {
                    let got: crate::session::Map = entries.into_iter().collect();
                    let lost: Vec<String> = acknowledged.iter().filter(|(k, v)| got.get(*k) != Some(*v)).take(5).map(|(k, _)| show(k)).collect();
                    if !lost.is_empty() {
                        out.violate("C08/short-append/acknowledged-writes-lost", json!({"ctx": ctx, "lost": lost}));
                    }
                }
                Err(e) => out.violate("C08/short-append/read-error-after-the-limit-was-lifted", json!({"ctx": ctx, "error": e})),
            }
            sess.close();
        }
    }
    if fired > 0 {
        out.nontrivial(format!("short-append/limit{limit}/creation{}", at_creation as u8));
    }
    out.sample = Some(ctx);
}

fn run_case_inner(tier: &str, seed: u64, idx: u64) -> CaseOut {
    let mut out = CaseOut::new();
    // the cases behind the single-fault enumeration tie the fault to a phase of the background work
    let singles = if tier == "quick" { SINGLE_QUICK } else { SINGLE_THOROUGH };
    if idx >= singles {
        case_phase_fault(&mut out, tier, seed, idx - singles);
        return out;
    }
    // every 20th case is a group commit under a failing write-ahead log
    if idx % GROUP_EVERY == GROUP_EVERY - 1 {
        let j = idx / GROUP_EVERY;
        match j % 5 {
            0 if j % 10 == 0 => case_short_append(&mut out, seed, j / 10),
            2 => case_fault_during_manual_compaction(&mut out, seed, j / 5),
            3 => case_iterator_faults(&mut out, seed, j / 5),
            4 => case_manifest_fault_in_nested_flush(&mut out, seed, j / 5),
            _ => case_group_fault(&mut out, seed, j),
        }
        return out;
    }
    let idx = idx - idx / GROUP_EVERY;
    // every 16th case runs the long-WAL script (history 4), the others rotate over scripts 0-3
    let (history, j) = if idx % 16 == 15 { (4, idx / 16) } else if idx % 16 == 7 { (5, idx / 16) } else if idx % 16 == 11 { (6, idx / 16) } else { (idx % HISTORIES, idx / HISTORIES) };
    // the mid-life script is drawn anew for every few cases (its window is a single write)
    let mut script = make_script(history, if history == 6 { mix(&[seed, j / 6], "c08-midlife-seed") } else { seed }, if tier == "quick" { 150 } else { 220 });
    // pilot: no fault, classify the call stream
    let mut pilot_out = CaseOut::new();
    let pilot = run_script(&mut pilot_out, &script, None, &json!({"pilot": true}));
    if pilot_out.is_violated() || pilot.is_none() {
        // a fault-free run that fails is not this property's business, but nothing can be judged
        out.inconclusive("pilot run (no fault) did not complete cleanly");
        for v in pilot_out.violations {
            out.inconclusive(format!("pilot: {}", v.sig));
        }
        return out;
    }
    let pilot = pilot.unwrap();
    let pos = if history == 5 || history == 6 {
        // every call made during the armed compaction
        let mut v = vec![];
        for ((kind, class), n) in &pilot.counts {
            if matches!(kind, OpKind::IsDir | OpKind::Lock | OpKind::Mkdir | OpKind::RemoveDir) {
                continue;
            }
            for o in 0..(*n).min(12) {
                v.push((*kind, *class, o));
            }
        }
        v
    } else if history == 4 {
        // the fault is armed for the reopen in the middle of the script: the first and the last
        // three occurrences of every kind of call made during that reopen
        let mut v = vec![];
        for ((kind, class), n) in &pilot.counts {
            if matches!(kind, OpKind::IsDir | OpKind::Lock | OpKind::Mkdir | OpKind::RemoveDir) {
                continue;
            }
            let mut occ: BTreeSet<u64> = BTreeSet::new();
            for o in 0..3.min(*n) {
                occ.insert(o);
                occ.insert(*n - 1 - o);
            }
            for o in occ {
                v.push((*kind, *class, o));
            }
        }
        v
    } else {
        positions(&pilot.counts, tier != "quick")
    };
    let n_pos = pos.len() as u64;
    let modes = [FaultMode::Transient, FaultMode::StickySame, FaultMode::StickyAll];
    // the long-WAL script tries every position with a transient fault first (a sticky fault during
    // a reopen mostly just makes the open fail), the other scripts interleave the modes
    let combo = j % (n_pos * 3);
    let (pos_index, mode_index) = if history == 6 { (combo % n_pos, (combo / n_pos) % 2 * 2) } else if history >= 4 { (combo % n_pos, combo / n_pos) } else { (combo / 3, combo % 3) };
    let (kind, class, nth) = pos[pos_index as usize];
    let mode = modes[mode_index as usize];
    // (SimFs can also report an error *after* applying a mutating call. That model is not used: a
    // rename that happens and then reports failure goes beyond 'the operation fails'; the only
    // error-after-effect in the enumeration is a failing flush, which is a call of its own.)
    let after_effect = false;
    let fault = Fault { kind, class, nth, mode, after_effect };
    // every other write fault is a short write: half of the bytes reach the file before the error
    script.short_writes = kind == OpKind::Write && if history == 6 { j % 2 == 0 } else { (idx / 3) % 2 == 1 };
    script.replay_on_shipped_file_systems = history != 4 && idx % 2 == 0;
    let short_writes = script.short_writes;
    let ctx = json!({"history": history, "failing_write_is_short": short_writes, "config": script.cfg.describe(), "fault": {"call": kind.name(), "on": class.name(), "occurrence": nth,
        "of_about": pilot.counts.get(&(kind, class)), "mode": mode.name(), "error_reported_after_effect": after_effect}});
    let result = run_script(&mut out, &script, Some(fault), &ctx);
    out.add("fault_positions_available", n_pos * 3);
    if let Some(r) = result {
        let fired = out.obs.get("faults_fired").copied().unwrap_or(0) > 0;
        if fired && r.ops_after_fault > 0 {
            let total = pilot.counts.get(&(kind, class)).copied().unwrap_or(1).max(1);
            let bucket = match nth * 4 / total { 0 => "first-quarter", 1 => "second-quarter", 2 => "third-quarter", _ => "last-quarter" };
            out.nontrivial(format!("{}/{}/{}/{}{}{}", kind.name(), class.name(), bucket, mode.name(), if after_effect { "/after-effect" } else { "" }, if short_writes { "/short-write" } else { "" }));
            out.add(&format!("fired.{}.{}", kind.name(), class.name()), 1);
        } else if !fired {
            out.add("fault_not_reached", 1);
        }
    }
    out.sample = Some(json!({"family": "single-fault-run", "ctx": ctx, "script_ops": script.ops.len()}));
    out
}
