pub mod c01;
pub mod c02;
pub mod c03;
pub mod c04;
pub mod c05;
pub mod c06;
pub mod c07;
pub mod c08;
pub mod c09;
pub mod c10;
pub mod c11;
pub mod c12;
pub mod c13;
pub mod c14;
pub mod c15;
pub mod c16;
pub mod c17;

use crate::report::CaseOut;

pub fn plan(prop: &str, tier: &str) -> Option<u64> {
    Some(match prop {
        "C01" => c01::plan(tier),
        "C02" => c02::plan(tier),
        "C03" => c03::plan(tier),
        "C04" => c04::plan(tier),
        "C05" => c05::plan(tier),
        "C06" => c06::plan(tier),
        "C07" => c07::plan(tier),
        "C08" => c08::plan(tier),
        "C09" => c09::plan(tier),
        "C10" => c10::plan(tier),
        "C11" => c11::plan(tier),
        "C12" => c12::plan(tier),
        "C13" => c13::plan(tier),
        "C14" => c14::plan(tier),
        "C15" => c15::plan(tier),
        "C16" => c16::plan(tier),
        "C17" => c17::plan(tier),
        _ => return None,
    })
}

pub fn run_case(prop: &str, tier: &str, seed: u64, idx: u64) -> CaseOut {
    match prop {
        "C01" => c01::run_case(tier, seed, idx),
        "C02" => c02::run_case(tier, seed, idx),
        "C03" => c03::run_case(tier, seed, idx),
        "C04" => c04::run_case(tier, seed, idx),
        "C05" => c05::run_case(tier, seed, idx),
        "C06" => c06::run_case(tier, seed, idx),
        "C07" => c07::run_case(tier, seed, idx),
        "C08" => c08::run_case(tier, seed, idx),
        "C09" => c09::run_case(tier, seed, idx),
        "C10" => c10::run_case(tier, seed, idx),
        "C11" => c11::run_case(tier, seed, idx),
        "C12" => c12::run_case(tier, seed, idx),
        "C13" => c13::run_case(tier, seed, idx),
        "C14" => c14::run_case(tier, seed, idx),
        "C15" => c15::run_case(tier, seed, idx),
        "C16" => c16::run_case(tier, seed, idx),
        "C17" => c17::run_case(tier, seed, idx),
        _ => panic!("unknown property {prop}"),
    }
}

/// How a panic on the harness's own (client) thread inside a case is to be read.
pub fn client_panic_is_violation(prop: &str) -> bool {
    !matches!(prop, "C15" | "C08" | "C16" | "C02")
}

pub fn stall_limit_secs(prop: &str) -> u64 {
    match prop {
        "C12" | "C13" | "C14" => 15,
        _ => 30,
    }
}
