pub mod c12;

use crate::report::CaseOut;

pub fn plan(prop: &str, tier: &str) -> Option<u64> {
    Some(match prop {
        "C12" => c12::plan(tier),
        _ => return None,
    })
}

pub fn run_case(prop: &str, tier: &str, seed: u64, idx: u64) -> CaseOut {
    match prop {
        "C12" => c12::run_case(tier, seed, idx),
        _ => panic!("unknown property {prop}"),
    }
}

/// How a panic on the harness's own (client) thread inside a case is to be read.
pub fn client_panic_is_violation(prop: &str) -> bool {
    !matches!(prop, "C15" | "C08" | "C16" | "C02")
}

pub fn stall_limit_secs(prop: &str) -> u64 {
    match prop {
        "C12" | "C13" | "C14" => 15,
        _ => 30,
    }
}
