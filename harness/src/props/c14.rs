//! C14 — filters never hide a key that is present.

use std::sync::Arc;

use raindb::filter_policy::{BloomFilterPolicy, FilterPolicy};
use raindb::verif::table::{self, Entry, Lookup};
use raindb::Operation;
use serde_json::json;

use crate::dbutil;
use crate::gen::{self, Config, KeyFamily};
use crate::report::{show, CaseOut};
use crate::rng::{mix, Rng};
use crate::simfs::SimFs;
use crate::watch;

const POLICY_SETS_PER_CASE: u64 = 25;

pub fn plan(tier: &str) -> u64 {
    match tier {
        // policy cases (25 sets each) + table cases + tables read with a policy of another name
        "quick" => 160 + 600 + n_foreign(tier),
        _ => 4000 + 5000 + n_foreign(tier),
    }
}

fn n_table_cases(tier: &str) -> u64 {
    if tier == "quick" {
        600
    } else {
        5000
    }
}

fn n_foreign(tier: &str) -> u64 {
    if tier == "quick" {
        96
    } else {
        600
    }
}

/// A second, exact filter policy: the filter is a marker byte followed by the 32-bit hashes of the
/// keys. It keeps the trait's contract (members always match) and, like any policy, can make
/// nothing of a filter that another policy wrote.
#[derive(Debug)]
struct HashListPolicy {
    name: String,
    /// first byte of every filter this policy writes (its format version)
    marker: u8,
}

impl HashListPolicy {
    fn hash(key: &[u8]) -> u32 {
        let mut h: u32 = 0x811c9dc5;
        for b in key {
            h ^= *b as u32;
            h = h.wrapping_mul(0x01000193);
        }
        h
    }
}

impl FilterPolicy for HashListPolicy {
    fn get_name(&self) -> String {
        self.name.clone()
    }
    fn create_filter(&self, keys: &[Vec<u8>]) -> Vec<u8> {
        let mut out = vec![self.marker];
        for k in keys {
            out.extend_from_slice(&Self::hash(k).to_le_bytes());
        }
        out
    }
    fn key_may_match(&self, key: &[u8], serialized_filter: &[u8]) -> Result<bool, raindb::filter_policy::FilterPolicyError> {
        if serialized_filter.first() != Some(&self.marker) || (serialized_filter.len() - 1) % 4 != 0 {
            // not one of ours: whatever it lists, this key is not known to be in it
            return Ok(false);
        }
        let h = Self::hash(key).to_le_bytes();
        Ok(serialized_filter[1..].chunks(4).any(|c| c == h))
    }
}

fn n_policy_cases(tier: &str) -> u64 {
    if tier == "quick" {
        160
    } else {
        4000
    }
}

fn gen_key_set(rng: &mut Rng) -> (Vec<Vec<u8>>, String) {
    let size = match rng.below(20) {
        0 => 0,
        1 => 1,
        2..=9 => rng.range(2, 40),
        10..=16 => rng.range(40, 600),
        _ => rng.range(600, 5000),
    } as usize;
    let style = rng.below(5);
    let mut keys: Vec<Vec<u8>> = Vec::with_capacity(size);
    let mut mods = [false; 4];
    for i in 0..size {
        let k = match style {
            0 => format!("key{:06}", i).into_bytes(),
            1 => {
                let len = rng.usize_below(24);
                rng.bytes(len)
            }
            2 => {
                // every length mod 4, including the empty key
                let len = i % 9;
                rng.bytes(len)
            }
            3 => {
                let len = rng.range(1, 6) as usize;
                let mut k = vec![0xffu8; len];
                if rng.chance(0.5) {
                    k[len - 1] = rng.below(256) as u8;
                }
                k
            }
            _ => {
                let len = rng.range(30, 300) as usize;
                rng.bytes(len)
            }
        };
        mods[k.len() % 4] = true;
        keys.push(k);
    }
    // duplicates
    if size > 1 && rng.chance(0.4) {
        let dups = rng.range(1, (size as u64 / 3).max(1)) as usize;
        for _ in 0..dups {
            let k = keys[rng.usize_below(keys.len())].clone();
            keys.push(k);
        }
    }
    if rng.chance(0.2) {
        keys.push(vec![]);
        mods[0] = true;
    }
    let modmix: String = mods.iter().map(|b| if *b { '1' } else { '0' }).collect();
    (keys, format!("style{style}/mods{modmix}"))
}

fn case_policy(out: &mut CaseOut, seed: u64, idx: u64) {
    let mut rng = Rng::new(mix(&[seed, idx], "c14-policy"));
    let mut fp_probes = 0u64;
    let mut fp_hits = 0u64;
    let mut sample = None;
    for s in 0..POLICY_SETS_PER_CASE {
        watch::tick();
        let bits = ((idx * POLICY_SETS_PER_CASE + s) % 64 + 1) as usize;
        let (keys, style) = gen_key_set(&mut rng);
        let policy = BloomFilterPolicy::new(bits);
        let filter = policy.create_filter(&keys);
        out.add("policy_sets", 1);
        out.add("policy_member_probes", keys.len() as u64);
        for k in &keys {
            match policy.key_may_match(k, &filter) {
                Ok(true) => {}
                Ok(false) => {
                    out.violate(
                        "C14/policy/member-reported-absent",
                        json!({"bits_per_key": bits, "set_size": keys.len(), "key": show(k), "style": style, "filter_len": filter.len()}),
                    );
                    break;
                }
                Err(e) => {
                    out.violate(
                        "C14/policy/member-probe-error",
                        json!({"bits_per_key": bits, "set_size": keys.len(), "key": show(k), "style": style, "error": format!("{e:?}")}),
                    );
                    break;
                }
            }
        }
        // a filter is consulted by whatever policy of the same name the database is opened with later:
        // the probe count travels inside the filter, so a policy built with any other bits-per-key
        // setting must give the same answer for members
        let other_bits = rng.range(1, 65) as usize;
        let other = BloomFilterPolicy::new(other_bits);
        out.add("cross_policy_member_probes", keys.len() as u64);
        for k in &keys {
            match other.key_may_match(k, &filter) {
                Ok(true) => {}
                Ok(false) => {
                    out.violate(
                        "C14/policy/member-reported-absent-by-policy-with-other-bits",
                        json!({"built_with_bits_per_key": bits, "consulted_with_bits_per_key": other_bits, "set_size": keys.len(), "key": show(k), "style": style}),
                    );
                    break;
                }
                Err(e) => {
                    out.violate(
                        "C14/policy/member-probe-error-by-policy-with-other-bits",
                        json!({"built_with_bits_per_key": bits, "consulted_with_bits_per_key": other_bits, "key": show(k), "error": format!("{e:?}")}),
                    );
                    break;
                }
            }
        }
        if keys.len() >= 2 && other_bits != bits {
            out.nontrivial(format!("policy/cross/{}", if (other_bits as f64 * 0.69) as usize > (bits as f64 * 0.69) as usize { "more-probes" } else { "fewer-or-equal-probes" }));
        }
        // sanity figure only: false-positive rate with bits_per_key >= 10
        if bits >= 10 && keys.len() >= 50 {
            for _ in 0..50 {
                let probe = rng.bytes(13);
                fp_probes += 1;
                if let Ok(true) = policy.key_may_match(&probe, &filter) {
                    fp_hits += 1;
                }
            }
        }
        let distinct: std::collections::BTreeSet<&Vec<u8>> = keys.iter().collect();
        if distinct.len() >= 2 {
            let bucket = match keys.len() {
                0..=9 => "n<10",
                10..=99 => "n<100",
                100..=999 => "n<1000",
                _ => "n>=1000",
            };
            out.nontrivial(format!("policy/{bucket}/bits{bits}/{style}"));
        }
        if sample.is_none() {
            sample = Some(json!({"family": "policy", "bits_per_key": bits, "set_size": keys.len(), "style": style,
                "first_keys": keys.iter().take(4).map(|k| show(k)).collect::<Vec<_>>()}));
        }
    }
    out.add("fp_probes", fp_probes);
    out.add("fp_hits", fp_hits);
    out.sample = sample;
}

fn case_table(out: &mut CaseOut, seed: u64, idx: u64) {
    let mut rng = Rng::new(mix(&[seed, idx], "c14-table"));
    let family = KeyFamily::ALL[(idx % 6) as usize];
    // layouts: many blocks per 2 KiB filter range (tiny blocks), or one block spanning several
    // ranges (values of several KiB with a large block size)
    let layout = idx % 3;
    let (block, value_len_lo, value_len_hi, nkeys) = match layout {
        0 => (*rng.pick(&[16usize, 64, 128]), 0u64, 40u64, rng.range(40, 400)),
        1 => (*rng.pick(&[256usize, 1024, 4096]), 0, 300, rng.range(20, 300)),
        _ => (*rng.pick(&[4096usize, 16384, 1 << 20]), 1500, 9000, rng.range(4, 30)),
    };
    let bits = *rng.pick(&[1usize, 2, 5, 10, 10, 16, 40, 64]);
    let pool = gen::key_pool(&mut rng, family, nkeys as usize);
    let mut entries: Vec<Entry> = vec![];
    let mut data_bytes = 0usize;
    for key in pool {
        let nv = *rng.pick(&[1u64, 1, 2, 3]);
        let mut seqs = std::collections::BTreeSet::new();
        while (seqs.len() as u64) < nv {
            seqs.insert(rng.range(1, 50_000));
        }
        for seq in seqs.into_iter().rev() {
            if rng.chance(0.2) {
                entries.push((key.clone(), seq, Operation::Delete, vec![]));
                data_bytes += key.len() + 12;
            } else {
                let len = rng.range(value_len_lo, value_len_hi) as usize;
                let v = gen::tagged_value(&mut rng, &format!("s{seq}:"), len);
                data_bytes += key.len() + 12 + v.len();
                entries.push((key.clone(), seq, Operation::Put, v));
            }
        }
    }
    let fs = SimFs::from_image(&dbutil::skeleton_image("/c14"));
    let cfg = Config { memtable: 4096, file: 1 << 20, block, reuse: true };
    let mut options = dbutil::options(fs.as_provider(), "/c14", &cfg);
    options.filter_policy = Arc::new(BloomFilterPolicy::new(bits));
    let ctx = json!({"family": family.name(), "max_block_size": block, "bits_per_key": bits, "entries": entries.len(), "layout": layout});
    let size = match table::build(&options, 9, &entries) {
        Ok(s) => s,
        Err(e) => {
            out.violate("C14/table/build-failed", json!({"ctx": ctx, "error": e}));
            return;
        }
    };
    // every third table is read back by a database configured with another bits-per-key setting
    let read_bits = if idx % 3 == 1 { *rng.pick(&[1usize, 4, 10, 16, 30, 64]) } else { bits };
    let mut read_options = options.clone();
    read_options.filter_policy = Arc::new(BloomFilterPolicy::new(read_bits));
    let ctx = json!({"family": family.name(), "max_block_size": block, "bits_per_key": bits, "read_with_bits_per_key": read_bits, "entries": entries.len(), "layout": layout});
    let reader = match table::open(&read_options, 9) {
        Ok(r) => r,
        Err(e) => {
            out.violate("C14/table/open-failed", json!({"ctx": ctx, "error": e}));
            return;
        }
    };
    out.add("tables", 1);
    for e in &entries {
        watch::tick();
        out.add("table_member_lookups", 1);
        let got = reader.get(&e.0, e.1, false);
        let expected = match e.2 {
            Operation::Put => Lookup::Value(e.3.clone()),
            Operation::Delete => Lookup::Deleted,
        };
        if got != expected {
            let cls = match got {
                Lookup::NotInFile => "stored-key-reported-not-in-file",
                Lookup::Error(_) => "stored-key-lookup-error",
                _ => "stored-key-wrong-answer",
            };
            out.violate(
                format!("C14/table/{cls}"),
                json!({"ctx": ctx, "key": show(&e.0), "seq": e.1, "got": format!("{:?}", got).chars().take(120).collect::<String>()}),
            );
            break;
        }
    }
    let ranges = size as usize / 2048;
    if ranges >= 2 {
        let blocks_per_range = if block >= 2048 { "block-spans-ranges" } else if block <= 128 { "many-blocks-per-range" } else { "few-blocks-per-range" };
        out.nontrivial(format!("table/{blocks_per_range}/bits{bits}/{}", family.name()));
        if read_bits != bits {
            out.nontrivial(format!("table/{blocks_per_range}/built{bits}-read{read_bits}"));
        }
    }
    out.sample = Some(json!({"family": "table", "keys": family.name(), "max_block_size": block, "bits_per_key": bits,
        "entries": entries.len(), "file_size": size, "approx_data_bytes": data_bytes, "filter_ranges_2KiB": ranges}));
}

/// The only way to switch filtering off (the option is mandatory) is a policy that does nothing:
/// it returns an empty filter and lets every key through.
#[derive(Debug)]
struct NoFilteringPolicy;

impl FilterPolicy for NoFilteringPolicy {
    fn get_name(&self) -> String {
        "NoFiltering".to_string()
    }
    fn create_filter(&self, _keys: &[Vec<u8>]) -> Vec<u8> {
        vec![]
    }
    fn key_may_match(&self, _key: &[u8], _serialized_filter: &[u8]) -> Result<bool, raindb::filter_policy::FilterPolicyError> {
        Ok(true)
    }
}

/// A policy whose filters carry a format version: it writes `writes` and can only read `reads`;
/// a filter of another version is reported as an error (which must mean "go and look", never
/// "the key is not there").
#[derive(Debug)]
struct VersionedPolicy {
    writes: u8,
    reads: u8,
}

impl FilterPolicy for VersionedPolicy {
    fn get_name(&self) -> String {
        "Versioned.HashList".to_string()
    }
    fn create_filter(&self, keys: &[Vec<u8>]) -> Vec<u8> {
        let mut out = vec![self.writes];
        for k in keys {
            out.extend_from_slice(&HashListPolicy::hash(k).to_le_bytes());
        }
        out
    }
    fn key_may_match(&self, key: &[u8], serialized_filter: &[u8]) -> Result<bool, raindb::filter_policy::FilterPolicyError> {
        if serialized_filter.first() != Some(&self.reads) {
            return Err(raindb::filter_policy::FilterPolicyError::Parse(format!("filter format {:?} is not format {}", serialized_filter.first(), self.reads)));
        }
        let h = HashListPolicy::hash(key).to_le_bytes();
        Ok(serialized_filter[1..].chunks(4).any(|c| c == h))
    }
}

/// The name of a policy is stored with its filter block so that a table is never consulted
/// through filters some other policy wrote: tables are built under one policy and read under a
/// policy of another name (sorting before or after the writer's), and every stored entry must
/// still be found.
fn case_foreign_policy(out: &mut CaseOut, seed: u64, idx: u64) {
    let mut rng = Rng::new(mix(&[seed, idx], "c14-foreign"));
    let family = KeyFamily::ALL[(idx % 6) as usize];
    let block = *rng.pick(&[64usize, 256, 1024, 4096]);
    let nkeys = rng.range(20, 300) as usize;
    let pool = gen::key_pool(&mut rng, family, nkeys);
    let mut entries: Vec<Entry> = vec![];
    for key in pool {
        let seq = rng.range(1, 50_000);
        if rng.chance(0.15) {
            entries.push((key, seq, Operation::Delete, vec![]));
        } else {
            let len = rng.range(0, 200) as usize;
            let v = gen::tagged_value(&mut rng, &format!("s{seq}:"), len);
            entries.push((key, seq, Operation::Put, v));
        }
    }
    let bloom = |bits: usize| -> Arc<dyn FilterPolicy> { Arc::new(BloomFilterPolicy::new(bits)) };
    let list = |name: &str| -> Arc<dyn FilterPolicy> { Arc::new(HashListPolicy { name: name.to_string(), marker: 0xEE }) };
    // a renamed successor with another filter format ("append a version when the format changes")
    let list2 = |name: &str| -> Arc<dyn FilterPolicy> { Arc::new(HashListPolicy { name: name.to_string(), marker: 0xED }) };
    // names sorting before and after "RainDB.BloomFilter"
    let (writer, reader, pair): (Arc<dyn FilterPolicy>, Arc<dyn FilterPolicy>, &str) = match idx % 10 {
        9 => (list2("M.HashList2"), list("M.HashList"), "written-by-a-successor-whose-name-extends-the-readers"),
        8 => (list("M.HashList"), list2("M.HashList2"), "written-by-a-predecessor-whose-name-is-a-prefix-of-the-readers"),
        7 => (Arc::new(VersionedPolicy { writes: 1, reads: 1 }), Arc::new(VersionedPolicy { writes: 2, reads: 2 }), "same-name/reader-reports-an-error-for-the-stored-filters"),
        6 => (Arc::new(NoFilteringPolicy), Arc::new(NoFilteringPolicy), "policy-with-empty-filters"),
        0 => (bloom(10), list("Audit.HashList"), "bloom-written/read-by-earlier-name"),
        1 => (bloom(10), list("Zeta.HashList"), "bloom-written/read-by-later-name"),
        2 => (list("Zeta.HashList"), bloom(10), "later-name-written/read-by-bloom"),
        3 => (list("Audit.HashList"), bloom(10), "earlier-name-written/read-by-bloom"),
        4 => (list("M.HashList.v2"), list("M.HashList.v1"), "v2-written/read-by-v1"),
        _ => (list("M.HashList.v1"), list("M.HashList.v1"), "same-custom-policy"),
    };
    let fs = SimFs::from_image(&dbutil::skeleton_image("/c14"));
    let cfg = Config { memtable: 4096, file: 1 << 20, block, reuse: true };
    let mut write_options = dbutil::options(fs.as_provider(), "/c14", &cfg);
    write_options.filter_policy = writer;
    let mut read_options = write_options.clone();
    read_options.filter_policy = reader;
    let ctx = json!({"family": family.name(), "max_block_size": block, "policies": pair, "entries": entries.len()});
    if let Err(e) = table::build(&write_options, 9, &entries) {
        out.violate("C14/table/build-failed", json!({"ctx": ctx, "error": e}));
        return;
    }
    let reader = match table::open(&read_options, 9) {
        Ok(r) => r,
        Err(e) => {
            out.violate("C14/table/open-failed", json!({"ctx": ctx, "error": e}));
            return;
        }
    };
    out.add("tables_read_with_a_policy_of_another_name", 1);
    let mut hidden = 0u64;
    let mut first = None;
    for e in &entries {
        watch::tick();
        out.add("table_member_lookups", 1);
        let got = reader.get(&e.0, e.1, false);
        let expected = match e.2 {
            Operation::Put => Lookup::Value(e.3.clone()),
            Operation::Delete => Lookup::Deleted,
        };
        if got != expected {
            hidden += 1;
            if first.is_none() {
                first = Some(json!({"key": show(&e.0), "seq": e.1, "got": format!("{:?}", got).chars().take(80).collect::<String>()}));
            }
        }
    }
    if hidden > 0 && pair == "policy-with-empty-filters" {
        out.violate(
            "C14/table/stored-key-hidden-by-an-empty-filter",
            json!({"ctx": ctx, "entries_hidden": hidden, "first": first}),
        );
    } else if hidden > 0 {
        out.violate(
            format!("C14/table/stored-key-hidden-by-a-filter-of-another-policy/{pair}"),
            json!({"ctx": ctx, "entries_hidden": hidden, "first": first}),
        );
    }
    out.nontrivial(format!("foreign-policy/{pair}/{}", family.name()));
    out.sample = Some(json!({"family": "foreign-policy", "ctx": ctx}));
}

pub fn run_case(tier: &str, seed: u64, idx: u64) -> CaseOut {
    let mut out = CaseOut::new();
    let np = n_policy_cases(tier);
    let nt = n_table_cases(tier);
    if idx < np {
        case_policy(&mut out, seed, idx);
    } else if idx < np + nt {
        case_table(&mut out, seed, idx - np);
    } else {
        case_foreign_policy(&mut out, seed, idx - np - nt);
    }
    out
}
