//! C15 — corrupted files are detected, never served as data.
//!
//! A small database (a few tables, one manifest, one WAL with a handful of batches, unique
//! values) is built and closed. Then single bytes of its files are altered (bit flips, zeroing,
//! random byte; truncation of tables) and the image is opened and read. For table / manifest /
//! CURRENT damage every *successful* answer must equal the true state; for WAL damage the state
//! must be "tables + some subset of whole WAL batches, in order". Failing opens, failing reads and
//! panics are detections, not violations.

use std::collections::{BTreeMap, BTreeSet};
use std::panic::{catch_unwind, AssertUnwindSafe};
use std::path::PathBuf;

use serde_json::{json, Value};

use crate::crash::{self, ExecParams, Execution};
use crate::gen::{Config, KeyFamily};
use crate::report::{show, CaseOut};
use crate::rng::{mix, Rng};
use crate::session::{apply_to_map, Map, Session, WriteOp};
use crate::simfs::{classify, Image, JOp, PathClass, SimFs};
use crate::{dbutil, watch};

const SLICES: u64 = 16;

pub fn plan(tier: &str) -> u64 {
    // base images x slices (each slice takes the offsets congruent to it modulo SLICES)
    (n_small_bases(tier) + n_wal_bases(tier)) * SLICES
}

fn n_small_bases(tier: &str) -> u64 {
    if tier == "quick" {
        2
    } else {
        12
    }
}

/// bases whose write-ahead log spans several 32 KiB blocks (records stored as fragments)
fn n_wal_bases(tier: &str) -> u64 {
    if tier == "quick" {
        1
    } else {
        6
    }
}

struct Base {
    image: Image,
    truth: Map,
    /// state with the WAL emptied
    tables_only: Map,
    wal_batches: Vec<Vec<WriteOp>>,
    /// every value ever written per key
    ever: BTreeMap<Vec<u8>, BTreeSet<Vec<u8>>>,
    universe: BTreeSet<Vec<u8>>,
    cfg: Config,
    /// per file: sorted list of (start, end, structure label)
    structure: BTreeMap<PathBuf, Vec<(usize, usize, &'static str)>>,
    /// table file that holds the newest version of each user key (keys whose newest version is in
    /// the WAL are not listed)
    owner: BTreeMap<Vec<u8>, PathBuf>,
    description: Value,
}

fn build_structure(exec: &Execution, image: &Image) -> BTreeMap<PathBuf, Vec<(usize, usize, &'static str)>> {
    // physical writes per inode, in order; map inode -> final path via the last journal path seen
    let mut writes: BTreeMap<PathBuf, Vec<(usize, usize)>> = BTreeMap::new();
    for e in &exec.journal {
        if let JOp::Write { offset, data, path, .. } = &e.op {
            writes.entry(path.clone()).or_default().push((*offset as usize, *offset as usize + data.len()));
        }
    }
    let mut out = BTreeMap::new();
    for (path, ws) in writes {
        if !image.files.contains_key(&path) {
            continue;
        }
        let mut spans: Vec<(usize, usize, &'static str)> = vec![];
        match classify(&path) {
            PathClass::Wal | PathClass::Manifest => {
                let payload = if classify(&path) == PathClass::Wal { "log-payload" } else { "manifest-record" };
                // the header of the LAST manifest record is named apart: damage there that makes
                // the record look unfinished cannot be told from a torn final write
                let last_manifest_write = if classify(&path) == PathClass::Manifest { ws.iter().map(|w| w.0).max() } else { None };
                for (s, e) in ws {
                    if e - s >= 7 {
                        let last = last_manifest_write == Some(s);
                        spans.push((s, s + 4, "log-header-checksum"));
                        spans.push((s + 4, s + 6, if last { "log-header-length-of-last-record" } else { "log-header-length" }));
                        spans.push((s + 6, s + 7, if last { "log-header-type-of-last-record" } else { "log-header-type" }));
                        spans.push((s + 7, e, payload));
                    } else {
                        spans.push((s, e, "log-trailer-padding"));
                    }
                }
            }
            PathClass::Table => {
                // blocks are written as (contents, 1-byte type, 4-byte checksum); the footer is last
                let n = ws.len();
                if n >= 1 {
                    let blocks = (n - 1) / 3;
                    for (i, (s, e)) in ws.iter().enumerate() {
                        let label = if i == n - 1 {
                            "footer"
                        } else {
                            let b = i / 3;
                            let part = i % 3;
                            if part != 0 {
                                "block-trailer"
                            } else if b + 1 == blocks {
                                "index-block"
                            } else if b + 2 == blocks {
                                "metaindex-block"
                            } else if b + 3 == blocks {
                                "filter-block"
                            } else {
                                "data-block"
                            }
                        };
                        spans.push((*s, *e, label));
                    }
                }
            }
            PathClass::Current => spans.push((0, ws.last().map_or(0, |w| w.1), "CURRENT")),
            _ => {}
        }
        out.insert(path, spans);
    }
    // CURRENT is written through a temp file and renamed
    for path in image.files.keys() {
        if classify(path) == PathClass::Current {
            out.insert(path.clone(), vec![(0, image.files[path].len(), "CURRENT")]);
        }
    }
    out
}

fn read_state(image: &Image, cfg: Config) -> Result<Map, String> {
    let fs = SimFs::from_image(image);
    let mut sess = Session::new(fs, cfg);
    sess.fill_cache = false;
    sess.open()?;
    let r = sess.scan(None).map(|e| e.into_iter().collect());
    sess.close();
    r
}

fn build_base(rng: &mut Rng, idx: u64) -> Result<Base, String> {
    let mut params = ExecParams::generate(rng, idx, rng.clone().range(90, 160) as usize);
    // every other base is closed and reopened a few times on the way (with and without log reuse)
    // and once more at the end without reuse: an open that does not take the old manifest over
    // writes a new one whose FIRST record is the snapshot of all table files, not the file-less
    // record of a fresh database
    params.reopen_weight = if idx % 2 == 1 { 3 } else { 0 };
    params.final_reopen_without_reuse = idx % 2 == 1;
    params.big_values = false;
    // (data blocks that hold a single entry: a value a little longer than a block)
    params.values_longer_than_a_block = true;
    params.family = if idx % 2 == 0 { KeyFamily::Ascii } else { KeyFamily::Binary };
    params.pool = 30;
    params.cfg = Config { memtable: *rng.pick(&[700usize, 1200]), file: 1024, block: *rng.pick(&[128usize, 512]), reuse: true };
    let exec = crash::record_execution(rng, &params);
    if let Some(why) = &exec.degenerate {
        return Err(format!("degenerate base execution: {why}"));
    }
    let fs_image = {
        let mut r = crate::simfs::Replayer::new(&dbutil::root_image());
        for e in &exec.journal {
            r.step(e);
        }
        r.image()
    };
    let mut truth = Map::new();
    let mut ever: BTreeMap<Vec<u8>, BTreeSet<Vec<u8>>> = BTreeMap::new();
    for a in &exec.acks {
        if a.ok {
            apply_to_map(&mut truth, &a.ops);
            for (k, v) in &a.ops {
                if let Some(v) = v {
                    ever.entry(k.clone()).or_default().insert(v.clone());
                }
            }
        }
    }
    // sanity: the unchanged image must read back as the truth
    let clean = read_state(&fs_image, params.cfg)?;
    if clean != truth {
        return Err("base image does not read back as the acknowledged state (see C01/C02)".into());
    }
    // state without the WAL
    let mut no_wal = fs_image.clone();
    let wal_paths: Vec<PathBuf> = no_wal.files.keys().filter(|p| classify(p) == PathClass::Wal).cloned().collect();
    for p in &wal_paths {
        no_wal.mutate(p, |b| b.clear());
    }
    let tables_only = read_state(&no_wal, params.cfg)?;
    // WAL batches = the suffix of acknowledged writes that takes tables_only to the truth
    let mut running = Map::new();
    let mut split = None;
    let mut states = vec![running.clone()];
    for a in &exec.acks {
        if a.ok {
            apply_to_map(&mut running, &a.ops);
        }
        states.push(running.clone());
    }
    for s in (0..states.len()).rev() {
        if states[s] == tables_only {
            split = Some(s);
            break;
        }
    }
    let split = split.ok_or("cannot align the WAL contents with the acknowledged writes")?;
    let wal_batches: Vec<Vec<WriteOp>> = exec.acks[split..].iter().filter(|a| a.ok).map(|a| a.ops.clone()).collect();
    let structure = build_structure(&exec, &fs_image);
    // which table file holds the newest version of each key
    let mut newest: BTreeMap<Vec<u8>, (u64, PathBuf)> = BTreeMap::new();
    {
        let fs = SimFs::from_image(&fs_image);
        let options = dbutil::options(fs.as_provider(), dbutil::DB_PATH, &params.cfg);
        for path in fs_image.files.keys().filter(|p| classify(p) == PathClass::Table) {
            let number = crate::simfs::file_number(path).ok_or("table without a number")?;
            let reader = raindb::verif::table::open(&options, number)?;
            let mut cur = reader.cursor(false);
            cur.seek_to_first()?;
            while cur.is_valid() {
                let (k, _) = cur.current().unwrap();
                let e = newest.entry(k.user_key.clone()).or_insert((0, path.clone()));
                if k.sequence >= e.0 {
                    *e = (k.sequence, path.clone());
                }
                cur.next();
            }
        }
    }
    let wal_keys: BTreeSet<Vec<u8>> = wal_batches.iter().flat_map(|b| b.iter().map(|(k, _)| k.clone())).collect();
    let owner: BTreeMap<Vec<u8>, PathBuf> = newest.into_iter().filter(|(k, _)| !wal_keys.contains(k)).map(|(k, (_, p))| (k, p)).collect();
    let description = json!({"execution": exec.description, "files": fs_image.listing(), "wal_batches": wal_batches.len(), "keys": truth.len()});
    Ok(Base {
        image: fs_image,
        truth,
        tables_only,
        wal_batches,
        ever,
        universe: exec.universe.clone(),
        cfg: params.cfg,
        structure,
        owner,
        description,
    })
}

/// A database whose only content is one write-ahead log of two or three 32 KiB blocks: values of
/// several hundred bytes, so that some batches straddle a block boundary and are stored as
/// First/Middle/Last fragments.
fn build_wal_base(rng: &mut Rng) -> Result<Base, String> {
    crate::director::director().reset(rng.next_u64());
    let cfg = Config { memtable: 4 << 20, file: 1 << 20, block: 4096, reuse: true };
    let fs = SimFs::from_image(&dbutil::root_image());
    fs.record_journal(true);
    let mut sess = Session::new(fs.clone(), cfg);
    sess.record_acks = true;
    sess.open()?;
    let pool = crate::gen::key_pool(rng, KeyFamily::Ascii, 40);
    let target = rng.range(40_000, 90_000) as usize;
    let mut written = 0usize;
    let mut counter = 0u64;
    let mut universe = BTreeSet::new();
    // The first record of the log is one batch of 600 puts of 120 bytes each (72 KB): it is stored
    // as First / Middle / Last fragments, and its entries are laid out so that the Middle fragment
    // starts nine bytes before an entry (text filler in the values).
    {
        let mut ops: Vec<WriteOp> = vec![];
        for i in 0..600u32 {
            let key = format!("k{i:05}").into_bytes();
            let mut value = format!("old-{i:05}-").into_bytes();
            value.resize(111, b'x');
            universe.insert(key.clone());
            ops.push((key, Some(value)));
        }
        sess.write(ops)?;
    }
    // One value carries the image of a complete log record of another database (an application
    // that stores log chunks or nested database files as values). The sizes are chosen so that one
    // flipped bit in the length field of this batch's log record makes "header + length" point at
    // the embedded image. The key of the embedded record is never written here.
    {
        let forged_key = b"zz-forged-key".to_vec();
        let other_fs = SimFs::from_image(&dbutil::root_image());
        let mut other = Session::new(other_fs.clone(), cfg);
        other.open()?;
        // (the forged record carries a sequence number above everything this log holds: recovery
        // skips records whose numbers it has already replayed)
        for i in 0..900u32 {
            other.put(format!("filler{i:04}").as_bytes(), b"x")?;
        }
        other.reopen(Config { reuse: false, ..cfg })?;
        other.put(&forged_key, b"FORGED-value-never-written-here!")?;
        other.close();
        let other_image = other_fs.image();
        let embedded: Vec<u8> = other_image.files.iter().filter(|(p, b)| classify(p) == PathClass::Wal && !b.is_empty()).max_by_key(|(p, _)| crate::simfs::file_number(p).unwrap_or(0)).map(|(_, b)| b.to_vec()).unwrap_or_default();
        if embedded.len() == 64 {
            let mut value = vec![b'p'; 20];
            value.extend_from_slice(&embedded);
            let blob_key = b"blob-key".to_vec();
            universe.insert(blob_key.clone());
            universe.insert(forged_key);
            sess.write(vec![(blob_key, Some(value))])?;
        }
    }
    // A sparse value: 70 000 zero bytes (its log record spans three blocks and its Middle fragment is
    // nothing but zeroes - read as a record of its own that is "sequence 0, no operations, then
    // left-over bytes").
    {
        let key = b"sparse-zero-value".to_vec();
        universe.insert(key.clone());
        sess.write(vec![(key, Some(vec![0u8; 70_000]))])?;
    }
    // A batch whose First fragment ends exactly between two of its operations: header + the first m
    // operations fill the rest of the current block to the byte, the other operations follow in the
    // next block. (Read alone, the First fragment is a well-formed prefix of the batch.)
    {
        let wal_len = |fs: &SimFs| -> usize { fs.image().files.iter().filter(|(p, _)| classify(p) == PathClass::Wal).map(|(_, b)| b.len()).max().unwrap_or(0) };
        let payload_of = |ops: &[WriteOp]| -> Result<usize, String> {
            let scratch_fs = SimFs::from_image(&dbutil::root_image());
            let mut scratch = Session::new(scratch_fs.clone(), cfg);
            scratch.open()?;
            scratch.write(ops.to_vec())?;
            let len = wal_len(&scratch_fs);
            scratch.close();
            Ok(len.saturating_sub(7))
        };
        let mut left = 32768 - wal_len(&fs) % 32768;
        if left < 2000 {
            // too little room in this block: move on to the next one first
            let key = b"aligned-filler".to_vec();
            universe.insert(key.clone());
            sess.write(vec![(key, Some(vec![b'f'; left + 100]))])?;
            left = 32768 - wal_len(&fs) % 32768;
        }
        let room = left - 7; // payload of the First fragment
        let m = 3usize;
        let mk = |i: usize, len: usize| -> WriteOp { (format!("al{i:04}").into_bytes(), Some(format!("aligned-{i:04}-").into_bytes().into_iter().chain(std::iter::repeat(b'a')).take(len).collect())) };
        let base_len = 200usize;
        let mut first_len = room.saturating_sub(400 + 2 * (base_len + 10));
        let mut head: Vec<WriteOp> = vec![];
        for _ in 0..4 {
            head = (0..m).map(|i| mk(i, if i == 0 { first_len } else { base_len })).collect();
            let p = payload_of(&head)?;
            if p == room {
                break;
            }
            first_len = (first_len as i64 + room as i64 - p as i64).max(20) as usize;
        }
        if payload_of(&head)? == room {
            let mut ops = head;
            for i in m..m + 4 {
                ops.push(mk(i, base_len));
            }
            // the last operation overwrites the first key: a prefix of the batch shows a value that was never committed
            ops.push(mk(0, 64));
            for (k, _) in &ops {
                universe.insert(k.clone());
            }
            sess.write(ops)?;
        }
    }
    while written < target {
        watch::tick();
        let mut ops: Vec<WriteOp> = vec![];
        let roll = rng.below(100);
        let n = if roll < 70 { 1 } else if roll < 85 { 0 } else { rng.range(2, 6) as usize };
        if n == 0 {
            ops.push((rng.pick(&pool).clone(), None));
        }
        for _ in 0..n {
            counter += 1;
            let len = if n == 1 { rng.range(300, 1600) } else { rng.range(100, 700) } as usize;
            let k = rng.pick(&pool).clone();
            ops.push((k, Some(crate::gen::tagged_value(rng, &format!("w{counter}:"), len))));
        }
        for (k, v) in &ops {
            universe.insert(k.clone());
            written += k.len() + v.as_ref().map_or(0, |v| v.len()) + 12;
        }
        sess.write(ops)?;
    }
    sess.close();
    let exec = Execution {
        journal: fs.take_journal(),
        acks: std::mem::take(&mut sess.acks),
        opens: vec![],
        universe: universe.clone(),
        final_cfg: cfg,
        description: json!({}),
        degenerate: None,
    };
    let fs_image = fs.image();
    let mut truth = Map::new();
    let mut ever: BTreeMap<Vec<u8>, BTreeSet<Vec<u8>>> = BTreeMap::new();
    let mut wal_batches = vec![];
    for a in &exec.acks {
        if a.ok {
            apply_to_map(&mut truth, &a.ops);
            wal_batches.push(a.ops.clone());
            for (k, v) in &a.ops {
                if let Some(v) = v {
                    ever.entry(k.clone()).or_default().insert(v.clone());
                }
            }
        }
    }
    let clean = read_state(&fs_image, cfg)?;
    if clean != truth {
        return Err("multi-block WAL base does not read back as the acknowledged state (see C01/C02)".into());
    }
    let tables: Vec<&PathBuf> = fs_image.files.keys().filter(|p| classify(p) == PathClass::Table).collect();
    if !tables.is_empty() {
        return Err("multi-block WAL base unexpectedly has table files".into());
    }
    let structure = build_structure(&exec, &fs_image);
    let wal_len: usize = fs_image.files.iter().filter(|(p, _)| classify(p) == PathClass::Wal).map(|(_, b)| b.len()).sum();
    let fragments: usize = structure.iter().filter(|(p, _)| classify(p) == PathClass::Wal).map(|(_, spans)| spans.iter().filter(|s| s.2 == "log-header-type").count()).sum();
    let description = json!({"execution": "one write-ahead log spanning several 32 KiB blocks, nothing flushed", "files": fs_image.listing(),
        "wal_batches": wal_batches.len(), "wal_bytes": wal_len, "wal_fragments": fragments, "keys": truth.len()});
    Ok(Base { image: fs_image, truth, tables_only: Map::new(), wal_batches, ever, universe, cfg, structure, owner: BTreeMap::new(), description })
}

fn structure_at(base: &Base, path: &PathBuf, offset: usize) -> &'static str {
    if let Some(spans) = base.structure.get(path) {
        for (s, e, label) in spans {
            if *s <= offset && offset < *e {
                return label;
            }
        }
    }
    "unclassified"
}

/// Is `state` = tables_only + some subset of the WAL batches applied in order?
fn is_subset_state(base: &Base, state: &Map) -> bool {
    let n = base.wal_batches.len();
    if n <= 16 {
        for mask in 0u32..(1u32 << n) {
            let mut m = base.tables_only.clone();
            for (i, b) in base.wal_batches.iter().enumerate() {
                if mask & (1 << i) != 0 {
                    apply_to_map(&mut m, b);
                }
            }
            if m == *state {
                return true;
            }
            if mask % 1024 == 0 {
                watch::tick();
            }
        }
        false
    } else {
        if *state == base.truth {
            return true;
        }
        // one damaged byte makes the reader skip a record, the rest of a block or everything
        // after a point: a contiguous run of batches. Values are unique, so a batch one of whose
        // puts is visible was applied, and a batch none of whose (not overwritten) puts is visible
        // was not; batches that only delete or are completely overwritten later are undecided.
        let mut last_writer: BTreeMap<&Vec<u8>, usize> = BTreeMap::new();
        for (bi, b) in base.wal_batches.iter().enumerate() {
            for (k, _) in b {
                last_writer.insert(k, bi);
            }
        }
        #[derive(Clone, Copy, PartialEq)]
        enum Seen {
            Yes,
            No,
            Unknown,
        }
        let flags: Vec<Seen> = base.wal_batches.iter().enumerate().map(|(bi, b)| {
            let mut flag = Seen::Unknown;
            for (k, v) in b {
                if let Some(v) = v {
                    if state.get(k) == Some(v) {
                        return Seen::Yes;
                    }
                    if last_writer.get(k) == Some(&bi) {
                        flag = Seen::No;
                    }
                }
            }
            flag
        }).collect();
        if let (Some(first_no), Some(last_no)) = (flags.iter().position(|f| *f == Seen::No), flags.iter().rposition(|f| *f == Seen::No)) {
            let mut lo = first_no;
            while lo > 0 && flags[lo - 1] == Seen::Unknown {
                lo -= 1;
            }
            let mut hi = last_no + 1;
            while hi < n && flags[hi] == Seen::Unknown {
                hi += 1;
            }
            for i in lo..=first_no {
                for j in (last_no + 1)..=hi {
                    let mut m = base.tables_only.clone();
                    for b in base.wal_batches[..i].iter().chain(base.wal_batches[j..].iter()) {
                        apply_to_map(&mut m, b);
                    }
                    if m == *state {
                        return true;
                    }
                    watch::tick();
                }
            }
        }
        // any other subset cannot be enumerated. Necessary conditions: a batch is applied as a
        // whole (judged on the keys that no other batch touches) ...
        let mut touched: BTreeMap<&Vec<u8>, usize> = BTreeMap::new();
        for b in &base.wal_batches {
            let keys: BTreeSet<&Vec<u8>> = b.iter().map(|(k, _)| k).collect();
            for k in keys {
                *touched.entry(k).or_default() += 1;
            }
        }
        for b in &base.wal_batches {
            let (mut applied, mut not_applied) = (0usize, 0usize);
            for (k, v) in b {
                if touched.get(k) != Some(&1) || base.tables_only.contains_key(k) || b.iter().filter(|(k2, _)| k2 == k).count() != 1 {
                    continue;
                }
                match v {
                    Some(v) => {
                        if state.get(k) == Some(v) {
                            applied += 1;
                        } else {
                            not_applied += 1;
                        }
                    }
                    None => {}
                }
            }
            if applied > 0 && not_applied > 0 {
                return false;
            }
        }
        // ... and every value shown was written for that key
        state.iter().all(|(k, v)| base.tables_only.get(k) == Some(v) || base.wal_batches.iter().any(|b| b.iter().any(|(bk, bv)| bk == k && bv.as_ref() == Some(v))))
    }
}

struct Observed {
    outcome: &'static str,
}

/// Open the mutated image and read everything; classify and judge.
#[allow(clippy::too_many_arguments)]
fn judge_image(out: &mut CaseOut, base: &Base, image: &Image, damaged: &PathBuf, file_class: PathClass, structure: &str, ctx: &Value, rng: &mut Rng) -> Observed {
    let mut cfg = Config { reuse: rng.chance(0.5), ..base.cfg };
    // a quarter of the damaged tables are read - and later compacted - by an instance whose file
    // size limit is one byte or a few hundred: every entry (or every few) closes its output file,
    // so a read error met while stepping an input arrives while *no* output is open, a state the
    // larger limit of the writing instance reaches only behind a run of dropped entries
    if file_class == PathClass::Table && rng.chance(0.25) {
        cfg.file = *rng.pick(&[1u64, 1, 300]);
        // (the size of an output counts flushed blocks only: with one-byte blocks every entry is flushed at once)
        cfg.block = 1;
    }
    let fs = SimFs::from_image(image);
    let mut sess = Session::new(fs, cfg);
    sess.fill_cache = false;
    if sess.open().is_err() {
        return Observed { outcome: "open-error" };
    }
    let violations_at_start = out.violations.len();
    let mut incomplete = false;
    let mut any_read_error = false;
    let mut failing_keys: BTreeSet<Vec<u8>> = BTreeSet::new();
    let mut state = Map::new();
    let wal_damage = file_class == PathClass::Wal;
    let sig_loc = format!("{}/{}", file_class.name(), structure);
    for k in &base.universe {
        match sess.get(k) {
            Err(_) => {
                any_read_error = true;
                failing_keys.insert(k.clone());
            }
            Ok(got) => {
                if let Some(v) = &got {
                    if !base.ever.get(k).map_or(false, |s| s.contains(v)) {
                        out.violate(
                            format!("C15/value-never-written-served/get/{sig_loc}"),
                            json!({"ctx": ctx, "key": show(k), "got": show(v)}),
                        );
                    }
                    state.insert(k.clone(), v.clone());
                }
                if !wal_damage && got.as_ref() != base.truth.get(k) {
                    let kind = match (&got, base.truth.get(k)) {
                        (None, Some(_)) => "committed-key-reported-missing",
                        (Some(_), None) => "deleted-key-resurrected",
                        _ => "stale-value-served",
                    };
                    out.violate(
                        format!("C15/wrong-data-served/get/{kind}/{sig_loc}"),
                        json!({"ctx": ctx, "key": show(k), "got": got.as_ref().map(|v| show(v)), "true_value": base.truth.get(k).map(|v| show(v))}),
                    );
                }
            }
        }
        if out.violations.len() > violations_at_start + 3 {
            // enough witnesses from this image; the state below would be incomplete
            incomplete = true;
            break;
        }
    }
    if incomplete {
        sess.close();
        return Observed { outcome: "violated" };
    }
    if wal_damage && !any_read_error && !is_subset_state(base, &state) {
        out.violate(
            format!("C15/wal-damage/state-is-not-tables-plus-whole-batches/{structure}"),
            json!({"ctx": ctx, "wal_batches": base.wal_batches.len(), "observed_entries": state.len(), "true_entries": base.truth.len(),
                "tables_only_entries": base.tables_only.len(),
                "observed": state.iter().take(6).map(|(k, v)| format!("{}={}", show(k), show(&v[..v.len().min(10)]))).collect::<Vec<_>>(),
                "wal_batch_keys": base.wal_batches.iter().map(|b| b.iter().map(|(k, v)| format!("{}{}", if v.is_some() { "+" } else { "-" }, show(k))).collect::<Vec<_>>()).collect::<Vec<_>>(),
                "files_after": sess.fs.image().listing(), "recovered_with": cfg.describe()}),
        );
    }
    // scan
    match sess.scan(None) {
        Err(_) => any_read_error = true,
        Ok(entries) => {
            let scanned: Map = entries.iter().cloned().collect();
            let ordered = entries.windows(2).all(|w| w[0].0 < w[1].0);
            if !ordered {
                out.violate(format!("C15/scan-out-of-order-or-repeats/{sig_loc}"), json!({"ctx": ctx}));
            }
            for (k, v) in &scanned {
                if !base.ever.get(k).map_or(false, |s| s.contains(v)) {
                    out.violate(format!("C15/value-never-written-served/scan/{sig_loc}"), json!({"ctx": ctx, "key": show(k), "got": show(v)}));
                    break;
                }
            }
            if wal_damage {
                if !is_subset_state(base, &scanned) {
                    out.violate(format!("C15/wal-damage/scan-is-not-tables-plus-whole-batches/{structure}"), json!({"ctx": ctx}));
                }
            } else if scanned != base.truth {
                let omitted: Vec<&Vec<u8>> = base.truth.keys().filter(|k| !scanned.contains_key(*k)).collect();
                let wrong: Vec<&Vec<u8>> = scanned.iter().filter(|(k, v)| base.truth.get(*k) != Some(*v)).map(|(k, _)| k).collect();
                // D11's shape: an iterator that meets an unreadable table block only logs the error
                // and drops the rest of that file from the merge, and the public iterator has no
                // status(). The scan then omits keys or shows older versions from deeper files.
                // The scan may also simply end at that point. It is that shape only if the damaged
                // file is a table and every key shown with an older (or resurrected) version has
                // its newest version stored in that very file; omitted keys are not restricted
                // because the merged scan can end early.
                let explained = file_class == PathClass::Table && wrong.iter().all(|k| base.owner.get(*k) == Some(damaged));
                let where_is = |k: &Vec<u8>| -> String {
                    format!("{} -> newest table copy in {:?}, touched by WAL: {}", show(k), base.owner.get(k).map(|p| p.file_name().unwrap().to_string_lossy().to_string()),
                        base.wal_batches.iter().any(|b| b.iter().any(|(bk, _)| bk == k)))
                };
                let detail = json!({"ctx": ctx, "scan_returned": scanned.len(), "true_entries": base.truth.len(),
                    "scan_keys": entries.iter().map(|(k, _)| show(k)).collect::<Vec<_>>(),
                    "affected_keys": omitted.iter().chain(wrong.iter()).take(8).map(|k| where_is(k)).collect::<Vec<_>>(),
                    "omitted": omitted.iter().take(5).map(|k| show(k)).collect::<Vec<_>>(),
                    "stale_or_resurrected": wrong.iter().take(5).map(|k| show(k)).collect::<Vec<_>>(),
                    "keys_whose_get_fails": failing_keys.iter().take(5).map(|k| show(k)).collect::<Vec<_>>()});
                if explained && wrong.is_empty() {
                    out.violate("C15/scan-truncated-silently/table-block-unreadable", detail);
                } else if explained {
                    out.violate("C15/scan-serves-older-versions-silently/table-block-unreadable", detail);
                } else if wrong.is_empty() {
                    out.violate(format!("C15/wrong-data-served/scan/omits-keys-whose-get-succeeds/{sig_loc}"), detail);
                } else {
                    out.violate(format!("C15/wrong-data-served/scan/stale-or-resurrected-entries/{sig_loc}"), detail);
                }
            }
        }
    }
    // A scan that ends with an error has failed as a whole - but what it handed out before it said
    // so has been served as data: every entry yielded must be the true entry of its key (for WAL
    // damage: a value that was written for it), in order, both directions. Omissions are what the
    // error stands for; an overwritten value or a deleted key is not.
    if !wal_damage {
        for backward in [false, true] {
            if let Ok((entries, Some(_err))) = sess.scan_keeping_partial(None, backward) {
                out.add("scans_that_ended_with_an_error", 1);
                out.add("entries_yielded_before_the_error", entries.len() as u64);
                let wrong: Vec<String> = entries.iter().filter(|(k, v)| base.truth.get(k) != Some(v)).take(5)
                    .map(|(k, v)| format!("{}={} (true: {})", show(k), show(&v[..v.len().min(12)]), base.truth.get(k).map_or("<absent>".to_string(), |t| show(&t[..t.len().min(12)])))).collect();
                let ordered = entries.windows(2).all(|w| if backward { w[0].0 > w[1].0 } else { w[0].0 < w[1].0 });
                if !wrong.is_empty() || !ordered {
                    let kind = if !ordered { "out-of-order" } else if entries.iter().any(|(k, _)| !base.truth.contains_key(k)) { "deleted-key-resurrected" } else { "stale-value-served" };
                    out.violate(
                        format!("C15/wrong-data-served/{}scan-yielded-before-reporting-its-error/{kind}/{sig_loc}", if backward { "backward-" } else { "" }),
                        json!({"ctx": ctx, "entries_yielded": entries.len(), "wrong": wrong}),
                    );
                    break;
                }
            }
        }
    }
    // backward scan: same oracle (entries returned in descending order)
    match sess.scan_back(None) {
        Err(_) => any_read_error = true,
        Ok(entries) => {
            let scanned: Map = entries.iter().cloned().collect();
            if wal_damage {
                if !is_subset_state(base, &scanned) {
                    out.violate(format!("C15/wal-damage/backward-scan-is-not-tables-plus-whole-batches/{structure}"), json!({"ctx": ctx}));
                }
            } else if scanned != base.truth {
                let omitted: Vec<String> = base.truth.keys().filter(|k| !scanned.contains_key(*k)).take(5).map(|k| show(k)).collect();
                let wrong: Vec<String> = scanned.iter().filter(|(k, v)| base.truth.get(*k) != Some(*v)).take(5).map(|(k, _)| show(k)).collect();
                let kind = if wrong.is_empty() { "omits-keys" } else { "stale-or-resurrected-entries" };
                out.violate(
                    format!("C15/wrong-data-served/backward-scan/{kind}/{sig_loc}"),
                    json!({"ctx": ctx, "scan_returned": scanned.len(), "true_entries": base.truth.len(), "omitted": omitted, "stale_or_resurrected": wrong}),
                );
            }
        }
    }
    // Damage that the reads above ran into must also stop a compaction from "cleaning it up":
    // compact the whole range over the damaged table and read everything again. The compaction
    // may fail (and put the database into its error state); what it must not do is succeed by
    // leaving out what it could not read and then delete the damaged input.
    if file_class == PathClass::Table && any_read_error && watch::bg_panics().is_empty() {
        sess.compact(None, None);
        sess.wait_quiescent(std::time::Duration::from_secs(10));
        let mut after = Map::new();
        let mut complete = true;
        for k in &base.universe {
            match sess.get(k) {
                Err(_) => complete = false,
                Ok(got) => {
                    if got.as_ref() != base.truth.get(k) {
                        let kind = match (&got, base.truth.get(k)) {
                            (None, Some(_)) => "committed-key-reported-missing",
                            (Some(_), None) => "deleted-key-resurrected",
                            _ => "stale-value-served",
                        };
                        out.violate(
                            format!("C15/wrong-data-served/get-after-compaction/{kind}/{sig_loc}"),
                            json!({"ctx": ctx, "key": show(k), "got": got.as_ref().map(|v| show(v)), "true_value": base.truth.get(k).map(|v| show(v)),
                                "damaged_file_still_there": sess.fs.image().files.contains_key(damaged), "sticky_error": sess.bad_state()}),
                        );
                        break;
                    }
                    if let Some(v) = got {
                        after.insert(k.clone(), v);
                    }
                }
            }
        }
        if let Ok(entries) = sess.scan(None) {
            let scanned: Map = entries.into_iter().collect();
            if scanned != base.truth {
                out.violate(format!("C15/wrong-data-served/scan-after-compaction/{sig_loc}"), json!({"ctx": ctx, "scan_returned": scanned.len(), "true_entries": base.truth.len(),
                    "damaged_file_still_there": sess.fs.image().files.contains_key(damaged), "sticky_error": sess.bad_state()}));
            }
        }
        let _ = (complete, after);
        out.add("compactions_over_damaged_tables", 1);
    }
    // Life goes on after the damage: when everything could be read, the database that opened on
    // the damaged image takes three more writes (an overwrite, a deletion, a new key), is closed
    // cleanly and opened again with log reuse on. Whatever the first recovery made of the damage,
    // those acknowledged writes and the state it had shown must be what comes back ("everything it
    // does return is still correct" - a deleted key must not return, an overwritten value must not
    // resurface).
    if !any_read_error && out.violations.len() == violations_at_start && sess.bad_state().is_none() && watch::bg_panics().is_empty()
        && (file_class != PathClass::Table || rng.chance(0.25))
    {
        if let Ok(entries) = sess.scan(None) {
            let mut expected: Map = entries.into_iter().collect();
            let mut ops: Vec<crate::session::WriteOp> = vec![];
            let keys: Vec<Vec<u8>> = expected.keys().cloned().collect();
            if let Some(k) = keys.first() {
                ops.push((k.clone(), Some(b"after-damage:overwritten".to_vec())));
            }
            if let Some(k) = keys.last().filter(|_| keys.len() >= 2) {
                ops.push((k.clone(), None));
            }
            ops.push((b"~after-damage-new-key".to_vec(), Some(b"after-damage:new".to_vec())));
            let mut refused = false;
            for op in ops {
                crate::session::apply_to_map(&mut expected, std::slice::from_ref(&op));
                if sess.write(vec![op]).is_err() {
                    refused = true;
                    break;
                }
            }
            if !refused {
                let cfg2 = Config { reuse: true, ..cfg };
                match sess.reopen(cfg2) {
                    Err(e) => {
                        // refusing to open is detection, not service of wrong data
                        let _ = e;
                        out.add("reopen_after_post_damage_writes_refused", 1);
                        return Observed { outcome: if any_read_error { "read-error" } else { "harmless" } };
                    }
                    Ok(()) => match sess.scan(None) {
                        Ok(entries) => {
                            let got: Map = entries.into_iter().collect();
                            out.add("post_damage_write_rounds", 1);
                            if got != expected {
                                let lost: Vec<String> = expected.iter().filter(|(k, v)| got.get(*k) != Some(*v)).take(4).map(|(k, v)| format!("{} should be {}", show(k), show(&v[..v.len().min(24)]))).collect();
                                let extra: Vec<String> = got.iter().filter(|(k, v)| expected.get(*k) != Some(*v)).take(4).map(|(k, v)| format!("{} is {}", show(k), show(&v[..v.len().min(24)]))).collect();
                                let kind = if got.iter().any(|(k, _)| !expected.contains_key(k)) { "deleted-key-resurrected" } else if lost.iter().any(|l| l.contains("after-damage")) { "acknowledged-write-lost" } else { "earlier-state-changed" };
                                out.violate(format!("C15/wrong-data-served/after-writes-and-clean-reopen/{kind}/{sig_loc}"),
                                    json!({"ctx": ctx, "missing_or_different": lost, "unexpected": extra, "reuse_log_files_at_first_open": cfg.reuse}));
                            }
                        }
                        Err(_) => {
                            out.add("reopen_after_post_damage_writes_read_error", 1);
                        }
                    },
                }
            }
        }
    }
    let outcome = if any_read_error {
        "read-error"
    } else if wal_damage && state != base.truth {
        "wal-batches-skipped"
    } else {
        "harmless"
    };
    if watch::bg_panics().is_empty() {
        sess.close();
    } else {
        // a dead compaction thread would make close wait forever
        std::mem::forget(sess);
    }
    Observed { outcome }
}

fn get_varint(b: &[u8], at: &mut usize) -> Option<u64> {
    let mut v = 0u64;
    for shift in (0..64).step_by(7) {
        let byte = *b.get(*at)?;
        *at += 1;
        v |= ((byte & 0x7f) as u64) << shift;
        if byte & 0x80 == 0 {
            return Some(v);
        }
    }
    None
}

fn put_varint(out: &mut Vec<u8>, mut v: u64) {
    while v >= 0x80 {
        out.push((v as u8) | 0x80);
        v >>= 7;
    }
    out.push(v as u8);
}

/// The table with the index handle of its footer redirected to another *intact* block of the same
/// file: the filter block (whose handle is the value of the metaindex block's one entry) or, with
/// `to_metaindex`, the metaindex block. The block read through the redirected handle passes its
/// checksum - it is just not an index.
/// As `redirect_index_handle`, the target being the table's first data block (the handle in the
/// first entry of the index block): a block of internal keys, like an index, but its values are
/// user values.
fn redirect_index_handle_to_first_data_block(table: &[u8]) -> Option<Vec<u8>> {
    let len = table.len();
    if len < 48 {
        return None;
    }
    let footer = &table[len - 48..];
    let mut at = 0usize;
    let (meta_off, meta_size) = (get_varint(footer, &mut at)?, get_varint(footer, &mut at)?);
    let (idx_off, idx_size) = (get_varint(footer, &mut at)? as usize, get_varint(footer, &mut at)? as usize);
    let block = table.get(idx_off..idx_off + idx_size)?;
    let mut p = 0usize;
    let (_shared, non_shared, value_len) = (get_varint(block, &mut p)?, get_varint(block, &mut p)? as usize, get_varint(block, &mut p)? as usize);
    let value = block.get(p + non_shared..p + non_shared + value_len)?;
    let mut q = 0usize;
    let target = (get_varint(value, &mut q)?, get_varint(value, &mut q)?);
    let mut new_footer = vec![];
    put_varint(&mut new_footer, meta_off);
    put_varint(&mut new_footer, meta_size);
    put_varint(&mut new_footer, target.0);
    put_varint(&mut new_footer, target.1);
    if new_footer.len() > 40 {
        return None;
    }
    new_footer.resize(40, 0);
    new_footer.extend_from_slice(&footer[40..]);
    let mut out = table[..len - 48].to_vec();
    out.extend_from_slice(&new_footer);
    Some(out)
}

/// The handles of the data blocks, read from the index block the footer names.
fn data_block_handles(table: &[u8]) -> Vec<(u64, u64)> {
    let mut out = vec![];
    let len = table.len();
    if len < 48 {
        return out;
    }
    let footer = &table[len - 48..];
    let mut at = 0usize;
    let (Some(_), Some(_)) = (get_varint(footer, &mut at), get_varint(footer, &mut at)) else { return out };
    let (Some(idx_off), Some(idx_size)) = (get_varint(footer, &mut at), get_varint(footer, &mut at)) else { return out };
    let Some(block) = table.get(idx_off as usize..(idx_off + idx_size) as usize) else { return out };
    if block.len() < 4 {
        return out;
    }
    let restarts = u32::from_le_bytes([block[block.len() - 4], block[block.len() - 3], block[block.len() - 2], block[block.len() - 1]]) as usize;
    let Some(end) = block.len().checked_sub(4 * (1 + restarts)) else { return out };
    let mut p = 0usize;
    while p < end && out.len() < 64 {
        let (Some(_shared), Some(non_shared), Some(value_len)) = (get_varint(block, &mut p), get_varint(block, &mut p), get_varint(block, &mut p)) else { break };
        p += non_shared as usize;
        let Some(value) = block.get(p..p + value_len as usize) else { break };
        p += value_len as usize;
        let mut q = 0usize;
        if let (Some(o), Some(s)) = (get_varint(value, &mut q), get_varint(value, &mut q)) {
            out.push((o, s));
        }
    }
    out
}

/// The table with its footer's index handle set to `target`.
fn with_index_handle(table: &[u8], target: (u64, u64)) -> Option<Vec<u8>> {
    let len = table.len();
    let footer = table.get(len.checked_sub(48)?..)?;
    let mut at = 0usize;
    let (meta_off, meta_size) = (get_varint(footer, &mut at)?, get_varint(footer, &mut at)?);
    let mut new_footer = vec![];
    put_varint(&mut new_footer, meta_off);
    put_varint(&mut new_footer, meta_size);
    put_varint(&mut new_footer, target.0);
    put_varint(&mut new_footer, target.1);
    if new_footer.len() > 40 {
        return None;
    }
    new_footer.resize(40, 0);
    new_footer.extend_from_slice(&footer[40..]);
    let mut out = table[..len - 48].to_vec();
    out.extend_from_slice(&new_footer);
    Some(out)
}

fn redirect_index_handle(table: &[u8], to_metaindex: bool) -> Option<Vec<u8>> {
    let len = table.len();
    if len < 48 {
        return None;
    }
    let footer = &table[len - 48..];
    let mut at = 0usize;
    let (meta_off, meta_size) = (get_varint(footer, &mut at)? as usize, get_varint(footer, &mut at)? as usize);
    let target = if to_metaindex {
        (meta_off as u64, meta_size as u64)
    } else {
        // first entry of the metaindex block: shared, non_shared, value_len, key, value
        let block = table.get(meta_off..meta_off + meta_size)?;
        let mut p = 0usize;
        let (_shared, non_shared, value_len) = (get_varint(block, &mut p)?, get_varint(block, &mut p)? as usize, get_varint(block, &mut p)? as usize);
        let value = block.get(p + non_shared..p + non_shared + value_len)?;
        let mut q = 0usize;
        (get_varint(value, &mut q)?, get_varint(value, &mut q)?)
    };
    let mut new_footer = vec![];
    put_varint(&mut new_footer, meta_off as u64);
    put_varint(&mut new_footer, meta_size as u64);
    put_varint(&mut new_footer, target.0);
    put_varint(&mut new_footer, target.1);
    if new_footer.len() > 40 {
        return None;
    }
    new_footer.resize(40, 0);
    new_footer.extend_from_slice(&footer[40..]);
    let mut out = table[..len - 48].to_vec();
    out.extend_from_slice(&new_footer);
    Some(out)
}

/// Every footer position of every table of one small base, overlaid with continuation-bit bytes
/// (for C09: none of the calls made on such an image may panic or hang). Returns (images, images on
/// which a call panicked).
pub fn footer_sweep(seed: u64, idx: u64) -> (u64, u64) {
    let mut rng = Rng::new(mix(&[seed, idx], "c15-footer-sweep"));
    let base = match build_base(&mut rng, idx % 2) {
        Ok(b) => b,
        Err(_) => return (0, 0),
    };
    let mut scratch = CaseOut::new();
    let (mut images, mut panicked) = (0u64, 0u64);
    let tables: Vec<PathBuf> = base.image.files.keys().filter(|p| classify(p) == PathClass::Table).cloned().collect();
    for path in &tables {
        let len = base.image.files[path].len();
        if len < 48 {
            continue;
        }
        for to_metaindex in [false, true] {
            if let Some(redirected) = redirect_index_handle(&base.image.files[path], to_metaindex) {
                watch::tick();
                let mut image = base.image.clone();
                image.mutate(path, |b| *b = redirected.clone());
                let ctx = json!({"file": path.display().to_string(), "index_handle_redirected_to": if to_metaindex { "metaindex block" } else { "filter block" }});
                images += 1;
                let r = catch_unwind(AssertUnwindSafe(|| judge_image(&mut scratch, &base, &image, path, PathClass::Table, "footer", &ctx, &mut rng)));
                if r.is_err() {
                    panicked += 1;
                }
            }
        }
        for p in 0..12usize {
            for fill in [0xffu8, 0x80u8] {
                watch::tick();
                let start = len - 48 + p;
                let run = 10 + (p % 3) * 9;
                let mut image = base.image.clone();
                image.mutate(path, |b| b[start..start + run].iter_mut().for_each(|x| *x = fill));
                let ctx = json!({"file": path.display().to_string(), "footer_position": p, "fill": fill});
                images += 1;
                let r = catch_unwind(AssertUnwindSafe(|| judge_image(&mut scratch, &base, &image, path, PathClass::Table, "footer", &ctx, &mut rng)));
                if r.is_err() {
                    panicked += 1;
                }
            }
            for n_ff in [6usize, 8] {
                watch::tick();
                let start = len - 48 + p;
                let mut image = base.image.clone();
                image.mutate(path, |b| {
                    b[start..start + n_ff].iter_mut().for_each(|x| *x = 0xff);
                    b[start + n_ff] = 0x7f;
                });
                let ctx = json!({"file": path.display().to_string(), "footer_position": p, "varint_of_ff_bytes": n_ff});
                images += 1;
                watch::emit(&json!({"t": "at", "image": format!("footer of {} position {p}: varint of {n_ff} x 0xff + 0x7f", path.display())}));
                let r = catch_unwind(AssertUnwindSafe(|| judge_image(&mut scratch, &base, &image, path, PathClass::Table, "footer", &ctx, &mut rng)));
                if r.is_err() {
                    panicked += 1;
                }
            }
        }
    }
    (images, panicked)
}

pub fn run_case(tier: &str, seed: u64, idx: u64) -> CaseOut {
    let mut out = CaseOut::new();
    let base_idx = idx / SLICES;
    let slice = idx % SLICES;
    let mut rng = Rng::new(mix(&[seed, base_idx], "c15-base"));
    watch::set_case_limit(std::time::Duration::from_secs(3000));
    let wal_family = base_idx >= n_small_bases(tier);
    let built = if wal_family { build_wal_base(&mut rng) } else { build_base(&mut rng, base_idx) };
    let base = match built {
        Ok(b) => b,
        Err(e) => {
            out.inconclusive(e);
            return out;
        }
    };
    let mut rng = Rng::new(mix(&[seed, idx], "c15-mut"));
    let thorough = tier != "quick";
    let files: Vec<PathBuf> = base.image.files.keys().filter(|p| !matches!(classify(p), PathClass::Lock | PathClass::Dir | PathClass::Other)).cloned().collect();
    let mut files = files;
    files.sort_by_key(|p| match classify(p) {
        PathClass::Wal => 0,
        PathClass::Current => 1,
        PathClass::Table => 2,
        _ => 3,
    });
    let mut images = 0u64;
    for path in &files {
        let class = classify(path);
        let len = base.image.files[path].len();
        let mut mutations: Vec<(usize, String, Box<dyn Fn(&mut Vec<u8>)>)> = vec![];
        // multi-block WAL family: every byte of every fragment header with every mutation kind, the
        // first payload bytes of each fragment and a sample of the rest
        let header_or_sampled = |o: usize| -> (bool, bool) {
            let st = structure_at(&base, path, o);
            let header = st.starts_with("log-header");
            (header, header || o % 241 == 0 || (o >= 1 && structure_at(&base, path, o - 1).starts_with("log-header")))
        };
        for (n, offset) in (0..len).filter(|o| !wal_family || header_or_sampled(*o).1).enumerate().filter(|(n, o)| if wal_family { (*n as u64) % SLICES == slice } else { (*o as u64) % SLICES == slice }).map(|(n, o)| (n, o)) {
            let _ = n;
            let all_kinds = thorough || structure_at(&base, path, offset).starts_with("log-header");
            let kinds: Vec<u8> = if all_kinds { (0..10).collect() } else { vec![rng.below(8) as u8, 8 + (offset as u8 / 16) % 2] };
            for kind in kinds {
                let r = rng.below(255) as u8 + 1;
                match kind {
                    0..=7 => mutations.push((offset, format!("flip bit {kind}"), Box::new(move |b: &mut Vec<u8>| b[offset] ^= 1 << kind))),
                    8 => mutations.push((offset, "zero".into(), Box::new(move |b: &mut Vec<u8>| b[offset] = 0))),
                    _ => mutations.push((offset, format!("xor {r:#x}"), Box::new(move |b: &mut Vec<u8>| b[offset] ^= r))),
                }
            }
        }
        // runs of damaged bytes (a zeroed or overwritten sector): they may cross block, fragment and
        // footer boundaries, which no single-byte mutation does
        {
            let runs = if thorough { 12 } else { 1 };
            for _ in 0..runs {
                if len < 4 {
                    break;
                }
                // one run in three is aimed at the last 48 bytes (a table's footer: two block handles,
                // padding, magic number - the only part of a table no checksum covers)
                let start = if rng.chance(0.34) && len > 48 { len - 48 + rng.usize_below(40) } else { rng.usize_below(len) };
                let run = (rng.range(2, 700) as usize).min(len - start);
                let garbage = rng.bytes(run);
                let how = rng.below(3);
                if how == 0 {
                    mutations.push((start, format!("zero run of {run}"), Box::new(move |b: &mut Vec<u8>| b[start..start + run].iter_mut().for_each(|x| *x = 0))));
                } else if how == 1 {
                    // what an erased or unreadable sector often reads as
                    mutations.push((start, format!("0xff run of {run}"), Box::new(move |b: &mut Vec<u8>| b[start..start + run].iter_mut().for_each(|x| *x = 0xff))));
                } else {
                    mutations.push((start, format!("garbage run of {run}"), Box::new(move |b: &mut Vec<u8>| b[start..start + run].copy_from_slice(&garbage))));
                }
            }
        }
        // a region that is exactly one intact record of a write-ahead log appears twice (a misdirected
        // or repeated write): appended once more at the end, or repeated in place
        if class == PathClass::Wal && len < 32_000 && (slice < 4 || thorough) {
            let bytes = base.image.files[path].clone();
            let mut records: Vec<(usize, usize)> = vec![];
            let mut o = 0usize;
            while o + 7 <= bytes.len() {
                let l = u16::from_le_bytes([bytes[o + 4], bytes[o + 5]]) as usize;
                if bytes[o + 6] != 0 || o + 7 + l > bytes.len() {
                    break;
                }
                records.push((o, 7 + l));
                o += 7 + l;
            }
            if !records.is_empty() {
                let picks = [0usize, records.len() - 1, rng.usize_below(records.len()), rng.usize_below(records.len())];
                let (start, n) = records[picks[(slice % 4) as usize]];
                let copy: Vec<u8> = bytes[start..start + n].to_vec();
                let copy2 = copy.clone();
                mutations.push((start, format!("record of {n} bytes appended once more at the end"), Box::new(move |b: &mut Vec<u8>| b.extend_from_slice(&copy))));
                mutations.push((start, format!("record of {n} bytes repeated in place"), Box::new(move |b: &mut Vec<u8>| {
                    let tail = b.split_off(start + n);
                    b.extend_from_slice(&copy2);
                    b.extend_from_slice(&tail);
                })));
            }
        }
        // the index handle of the footer redirected to another intact block of the same file (its
        // filter block, its metaindex block): the checksum of what is read is fine
        if class == PathClass::Table && (slice == 5 || thorough) {
            if let Some(redirected) = redirect_index_handle_to_first_data_block(&base.image.files[path]) {
                mutations.push((len - 48, "index handle redirected to the first data block".to_string(), Box::new(move |b: &mut Vec<u8>| *b = redirected.clone())));
            }
            // ... and to every other data block (among them blocks that hold a single long value,
            // whose first bytes read as a block handle)
            for (n, handle) in data_block_handles(&base.image.files[path]).into_iter().enumerate().skip(1).take(12) {
                if let Some(redirected) = with_index_handle(&base.image.files[path], handle) {
                    mutations.push((len - 48, format!("index handle redirected to data block {n}"), Box::new(move |b: &mut Vec<u8>| *b = redirected.clone())));
                }
            }
            for to_metaindex in [false, true] {
                if let Some(redirected) = redirect_index_handle(&base.image.files[path], to_metaindex) {
                    let what = if to_metaindex { "index handle redirected to the metaindex block" } else { "index handle redirected to the filter block" };
                    mutations.push((len - 48, what.to_string(), Box::new(move |b: &mut Vec<u8>| *b = redirected.clone())));
                }
            }
        }
        // the footer of a table (two block handles as varints, padding, magic number) is covered by no
        // checksum: stretches of bytes with the continuation bit set (0xff, 0x80) laid over each
        // position of the handles, the magic number left alone
        if class == PathClass::Table && len >= 48 {
            for p in (0..12usize).filter(|p| thorough || (*p as u64) % SLICES == slice % 12) {
                for (fill, name) in [(0xffu8, "0xff"), (0x80u8, "0x80")] {
                    let start = len - 48 + p;
                    let run = 10 + (p % 3) * 9; // 10, 19 or 28 bytes: always short of the magic number
                    mutations.push((start, format!("{name} run of {run}"), Box::new(move |b: &mut Vec<u8>| b[start..start + run].iter_mut().for_each(|x| *x = fill))));
                }
                // a varint that does terminate - at an absurd value (2^49 and 2^63): a handle that
                // names a block of petabytes
                for (n_ff, name) in [(6usize, "varint 2^49"), (8usize, "varint 2^63")] {
                    let start = len - 48 + p;
                    mutations.push((start, format!("{name} run of {}", n_ff + 1), Box::new(move |b: &mut Vec<u8>| {
                        b[start..start + n_ff].iter_mut().for_each(|x| *x = 0xff);
                        b[start + n_ff] = 0x7f;
                    })));
                }
            }
        }
        if class == PathClass::Table && thorough {
            for cut in (0..len).filter(|o| (*o as u64) % SLICES == slice) {
                mutations.push((cut, "truncate".into(), Box::new(move |b: &mut Vec<u8>| b.truncate(cut))));
            }
        } else if class == PathClass::Table {
            let cut = rng.usize_below(len.max(1));
            mutations.push((cut, "truncate".into(), Box::new(move |b: &mut Vec<u8>| b.truncate(cut))));
        }
        for (offset, what, f) in mutations {
            watch::tick();
            let before = base.image.files[path].clone();
            let mut image = base.image.clone();
            image.mutate(path, |b| f(b));
            if *image.files[path] == *before {
                continue; // the mutation did not change the byte (zeroing a zero)
            }
            let mut structure = structure_at(&base, path, offset);
            if what.starts_with("record of ") {
                structure = "log-record-duplicated";
            }
            if what.starts_with("index handle redirected") {
                structure = "footer-handle-redirected";
            }
            if let Some(run) = what.split(" run of ").nth(1).and_then(|n| n.parse::<usize>().ok()) {
                // a run is named after the most consequential field it covers: a fragment header's
                // length (what decides where the reader goes next), else its type, else where it starts
                let covered: Vec<&'static str> = (offset..(offset + run).min(len)).map(|o| structure_at(&base, path, o)).collect();
                if let Some(s) = covered.iter().find(|s| s.starts_with("log-header-length")) {
                    structure = s;
                } else if let Some(s) = covered.iter().find(|s| s.starts_with("log-header-type")) {
                    structure = s;
                }
            }
            let ctx = json!({"base": base.description, "file": path.display().to_string(), "offset": offset, "of": len, "mutation": what, "structure": structure});
            images += 1;
            let panics_before = watch::peek_panics().len();
            let result = catch_unwind(AssertUnwindSafe(|| judge_image(&mut out, &base, &image, path, class, structure, &ctx, &mut rng)));
            let outcome = match result {
                Ok(o) => o.outcome,
                Err(_) => "detected-by-panic",
            };
            if watch::peek_panics().len() > panics_before && outcome != "detected-by-panic" {
                out.add("background_panics_on_damaged_input", 1);
            }
            out.add(&format!("outcome.{}.{}", class.name(), outcome), 1);
            if what.starts_with("index handle redirected") {
                out.add(&format!("footer_handle_redirections.{outcome}"), 1);
            }
            if outcome != "harmless" {
                out.nontrivial(format!("{}/{}/{}", class.name(), structure, outcome));
            }
            out.set_add("structures_hit", format!("{}/{}", class.name(), structure));
        }
    }
    out.add("mutated_images", images);
    if wal_family {
        out.add("multi_block_wal_images", images);
    }
    out.sample = Some(json!({"family": if wal_family { "byte-mutation-sweep/multi-block-wal" } else { "byte-mutation-sweep" }, "base": base.description, "slice": format!("offsets = {slice} mod {SLICES}"),
        "mutations_per_offset": if thorough { "8 bit flips + zero + random xor; every truncation length of tables" } else { "1 random bit flip + zero or random xor; one random truncation per table" },
        "images": images}));
    out
}
