//! C01 — reads return the latest committed write, wherever the data lives.

use std::collections::BTreeSet;
use std::collections::hash_map::DefaultHasher;
use std::hash::{Hash, Hasher};

use serde_json::json;

use crate::history::{self, HistoryParams, Observer};
use crate::report::{show, show_opt, CaseOut};
use crate::rng::{mix, Rng};
use crate::session::{shape_string, Session};

pub fn plan(tier: &str) -> u64 {
    match tier {
        "quick" => 160,
        _ => 600,
    }
}

pub struct GetOracle {
    pub prop: &'static str,
    pub verified: u64,
}

fn mismatch_class(expected: Option<&Vec<u8>>, got: &Option<Vec<u8>>) -> &'static str {
    match (expected, got) {
        (Some(_), None) => "committed-value-missing",
        (None, Some(_)) => "deleted-or-unwritten-key-has-value",
        _ => "wrong-value",
    }
}

impl GetOracle {
    pub fn judge(&mut self, sess: &Session, out: &mut CaseOut, key: &[u8], got: &Result<Option<Vec<u8>>, String>, reason: &str) {
        self.verified += 1;
        let expected = sess.model.get(key);
        match got {
            Err(e) => out.violate(
                format!("{}/get-error-without-fault/{}", self.prop, reason),
                json!({"key": show(key), "error": e, "expected": show_opt(expected.map(|v| v.as_slice())),
                    "shape": shape_string(&sess.shape()), "config": sess.cfg.describe(), "recent_ops": sess.recent_ops(15)}),
            ),
            Ok(got) => {
                if got.as_ref() != expected {
                    let holders: Vec<String> = sess
                        .db()
                        .verif_files()
                        .iter()
                        .filter(|f| f.smallest.user_key.as_slice() <= key && key <= f.largest.user_key.as_slice())
                        .map(|f| format!("L{}#{}[{}@{}..{}@{}]", f.level, f.number, show(&f.smallest.user_key), f.smallest.sequence, show(&f.largest.user_key), f.largest.sequence))
                        .collect();
                    out.violate(
                        format!("{}/get-mismatch/{}/{}", self.prop, mismatch_class(expected, got), reason),
                        json!({"key": show(key), "expected": show_opt(expected.map(|v| v.as_slice())), "got": show_opt(got.as_deref()),
                            "shape": shape_string(&sess.shape()), "files_covering_key": holders, "config": sess.cfg.describe(),
                            "reopens_so_far": sess.reopens, "recent_ops": sess.recent_ops(15)}),
                    );
                }
            }
        }
    }
}

impl Observer for GetOracle {
    fn checkpoint(&mut self, sess: &mut Session, out: &mut CaseOut, universe: &BTreeSet<Vec<u8>>, reason: &str) {
        let mut probes: BTreeSet<Vec<u8>> = universe.clone();
        for k in universe.iter().take(40) {
            let mut after = k.clone();
            after.push(0);
            probes.insert(after);
            if !k.is_empty() {
                probes.insert(k[..k.len() - 1].to_vec());
            }
        }
        for k in probes {
            let got = sess.get(&k);
            out.add("verified_gets", 1);
            self.judge(sess, out, &k, &got, reason);
            if out.is_violated() {
                return;
            }
        }
    }
    fn after_get(&mut self, sess: &Session, out: &mut CaseOut, key: &[u8], got: &Result<Option<Vec<u8>>, String>) {
        out.add("verified_gets", 1);
        self.judge(sess, out, key, got, "inline");
    }
}


/// One bulk history (thorough tier only): ~150 MiB of incompressible values through default-sized
/// files, so that data is pushed down to level 3 by the size triggers alone; overwrites and
/// deletes on the way; sampled gets and a full scan against the reference map.
fn case_bulk(out: &mut CaseOut, seed: u64) {
    use crate::director::director;
    use crate::gen::{self, Config};
    use crate::simfs::SimFs;
    let mut rng = Rng::new(mix(&[seed], "c01-bulk"));
    director().reset(rng.next_u64());
    crate::watch::set_call_limit(std::time::Duration::from_secs(300));
    crate::watch::set_case_limit(std::time::Duration::from_secs(3000));
    let cfg = Config { memtable: 1 << 20, file: 2 << 20, block: 4096, reuse: true };
    let fs = SimFs::from_image(&crate::dbutil::root_image());
    let mut sess = Session::new(fs, cfg);
    sess.fill_cache = false;
    if let Err(e) = sess.open() {
        out.violate("C01/open-failed/fresh-database", json!({"error": e}));
        return;
    }
    let total = 150 * 1024 * 1024 / 1000;
    let mut max_level = 0usize;
    for i in 0..total {
        crate::watch::tick();
        // mostly fresh keys in pseudo-random order, some overwrites and deletes of earlier ones
        let id = if i > 1000 && rng.chance(0.1) { rng.below(i as u64) } else { i as u64 };
        let k = format!("bulk{:09}", id.wrapping_mul(2_654_435_761) % 1_000_000_007).into_bytes();
        let r = if rng.chance(0.03) {
            sess.delete(&k)
        } else {
            let v = gen::tagged_value(&mut rng, &format!("b{i}:"), 1000);
            sess.put(&k, &v)
        };
        if let Err(e) = r {
            out.inconclusive(format!("degenerate: bulk write refused: {e}"));
            sess.close();
            return;
        }
        if i % 20_000 == 0 {
            let shape = sess.shape();
            max_level = max_level.max(shape.iter().rposition(|n| *n > 0).unwrap_or(0));
        }
    }
    sess.wait_quiescent(std::time::Duration::from_secs(120));
    let shape = sess.shape();
    max_level = max_level.max(shape.iter().rposition(|n| *n > 0).unwrap_or(0));
    let mut oracle = GetOracle { prop: "C01", verified: 0 };
    let keys: Vec<Vec<u8>> = sess.model.keys().step_by(41).cloned().collect();
    for k in &keys {
        let got = sess.get(k);
        oracle.judge(&sess, out, k, &got, "bulk");
        if out.is_violated() {
            break;
        }
    }
    // a few keys that were deleted or never written
    for i in 0..200u64 {
        let k = format!("bulk{:09}", (i * 7919 + 13) % 1_000_000_007).into_bytes();
        let got = sess.get(&k);
        oracle.judge(&sess, out, &k, &got, "bulk");
    }
    if !out.is_violated() {
        match sess.scan(None) {
            Ok(entries) => {
                let same = entries.len() == sess.model.len() && entries.iter().zip(sess.model.iter()).all(|(a, b)| a.0 == *b.0 && a.1 == *b.1);
                if !same {
                    out.violate("C01/bulk/scan-differs-from-reference", json!({"expected": sess.model.len(), "got": entries.len(), "shape": shape_string(&shape)}));
                }
            }
            Err(e) => out.violate("C01/bulk/scan-error", json!({"error": e})),
        }
    }
    out.add("verified_gets", oracle.verified);
    out.max("level_reached", max_level as u64);
    if max_level >= 2 {
        out.nontrivial(format!("bulk/level{max_level}/shape[{}]", shape_string(&shape)));
    }
    out.sample = Some(json!({"family": "bulk", "config": cfg.describe(), "writes": total, "files_per_level": shape_string(&shape), "deepest_level": max_level, "keys": sess.model.len()}));
    sess.close();
    crate::watch::set_call_limit(std::time::Duration::from_secs(60));
}

pub fn run_case(tier: &str, seed: u64, idx: u64) -> CaseOut {
    if tier != "quick" && idx == 0 {
        let mut out = CaseOut::new();
        case_bulk(&mut out, seed);
        return out;
    }
    let mut out = CaseOut::new();
    let mut rng = Rng::new(mix(&[seed, idx], "c01"));
    let n_ops = if tier == "quick" { 300 } else { rng.range(300, 2000) as usize };
    // every 8th history keeps one WAL and one manifest alive across many reopens
    let params = if idx % 8 == 5 { HistoryParams::long_wal(&mut rng, if tier == "quick" { 2500 } else { 6000 }) } else { HistoryParams::generate(&mut rng, idx, n_ops) };
    let mut oracle = GetOracle { prop: "C01", verified: 0 };
    let outcome = history::run(&mut out, &mut rng, &params, &mut oracle);
    let flushes = out.obs.get("note.version.install").copied().unwrap_or(0);
    if params.keep_config_on_reopen && outcome.reopen_pattern.len() >= 3 && oracle.verified > 0 {
        out.nontrivial(format!("long-wal/reopens{}", outcome.reopen_pattern.len().min(60) / 10 * 10));
    }
    if outcome.max_level >= 1 && flushes >= 1 && oracle.verified > 0 {
        let mut h = DefaultHasher::new();
        outcome.shapes.hash(&mut h);
        out.nontrivial(format!("{}/{}/shapes{:08x}/reopens-{}", params.family.name(), params.cfg.class(), h.finish() as u32, outcome.reopen_pattern));
    }
    out.max("level_reached", outcome.max_level as u64);
    for s in &outcome.shapes {
        out.set_add("lsm_shapes", s.clone());
    }
    out.sample = Some(json!({"family": "history", "params": params.describe(), "ops_done": outcome.ops_done,
        "reopen_pattern": outcome.reopen_pattern, "shapes_seen(files per level)": outcome.shapes.iter().take(8).collect::<Vec<_>>(),
        "verified_gets": oracle.verified}));
    out
}
