//! C02 — acknowledged writes survive a crash at any point; batches are all-or-nothing.
//!
//! One case = one recorded single-client execution; the state after *every* prefix of its
//! mutating filesystem calls is rebuilt, recovered and judged; for a sample of the images the
//! recovery itself is recorded and every prefix of it is crashed again.

use serde_json::json;

use crate::crash::{self, ExecParams};
use crate::report::CaseOut;
use crate::rng::{mix, Rng};
use crate::simfs::Replayer;
use crate::{dbutil, watch};

pub fn plan(tier: &str) -> u64 {
    match tier {
        "quick" => 16,
        _ => 160,
    }
}

pub fn run_case(tier: &str, seed: u64, idx: u64) -> CaseOut {
    let mut out = CaseOut::new();
    let mut rng = Rng::new(mix(&[seed, idx], "c02"));
    watch::set_case_limit(std::time::Duration::from_secs(3000));
    let n_ops = if tier == "quick" { rng.range(100, 180) } else { rng.range(150, 400) } as usize;
    // every 8th execution grows its manifest past one 32 KiB log block; only the crash points
    // around manifest writes at the block boundary are swept there (the rest is ordinary)
    let fat = idx % 8 == 7;
    let params = if fat { ExecParams::fat_manifest(&mut rng) } else { ExecParams::generate(&mut rng, idx, n_ops) };
    let exec = crash::record_execution(&mut rng, &params);
    if let Some(why) = &exec.degenerate {
        out.inconclusive(format!("degenerate execution: {why}"));
        return out;
    }
    let n = exec.journal.len();
    let mut replayer = Replayer::new(&dbutil::root_image());
    let mut nontrivial_points = 0u64;
    let mut second_level = 0u64;
    let second_level_rate = if tier == "quick" { 0.02 } else { 0.05 };
    // k = number of mutating calls applied before the crash (0..=n)
    let window: Option<std::collections::BTreeSet<usize>> = if fat {
        let mut w = std::collections::BTreeSet::new();
        for i in exec.manifest_block_boundary_writes() {
            for k in i.saturating_sub(1)..=(i + 3).min(n) {
                w.insert(k);
            }
        }
        out.add("fat_manifest_boundary_crash_points", w.len() as u64);
        Some(w)
    } else {
        None
    };
    for k in 0..=n {
        watch::tick();
        if let Some(w) = &window {
            if !w.contains(&k) {
                if k < n {
                    replayer.step(&exec.journal[k]);
                }
                continue;
            }
        }
        let phase = if k == 0 { "before-anything".to_string() } else { exec.phase_of(k - 1) };
        let (acked, with) = exec.expected_at(k as u64);
        let cfg = if k == 0 { params.cfg } else { exec.cfg_at(k as u64 - 1) };
        let image = replayer.image();
        let ctx = json!({"execution": exec.description, "crash_after_mutating_call": k, "of": n,
            "last_call_before_crash": if k > 0 { exec.journal[k - 1].op.describe() } else { "-".to_string() },
            "by_background_thread": k > 0 && exec.journal[k - 1].bg});
        let record_recovery = rng.chance(second_level_rate);
        let (judged, recovery_journal) = crash::recover_and_judge(
            &mut out, &image, cfg, &acked, with.as_ref(), &exec.universe, "C02", &phase, &ctx, &mut rng, record_recovery,
        );
        out.add(&format!("crash_points.{phase}"), 1);
        if judged.matched_inflight {
            out.add("recovered_with_in_flight_write", 1);
        }
        if k > 0 && crash::is_persistent_change(&exec.journal[k - 1].op) && !phase.ends_with("other") {
            nontrivial_points += 1;
            out.set_add("phases", phase.clone());
        }
        // crash during this recovery: every prefix of the recovery's own mutating calls
        if let Some(rj) = recovery_journal {
            if judged.ok && !rj.is_empty() {
                let mut r2 = Replayer::new(&image);
                for (j, entry) in rj.iter().enumerate() {
                    r2.step(entry);
                    let image2 = r2.image();
                    let phase2 = format!("crash-during-recovery/{}", entry.op.kind().name());
                    let ctx2 = json!({"first_crash": ctx, "second_crash_after_recovery_call": j + 1, "of": rj.len(), "call": entry.op.describe()});
                    let (j2, _) = crash::recover_and_judge(
                        &mut out, &image2, cfg, &acked, with.as_ref(), &exec.universe, "C02", &phase2, &ctx2, &mut rng, false,
                    );
                    out.add("crash_points.crash-during-recovery", 1);
                    second_level += 1;
                    if j2.ok && crash::is_persistent_change(&entry.op) {
                        nontrivial_points += 1;
                    }
                    watch::tick();
                }
            }
        }
        if out.violations.len() >= 4 {
            break;
        }
        if k < n {
            replayer.step(&exec.journal[k]);
        }
    }
    out.distinct_extra = nontrivial_points;
    out.add("executions", 1);
    out.add("second_level_crash_points", second_level);
    out.add("journal_length", n as u64);
    out.sample = Some(json!({"family": "crash-sweep", "execution": exec.description, "crash_points": n + 1,
        "second_level_crash_points": second_level,
        "first_calls": exec.journal.iter().take(8).map(|e| e.op.describe()).collect::<Vec<_>>()}));
    out
}
