//! C02 — acknowledged writes survive a crash at any point; batches are all-or-nothing.
//!
//! One case = one recorded single-client execution; the state after *every* prefix of its
//! mutating filesystem calls is rebuilt, recovered and judged; for a sample of the images the
//! recovery itself is recorded and every prefix of it is crashed again.

use serde_json::json;

use std::collections::BTreeSet;
use std::sync::Arc;

use raindb::{Batch, WriteOptions};

use crate::crash::{self, ExecParams, Execution};
use crate::director::{director, set_role};
use crate::gen::{self, Config};
use crate::report::show;
use crate::session::{apply_to_map, AckRec, Map, Session, WriteOp};
use crate::simfs::SimFs;
use crate::report::CaseOut;
use crate::rng::{mix, Rng};
use crate::simfs::Replayer;
use crate::{dbutil, watch};

pub fn plan(tier: &str) -> u64 {
    match tier {
        "quick" => 16,
        _ => 160,
    }
}

pub fn run_case(tier: &str, seed: u64, idx: u64) -> CaseOut {
    if idx % 8 == 3 {
        return run_concurrent_case(tier, seed, idx);
    }
    let mut out = CaseOut::new();
    let mut rng = Rng::new(mix(&[seed, idx], "c02"));
    watch::set_case_limit(std::time::Duration::from_secs(3000));
    let n_ops = if tier == "quick" { rng.range(100, 180) } else { rng.range(150, 400) } as usize;
    // every 8th execution grows its manifest past one 32 KiB log block; only the crash points
    // around manifest writes at the block boundary are swept there (the rest is ordinary)
    let fat = idx % 8 == 7;
    let params = if fat { ExecParams::fat_manifest(&mut rng) } else { ExecParams::generate(&mut rng, idx, n_ops) };
    let exec = crash::record_execution(&mut rng, &params);
    if let Some(why) = &exec.degenerate {
        out.inconclusive(format!("degenerate execution: {why}"));
        return out;
    }
    let n = exec.journal.len();
    let mut replayer = Replayer::new(&dbutil::root_image());
    let mut nontrivial_points = 0u64;
    let mut second_level = 0u64;
    let second_level_rate = if tier == "quick" { 0.02 } else { 0.05 };
    // k = number of mutating calls applied before the crash (0..=n)
    let window: Option<std::collections::BTreeSet<usize>> = if fat {
        let mut w = std::collections::BTreeSet::new();
        for i in exec.manifest_block_boundary_writes() {
            for k in i.saturating_sub(1)..=(i + 3).min(n) {
                w.insert(k);
            }
        }
        out.add("fat_manifest_boundary_crash_points", w.len() as u64);
        Some(w)
    } else {
        None
    };
    for k in 0..=n {
        watch::tick();
        if let Some(w) = &window {
            if !w.contains(&k) {
                if k < n {
                    replayer.step(&exec.journal[k]);
                }
                continue;
            }
        }
        let phase = if k == 0 { "before-anything".to_string() } else { exec.phase_of(k - 1) };
        let (acked, with) = exec.expected_at(k as u64);
        let mut cfg = if k == 0 { params.cfg } else { exec.cfg_at(k as u64 - 1) };
        // one recovery in four runs with the other log-reuse setting than the instance that crashed
        if rng.chance(0.25) {
            cfg.reuse = !cfg.reuse;
            out.add("recoveries_with_the_other_reuse_setting", 1);
        }
        let image = replayer.image();
        let ctx = json!({"execution": exec.description, "crash_after_mutating_call": k, "of": n,
            "last_call_before_crash": if k > 0 { exec.journal[k - 1].op.describe() } else { "-".to_string() },
            "by_background_thread": k > 0 && exec.journal[k - 1].bg});
        let record_recovery = rng.chance(second_level_rate);
        let (judged, recovery_journal) = crash::recover_and_judge(
            &mut out, &image, cfg, &acked, with.as_ref(), &exec.universe, "C02", &phase, &ctx, &mut rng, record_recovery,
        );
        out.add(&format!("crash_points.{phase}"), 1);
        if judged.matched_inflight {
            out.add("recovered_with_in_flight_write", 1);
        }
        if k > 0 && crash::is_persistent_change(&exec.journal[k - 1].op) && !phase.ends_with("other") {
            nontrivial_points += 1;
            out.set_add("phases", phase.clone());
        }
        // crash during this recovery: every prefix of the recovery's own mutating calls
        if let Some(rj) = recovery_journal {
            if judged.ok && !rj.is_empty() {
                let mut r2 = Replayer::new(&image);
                for (j, entry) in rj.iter().enumerate() {
                    r2.step(entry);
                    let image2 = r2.image();
                    let phase2 = format!("crash-during-recovery/{}", entry.op.kind().name());
                    let ctx2 = json!({"first_crash": ctx, "second_crash_after_recovery_call": j + 1, "of": rj.len(), "call": entry.op.describe()});
                    let (j2, _) = crash::recover_and_judge(
                        &mut out, &image2, cfg, &acked, with.as_ref(), &exec.universe, "C02", &phase2, &ctx2, &mut rng, false,
                    );
                    out.add("crash_points.crash-during-recovery", 1);
                    second_level += 1;
                    if j2.ok && crash::is_persistent_change(&entry.op) {
                        nontrivial_points += 1;
                    }
                    watch::tick();
                }
            }
        }
        if out.violations.len() >= 4 {
            break;
        }
        if k < n {
            replayer.step(&exec.journal[k]);
        }
    }
    out.distinct_extra = nontrivial_points;
    out.add("executions", 1);
    out.add("second_level_crash_points", second_level);
    out.add("journal_length", n as u64);
    out.sample = Some(json!({"family": "crash-sweep", "execution": exec.description, "crash_points": n + 1,
        "second_level_crash_points": second_level,
        "first_calls": exec.journal.iter().take(8).map(|e| e.op.describe()).collect::<Vec<_>>()}));
    out
}


/// Several writers at once (every 8th case). Each writer owns a disjoint set of keys and applies
/// batches of unique values to it while the others do the same, so group commits carry batches of
/// several callers, and flushes and compactions run beside them. At a crash point `k` a writer's
/// call is acknowledged (it returned before the k-th mutating call was over), not begun (it was
/// issued after it), or in flight - at most one per writer. The recovered contents, restricted to
/// one writer's keys, must be that writer's acknowledged state or that plus its whole in-flight
/// batch; what the database holds after that is judged like any other recovered image.
fn run_concurrent_case(tier: &str, seed: u64, idx: u64) -> CaseOut {
    let mut out = CaseOut::new();
    let mut rng = Rng::new(mix(&[seed, idx], "c02-concurrent"));
    watch::set_case_limit(std::time::Duration::from_secs(3000));
    let writers = rng.range(2, 4) as usize;
    let per_writer = if tier == "quick" { rng.range(30, 50) } else { rng.range(50, 110) } as usize;
    let cfg = Config {
        memtable: *rng.pick(&[256usize, 512, 1024]),
        file: *rng.pick(&[512u64, 2048]),
        block: *rng.pick(&[32usize, 256]),
        reuse: idx % 16 == 3,
    };
    let d = director();
    d.reset(rng.next_u64());
    let fs = SimFs::from_image(&dbutil::root_image());
    fs.record_journal(true);
    let mut sess = Session::new(fs.clone(), cfg);
    let m0 = fs.mut_count();
    if let Err(e) = sess.open() {
        out.inconclusive(format!("degenerate execution: open failed: {e}"));
        return out;
    }
    let open_end = fs.mut_count();
    let db = sess.db_arc();
    let mut handles = vec![];
    for t in 0..writers {
        let db = db.clone();
        let fs = fs.clone();
        let mut trng = Rng::new(mix(&[seed, idx, t as u64], "c02-writer"));
        handles.push(
            std::thread::Builder::new()
                .name(format!("c02-writer-{t}"))
                .spawn(move || {
                    set_role(t as u32 + 1);
                    let mut acks: Vec<AckRec> = vec![];
                    let mut counter = 0u64;
                    for _ in 0..per_writer {
                        watch::tick();
                        let n = if trng.chance(0.4) { 1 } else { trng.range(2, 14) as usize };
                        let mut ops: Vec<WriteOp> = vec![];
                        for _ in 0..n {
                            let k = format!("w{t}-{:02}", trng.below(24)).into_bytes();
                            if trng.chance(0.2) {
                                ops.push((k, None));
                            } else {
                                counter += 1;
                                let len = if trng.chance(0.02) { 34_000 } else { trng.range(10, 60) as usize };
                                ops.push((k, Some(gen::tagged_value(&mut trng, &format!("w{t}c{counter}:"), len))));
                            }
                        }
                        let mut batch = Batch::new();
                        for (k, v) in &ops {
                            match v {
                                Some(v) => batch.add_put(k.clone(), v.clone()),
                                None => batch.add_delete(k.clone()),
                            };
                        }
                        let call_mut = fs.mut_count();
                        let r = {
                            let _g = watch::enter("write");
                            db.apply(WriteOptions { synchronous: trng.chance(0.3) }, batch)
                        };
                        let ret_mut = fs.mut_count();
                        let ok = r.is_ok();
                        acks.push(AckRec { ops, ok, call_mut, ret_mut });
                        if !ok {
                            break;
                        }
                        if trng.chance(0.03) {
                            let _g = watch::enter("compact_range");
                            db.compact_range(None..None);
                        }
                    }
                    acks
                })
                .unwrap(),
        );
    }
    let per_thread: Vec<Vec<AckRec>> = handles.into_iter().map(|h| h.join().unwrap_or_default()).collect();
    drop(db);
    if per_thread.iter().any(|a| a.iter().any(|r| !r.ok)) {
        out.inconclusive("degenerate execution: a write was refused without any fault".to_string());
        sess.close();
        return out;
    }
    sess.wait_quiescent(std::time::Duration::from_secs(10));
    sess.close();
    let journal = fs.take_journal();
    let n = journal.len();
    let mut universe: BTreeSet<Vec<u8>> = BTreeSet::new();
    for a in per_thread.iter().flatten() {
        for (k, _) in &a.ops {
            universe.insert(k.clone());
        }
    }
    let description = json!({"writers": writers, "batches_per_writer": per_writer, "config": cfg.describe(), "mutating_fs_calls": n,
        "client_writes": per_thread.iter().map(|a| a.len()).sum::<usize>()});
    let exec = Execution { journal, acks: vec![], opens: vec![(m0, open_end, cfg)], universe: universe.clone(), final_cfg: cfg,
        description: description.clone(), degenerate: None };
    let mut replayer = Replayer::new(&dbutil::root_image());
    let mut nontrivial_points = 0u64;
    let mut several_in_flight = 0u64;
    let mut in_flight_recovered = 0u64;
    for k in 0..=n {
        watch::tick();
        let phase = if k == 0 { "before-anything".to_string() } else { exec.phase_of(k - 1) };
        let image = replayer.image();
        let ctx = json!({"execution": description, "family": "concurrent-writers", "crash_after_mutating_call": k, "of": n,
            "last_call_before_crash": if k > 0 { exec.journal[k - 1].op.describe() } else { "-".to_string() }});
        // what each writer may find
        let mut alternatives: Vec<(Map, Option<Map>)> = vec![];
        for acks in &per_thread {
            let mut acked = Map::new();
            let mut with = None;
            for a in acks {
                if a.ret_mut <= k as u64 {
                    apply_to_map(&mut acked, &a.ops);
                } else {
                    if a.call_mut < k as u64 {
                        let mut m = acked.clone();
                        apply_to_map(&mut m, &a.ops);
                        with = Some(m);
                    }
                    break;
                }
            }
            alternatives.push((acked, with));
        }
        let flying = alternatives.iter().filter(|(_, w)| w.is_some()).count();
        if flying >= 2 {
            several_in_flight += 1;
        }
        // first look: which alternative did every writer get?
        let probe_fs = SimFs::from_image(&image);
        let mut probe = Session::new(probe_fs, cfg);
        probe.fill_cache = false;
        out.add("images_recovered", 1);
        if let Err(e) = probe.open() {
            out.violate(format!("C02/open-failed-after-crash/{phase}"), json!({"ctx": ctx, "error": e, "files": image.listing()}));
            break;
        }
        let got: Map = match probe.scan(None) {
            Ok(entries) => entries.into_iter().collect(),
            Err(e) => {
                out.violate(format!("C02/scan-error-after-recovery/{phase}"), json!({"ctx": ctx, "error": e}));
                probe.close();
                break;
            }
        };
        probe.close();
        let mut reference = Map::new();
        let mut bad = false;
        for (t, (acked, with)) in alternatives.iter().enumerate() {
            let prefix = format!("w{t}-").into_bytes();
            let mine: Map = got.iter().filter(|(k, _)| k.starts_with(&prefix)).map(|(k, v)| (k.clone(), v.clone())).collect();
            if mine == *acked {
                reference.extend(acked.clone());
            } else if with.as_ref() == Some(&mine) {
                in_flight_recovered += 1;
                reference.extend(mine);
            } else {
                let class = if acked.iter().any(|(k, v)| mine.get(k) != Some(v) && with.as_ref().map_or(true, |w| w.get(k) != mine.get(k))) {
                    "acknowledged-write-lost-or-replaced"
                } else if with.is_some() {
                    "in-flight-batch-applied-partially-or-something-never-written"
                } else {
                    "contains-something-never-acknowledged"
                };
                let diff: Vec<String> = universe.iter().filter(|k| k.starts_with(&prefix) && mine.get(*k) != acked.get(*k)).take(6)
                    .map(|k| format!("{}: acked {:?} got {:?}", show(k), acked.get(k).map(|v| show(&v[..v.len().min(16)])), mine.get(k).map(|v| show(&v[..v.len().min(16)])))).collect();
                out.violate(format!("C02/concurrent-writers/contents-after-recovery/{class}/{phase}"),
                    json!({"ctx": ctx, "writer": t, "differences_from_acknowledged_state": diff, "writer_had_a_call_in_flight": with.is_some(), "files": image.listing()}));
                bad = true;
                break;
            }
        }
        if !bad && got.len() != reference.len() {
            let foreign: Vec<String> = got.keys().filter(|k| !reference.contains_key(*k)).take(5).map(|k| show(k)).collect();
            out.violate(format!("C02/concurrent-writers/contents-after-recovery/contains-something-never-acknowledged/{phase}"), json!({"ctx": ctx, "keys": foreign}));
            bad = true;
        }
        if bad {
            if out.violations.len() >= 4 {
                break;
            }
        } else {
            // second look: gets agree with the scan, the database takes writes, they survive a reopen
            let (judged, _) = crash::recover_and_judge(&mut out, &image, cfg, &reference, None, &universe, "C02", &phase, &ctx, &mut rng, false);
            out.add(&format!("crash_points.{phase}"), 1);
            if judged.ok && k > 0 && crash::is_persistent_change(&exec.journal[k - 1].op) && !phase.ends_with("other") {
                nontrivial_points += 1;
                out.set_add("phases", phase.clone());
            }
            if out.violations.len() >= 4 {
                break;
            }
        }
        if k < n {
            replayer.step(&exec.journal[k]);
        }
    }
    out.distinct_extra = nontrivial_points;
    out.add("executions", 1);
    out.add("concurrent_writer_executions", 1);
    out.add("crash_points_with_several_calls_in_flight", several_in_flight);
    out.add("writers_recovered_with_their_in_flight_batch", in_flight_recovered);
    out.add("journal_length", n as u64);
    out.sample = Some(json!({"family": "crash-sweep/concurrent-writers", "execution": description, "crash_points": n + 1,
        "crash_points_with_several_calls_in_flight": several_in_flight}));
    let _ = Arc::new(0);
    out
}
