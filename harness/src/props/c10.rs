//! C10 — the reported LSM shape is always well formed.

use std::collections::{BTreeSet, HashSet};
use std::time::Duration;

use raindb::db::DatabaseDescriptor;
use raindb::verif::{table, FileInfo, KeyInfo};
use serde_json::json;

use crate::history::{self, HistoryParams, Observer};
use crate::report::{show, CaseOut};
use crate::rng::{mix, Rng};
use crate::session::Session;

const HISTORIES_QUICK: u64 = 128;
const HISTORIES_THOROUGH: u64 = 600;

pub fn plan(tier: &str) -> u64 {
    match tier {
        "quick" => HISTORIES_QUICK + 96,
        _ => HISTORIES_THOROUGH + 480,
    }
}

fn cmp_internal(a: &KeyInfo, b: &KeyInfo) -> std::cmp::Ordering {
    a.user_key
        .cmp(&b.user_key)
        .then(b.sequence.cmp(&a.sequence))
}

fn key_text(k: &KeyInfo) -> String {
    format!(
        "{} @ {} : {:?}",
        String::from_utf8_lossy(&k.user_key).escape_debug(),
        k.sequence,
        k.operation
    )
}

fn key_show(k: &KeyInfo) -> String {
    format!("{}@{}", show(&k.user_key), k.sequence)
}

fn expected_summary(files: &[FileInfo]) -> String {
    let mut s = String::new();
    for level in 0..7 {
        s.push_str(&format!("--- Level {level} ---\n"));
        for f in files.iter().filter(|f| f.level == level) {
            s.push_str(&format!(
                "{} (size: {})[{}..{}]\n",
                f.number,
                f.size,
                key_text(&f.smallest),
                key_text(&f.largest)
            ));
        }
    }
    s
}

pub struct LayoutOracle {
    pub layouts_checked: u64,
    pub multi_file_layouts: BTreeSet<String>,
    pub check_contents: bool,
}

impl LayoutOracle {
    pub fn check(&mut self, sess: &mut Session, out: &mut CaseOut, reason: &str) {
        if !sess.wait_quiescent(Duration::from_secs(15)) {
            out.add("not_quiescent_skips", 1);
            return;
        }
        // the accessor and the descriptors are read at a quiescent moment; re-read the accessor
        // afterwards and skip if something moved in between
        let files = sess.db().verif_files();
        let text = sess.descriptor(DatabaseDescriptor::SSTables);
        let mut counts = vec![];
        for level in 0..7 {
            counts.push(sess.descriptor(DatabaseDescriptor::NumFilesAtLevel(level)));
        }
        let out_of_range = sess.descriptor(DatabaseDescriptor::NumFilesAtLevel(7));
        if sess.db().verif_files() != files {
            out.add("moved_during_check_skips", 1);
            return;
        }
        self.layouts_checked += 1;
        out.add("layouts_checked", 1);
        let ctx = json!({"when": reason, "config": sess.cfg.describe(), "reopens_so_far": sess.reopens,
            "layout": files.iter().map(|f| format!("L{}#{}[{}..{}]", f.level, f.number, key_show(&f.smallest), key_show(&f.largest))).collect::<Vec<_>>()});

        let mut seen = HashSet::new();
        for f in &files {
            if !seen.insert(f.number) {
                out.violate(format!("C10/file-number-twice/{reason}"), json!({"ctx": ctx, "number": f.number}));
            }
            if cmp_internal(&f.smallest, &f.largest) == std::cmp::Ordering::Greater {
                out.violate(
                    format!("C10/smallest-greater-than-largest/{reason}"),
                    json!({"ctx": ctx, "file": f.number, "level": f.level, "smallest": key_show(&f.smallest), "largest": key_show(&f.largest)}),
                );
            }
        }
        for level in 1..7 {
            let lf: Vec<&FileInfo> = files.iter().filter(|f| f.level == level).collect();
            for pair in lf.windows(2) {
                if cmp_internal(&pair[0].largest, &pair[1].smallest) != std::cmp::Ordering::Less {
                    out.violate(
                        format!("C10/level-files-overlap-or-unordered/{reason}"),
                        json!({"ctx": ctx, "level": level, "left": pair[0].number, "left_largest": key_show(&pair[0].largest),
                            "right": pair[1].number, "right_smallest": key_show(&pair[1].smallest)}),
                    );
                }
            }
        }
        // descriptors
        match &text {
            Err(e) => out.violate(format!("C10/sstables-descriptor-error/{reason}"), json!({"ctx": ctx, "error": e})),
            Ok(text) => {
                let expected = expected_summary(&files);
                if *text != expected {
                    out.violate(
                        format!("C10/sstables-descriptor-differs-from-version/{reason}"),
                        json!({"ctx": ctx, "descriptor": text.chars().take(1200).collect::<String>(), "expected": expected.chars().take(1200).collect::<String>()}),
                    );
                }
            }
        }
        for (level, c) in counts.iter().enumerate() {
            let n = files.iter().filter(|f| f.level == level).count();
            match c {
                Ok(s) if s.trim().parse::<usize>().ok() == Some(n) => {}
                other => out.violate(
                    format!("C10/num-files-at-level-wrong/{reason}"),
                    json!({"ctx": ctx, "level": level, "descriptor": format!("{other:?}"), "files_in_version": n}),
                ),
            }
        }
        if out_of_range.is_ok() {
            out.violate("C10/num-files-at-level-accepts-invalid-level", json!({"answer": format!("{out_of_range:?}")}));
        }
        // bounds equal what is stored in the file
        if self.check_contents {
            let options = sess.options();
            for f in &files {
                match table::open(&options, f.number) {
                    Err(e) => out.violate(
                        format!("C10/listed-file-unreadable/{reason}"),
                        json!({"ctx": ctx, "file": f.number, "error": e}),
                    ),
                    Ok(reader) => {
                        let mut cur = reader.cursor(false);
                        let first = cur.seek_to_first().ok().and_then(|_| cur.current());
                        let last = cur.seek_to_last().ok().and_then(|_| cur.current());
                        out.add("table_bounds_checked", 1);
                        match (first, last) {
                            (Some((fk, _)), Some((lk, _))) => {
                                if fk != f.smallest || lk != f.largest {
                                    out.violate(
                                        format!("C10/bounds-differ-from-file-contents/{reason}"),
                                        json!({"ctx": ctx, "file": f.number, "level": f.level,
                                            "recorded": [key_show(&f.smallest), key_show(&f.largest)],
                                            "stored": [key_show(&fk), key_show(&lk)]}),
                                    );
                                }
                            }
                            _ => out.violate(
                                format!("C10/listed-file-empty-or-unreadable/{reason}"),
                                json!({"ctx": ctx, "file": f.number}),
                            ),
                        }
                    }
                }
            }
        }
        let per_level: Vec<usize> = (0..7).map(|l| files.iter().filter(|f| f.level == l).count()).collect();
        if per_level[1..].iter().any(|n| *n >= 2) {
            self.multi_file_layouts.insert(format!(
                "{}|{}",
                per_level.iter().map(|n| n.to_string()).collect::<Vec<_>>().join(","),
                if reason == "after-reopen" { "reopen" } else { "live" }
            ));
        }
    }
}

impl Observer for LayoutOracle {
    fn checkpoint(&mut self, sess: &mut Session, out: &mut CaseOut, _universe: &BTreeSet<Vec<u8>>, reason: &str) {
        self.check(sess, out, reason);
    }
}


/// Seek-triggered compactions: files are charged for lookups that had to consult more than one
/// file; a file that runs out of allowed seeks becomes the compaction candidate. Here the
/// compaction thread is held at the start of its task (before it takes the lock) while lookups go
/// on, so that further files run out of seeks while a candidate is already pending.
/// `prop` = "C10": the layout is judged after every seek compaction. `prop` = "C07": every get of
/// the storm is compared with the reference map instead (a seek-triggered compaction must not
/// change what a reader sees).
pub fn case_seek_storm(out: &mut CaseOut, seed: u64, idx: u64, prop: &str) {
    let reads = prop == "C07";
    use crate::director::{director, COMPACTOR};
    use crate::gen::{self, Config, KeyFamily};
    use crate::simfs::SimFs;
    let mut rng = Rng::new(mix(&[seed, idx], "c10-seek"));
    let d = director();
    d.reset(rng.next_u64());
    // every third storm charges the files through the read sampling of database iterators (one
    // sample per ~1 MiB iterated, hence the large values) instead of through point lookups
    let by_scan = (idx / 4) % 3 == 1;
    // big memtable: nothing flushes unless asked; files are placed by explicit flushes
    let cfg = Config { memtable: if by_scan { 16 << 20 } else { 1 << 20 }, file: if by_scan { 16 << 20 } else { 1 << 20 }, block: 4096, reuse: true };
    let fs = SimFs::from_image(&crate::dbutil::root_image());
    let mut sess = Session::new(fs, cfg);
    if let Err(e) = sess.open() {
        out.violate(format!("{prop}/open-failed"), json!({"error": e}));
        return;
    }
    let pool = gen::key_pool(&mut rng, KeyFamily::Ascii, 40);
    let storm_scan = |sess: &Session, out: &mut CaseOut, when: &str| {
        let got = sess.scan(None);
        out.add("storm_scans", 1);
        if reads {
            match got {
                Err(e) => out.violate(format!("{prop}/seek-storm/scan-error/{when}"), json!({"error": e})),
                Ok(entries) => {
                    let scanned: std::collections::BTreeMap<Vec<u8>, Vec<u8>> = entries.into_iter().collect();
                    if scanned != sess.model {
                        let bad = sess.model.keys().chain(scanned.keys()).find(|k| scanned.get(*k) != sess.model.get(*k)).cloned().unwrap_or_default();
                        out.violate(format!("{prop}/seek-storm/scan-changed-by-seek-compaction/{when}"),
                            json!({"first_differing_key": show(&bad), "scanned_entries": scanned.len(), "expected_entries": sess.model.len(),
                                "files": sess.db().verif_files().iter().map(|f| format!("L{}#{}[{}..{}]", f.level, f.number, show(&f.smallest.user_key), show(&f.largest.user_key))).collect::<Vec<_>>()}));
                    }
                }
            }
        }
    };
    let storm_get = |sess: &Session, out: &mut CaseOut, k: &Vec<u8>, when: &str| {
        let got = sess.get(k);
        if reads {
            out.add("storm_gets_checked", 1);
            match got {
                Err(e) => out.violate(format!("{prop}/seek-storm/read-error/{when}"), json!({"key": show(k), "error": e})),
                Ok(got) => {
                    let expected = sess.model.get(k);
                    if got.as_ref() != expected {
                        let class = match (expected, &got) {
                            (Some(_), None) => "committed-value-missing",
                            (None, Some(_)) => "deleted-or-unwritten-key-has-value",
                            _ => "older-value",
                        };
                        out.violate(format!("{prop}/seek-storm/read-changed-by-seek-compaction/{class}/{when}"),
                            json!({"key": show(k), "got": got.as_ref().map(|v| show(v)), "expected": expected.map(|v| show(v)),
                                "files": sess.db().verif_files().iter().map(|f| format!("L{}#{}[{}..{}]", f.level, f.number, show(&f.smallest.user_key), show(&f.largest.user_key))).collect::<Vec<_>>()}));
                    }
                }
            }
        }
    };
    // layered shape: every flush covers a sub-range of the pool with gaps (so that lookups of the
    // missing keys consult a second, deeper file). Templates: nested ranges; a narrow deep file at
    // one edge under a wide middle file under a narrow top file elsewhere; random ranges.
    let n = pool.len();
    let template = [0u64, 1, 3, 2, 4][(idx / 4 % 5) as usize];
    // (layer after whose flush a sub-range is compacted, range)
    let mut compact_after: Option<(usize, usize, usize)> = None;
    let ranges: Vec<(usize, usize, usize)> = match template {
        0 => {
            let mut v = vec![(0, n - 1, 1)];
            let (mut lo, mut hi) = (0usize, n - 1);
            for _ in 0..rng.range(2, 4) {
                lo += rng.range(1, 6) as usize;
                hi = hi.saturating_sub(rng.range(1, 6) as usize);
                if lo + 2 >= hi {
                    break;
                }
                v.push((lo, hi, rng.range(2, 3) as usize));
            }
            v
        }
        1 => {
            // the top file has gaps too, so that it is charged (and usually runs out of seeks
            // before the middle file, whose misses only reach the deep file near the edge)
            let edge = rng.range(2, 5) as usize;
            let top_lo = rng.range(edge as u64 + 6, (n - 12) as u64) as usize;
            vec![(0, edge, 1), (1, n - 2, 2), (top_lo, top_lo + rng.range(5, 9) as usize, rng.range(2, 3) as usize)]
        }
        4 => {
            // an undercut: the first flush lands deep, the second above it, the third stays at
            // level 0; the second is then pushed down by a manual compaction of a sub-range that
            // the third does not touch, so level 1 is empty again; the last flush starts below the
            // level-0 file's range and ends inside it (they share keys): it must stay at level 0
            compact_after = Some((2, 15, 20));
            vec![(10, 20, 1), (15, 30, 1), (25, n - 1, 1), (rng.range(2, 8) as usize, rng.range(26, 30) as usize, 1)]
        }
        3 => {
            // a staircase: each flush overlaps only the previous one, so the first lands deep, the
            // second above it and the last two both stay at level 0, overlapping each other while
            // only the older one overlaps level 1; the newest has gaps that the older one fills
            let a = rng.range(6, 11) as usize;
            let b = a + rng.range(6, 11) as usize;
            let c = b + rng.range(6, 11) as usize;
            let j = |rng: &mut Rng| rng.range(2, 5) as usize;
            vec![(0, a, 1), (a - j(&mut rng), b, 1), (b - j(&mut rng), c, 1), (c - j(&mut rng), (c + 8).min(n - 1), 2)]
        }
        _ => (0..rng.range(3, 6))
            .map(|_| {
                let a = rng.usize_below(n);
                let b = rng.usize_below(n);
                (a.min(b), a.max(b), rng.range(1, 3) as usize)
            })
            .collect(),
    };
    let layers = ranges.len();
    let mut counter = 0u64;
    let mut layer_index = 0usize;
    for (lo, hi, step) in &ranges {
        for k in pool[*lo..=*hi].iter().step_by(*step) {
            counter += 1;
            let mut value = format!("v{counter}").into_bytes();
            if by_scan {
                value.resize(48 << 10, b'a' + (counter % 23) as u8);
            }
            if sess.put(k, &value).is_err() {
                out.inconclusive("degenerate: write refused");
                return;
            }
        }
        // pure flush (a compact_range over a range that holds no keys)
        sess.compact(Some(b"~~~~"), Some(b"~~~~"));
        layer_index += 1;
        if let Some((after, a, b)) = compact_after {
            if after + 1 == layer_index {
                let (a, b) = (pool[a].clone(), pool[b].clone());
                sess.compact(Some(&a), Some(&b));
            }
        }
    }
    sess.wait_quiescent(Duration::from_secs(10));
    let shape_before: Vec<String> = sess.db().verif_files().iter().map(|f| format!("L{}#{}[{}..{}]", f.level, f.number, show(&f.smallest.user_key), show(&f.largest.user_key))).collect();
    let levels_used = sess.shape().iter().filter(|n| **n > 0).count();
    let mut oracle = LayoutOracle { layouts_checked: 0, multi_file_layouts: BTreeSet::new(), check_contents: true };
    let picks0 = d.note_count("compaction.pick");
    let mut windows = 0;
    for round in 0..3 {
        let gate = d.arm(COMPACTOR, "compact.begin", 1);
        // lookups until the first seek compaction has been scheduled (the worker arrives at the gate)
        let mut gets = 0u64;
        let mut arrived = false;
        'storm: for _ in 0..400 {
            if by_scan {
                storm_scan(&sess, out, "while-charging-seeks");
                gets += 1;
                if d.is_arrived(gate) {
                    arrived = true;
                    break 'storm;
                }
                if out.is_violated() {
                    break 'storm;
                }
                continue;
            }
            for k in &pool {
                storm_get(&sess, out, k, "while-charging-seeks");
                gets += 1;
                if gets % 16 == 0 && d.is_arrived(gate) {
                    arrived = true;
                    break 'storm;
                }
            }
        }
        if arrived {
            windows += 1;
            // the candidate is pending and the worker is parked: keep charging seeks
            // random order and a random stopping point: which file was charged last must not
            // depend on the order of the pool
            for _ in 0..(if by_scan { rng.range(40, 80) } else { 0 }) {
                storm_scan(&sess, out, "while-the-worker-is-parked");
                gets += 1;
            }
            for _ in 0..(if by_scan { 0 } else { rng.range(110 * pool.len() as u64, 220 * pool.len() as u64) }) {
                let k = rng.pick(&pool[..]);
                storm_get(&sess, out, k, "while-the-worker-is-parked");
                gets += 1;
            }
        }
        d.release(gate);
        out.add("storm_gets", gets);
        sess.wait_quiescent(Duration::from_secs(10));
        if reads {
            for k in &pool {
                storm_get(&sess, out, k, "after-seek-compaction");
            }
        } else {
            oracle.check(&mut sess, out, if round == 0 { "after-seek-compaction" } else { "after-repeated-seek-compactions" });
        }
        if out.is_violated() || !arrived {
            break;
        }
    }
    // and across a reopen
    if !out.is_violated() {
        let cfg2 = Config { reuse: rng.chance(0.5), ..cfg };
        if let Err(e) = sess.reopen(cfg2) {
            out.violate(format!("{prop}/open-failed/clean-reopen"), json!({"error": e, "files": sess.fs.image().listing()}));
            return;
        }
        if reads {
            for k in &pool {
                storm_get(&sess, out, k, "after-reopen");
            }
        } else {
            oracle.check(&mut sess, out, "after-reopen");
        }
    }
    let seek_compactions = d.note_count("compaction.pick") - picks0;
    out.add("seek_triggered_compactions", seek_compactions);
    out.add("windows_achieved", windows);
    if windows > 0 && levels_used >= 2 {
        out.nontrivial(format!("seek-storm/{}/levels{levels_used}/layers{layers}/windows{windows}", if by_scan { "iterator-read-samples" } else { "lookups" }));
    }
    sess.close();
    out.sample = Some(json!({"family": "seek-storm", "charged_by": if by_scan { "iterator read samples" } else { "point lookups" }, "config": cfg.describe(), "files_before": shape_before, "rounds_with_parked_worker": windows,
        "compactions_picked": seek_compactions, "layouts_checked": oracle.layouts_checked}));
}

pub fn run_case(tier: &str, seed: u64, idx: u64) -> CaseOut {
    // the cases behind the histories are all seek storms; every second one uses the edge template
    // with point lookups (a narrow deep file at one edge under a wide middle file under a narrow top
    // file: the layout in which a second file runs out of seeks while a candidate is pending and
    // the mis-directed compaction would be a trivial move)
    let base = if tier == "quick" { HISTORIES_QUICK } else { HISTORIES_THOROUGH };
    if idx >= base {
        let j = idx - base;
        let k = if j % 2 == 0 {
            // k % 5 == 1 (edge template) and k % 3 != 1 (point lookups)
            let edge_ks = [6u64, 11, 21, 26, 36, 41, 51, 56];
            edge_ks[(j / 2 % 8) as usize] + 60 * (j / 16)
        } else {
            1000 + j
        };
        let mut out = CaseOut::new();
        case_seek_storm(&mut out, seed, 4 * k + 3, "C10");
        return out;
    }
    if idx % 4 == 3 {
        let mut out = CaseOut::new();
        case_seek_storm(&mut out, seed, idx, "C10");
        return out;
    }
    let mut out = CaseOut::new();
    let mut rng = Rng::new(mix(&[seed, idx], "c10"));
    let n_ops = if tier == "quick" { 300 } else { rng.range(300, 1500) as usize };
    let mut params = HistoryParams::generate(&mut rng, idx, n_ops);
    // reopen chains (>= 3 consecutive reopens, both log-reuse settings) are the interesting shape
    params.reopen_weight = if idx % 2 == 0 { 8 } else { 3 };
    let mut oracle = LayoutOracle {
        layouts_checked: 0,
        multi_file_layouts: BTreeSet::new(),
        check_contents: true,
    };
    let outcome = history::run(&mut out, &mut rng, &params, &mut oracle);
    for l in &oracle.multi_file_layouts {
        out.nontrivial(l.clone());
    }
    out.max("level_reached", outcome.max_level as u64);
    out.sample = Some(json!({"family": "history", "params": params.describe(), "ops_done": outcome.ops_done,
        "reopen_pattern": outcome.reopen_pattern, "layouts_checked": oracle.layouts_checked,
        "multi_file_layouts": oracle.multi_file_layouts.iter().take(6).collect::<Vec<_>>()}));
    out
}
