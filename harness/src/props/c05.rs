//! C05 — concurrent operations are linearizable: no lost, stale or phantom reads.
//!
//! Client-boundary histories with unique values, call/return stamps from one global counter,
//! checked per key by the WGL checker in `lin.rs`. Schedules are forced with gates at raindb's
//! scheduling points (a chosen thread is parked while the others run on) and perturbed with
//! seeded delays.

use std::sync::Arc;
use std::time::{Duration, Instant};

use raindb::{Batch, RainDBError, ReadOptions, WriteOptions, DB};
use serde_json::json;

use crate::director::{director, set_role, Delay, COMPACTOR};
use crate::gen::{self, Config};
use crate::lin::{self, Recorder, Verdict};
use crate::report::{show, CaseOut};
use crate::rng::{mix, Rng};
use crate::simfs::SimFs;
use crate::{dbutil, watch};

pub fn plan(tier: &str) -> u64 {
    match tier {
        "quick" => 340,
        _ => 6400,
    }
}

const READER_POINTS: [&str; 3] = ["get.unlocked", "get.before_imm", "get.before_tables"];
const WRITER_POINTS: [&str; 4] = ["write.before_wal", "write.after_wal", "write.mem_insert", "write.after_mem"];
const COMPACTOR_POINTS: [&str; 8] = [
    "flush.before_build", "flush.after_build", "manifest.before_append", "manifest.after_append",
    "manifest.after_current", "compact.step", "gc.before_delete", "gc.delete_one",
];
const ALL_POINTS: [&str; 16] = [
    "get.unlocked", "get.before_imm", "get.before_tables", "write.before_wal", "write.after_wal",
    "write.mem_insert", "write.after_mem", "flush.before_build", "flush.after_build",
    "manifest.before_append", "manifest.after_append", "manifest.after_current", "compact.begin",
    "compact.step", "gc.before_delete", "gc.delete_one",
];

#[derive(Clone, Debug)]
pub enum COp {
    Put(Vec<u8>),
    Delete(Vec<u8>),
    Batch(Vec<(Vec<u8>, bool)>),
    Get(Vec<u8>),
}

pub fn unique_value(thread: u32, counter: &mut u64, rng: &mut Rng, len: usize) -> Vec<u8> {
    *counter += 1;
    gen::tagged_value(rng, &format!("t{thread}.{}:", *counter), len.max(12))
}

/// Execute one client's operations, recording every call and return.
pub fn run_client(db: &DB, rec: &Recorder, thread: u32, ops: &[COp], rng: &mut Rng, value_len: usize) -> u64 {
    let mut counter = 0u64;
    let mut errors = 0u64;
    for op in ops {
        let _g = watch::enter("client-op");
        match op {
            COp::Put(k) => {
                let v = unique_value(thread, &mut counter, rng, value_len);
                let c = rec.call();
                let r = db.put(WriteOptions { synchronous: rng.chance(0.3) }, k.clone(), v.clone());
                let t = rec.ret();
                match r {
                    Ok(()) => rec.write(thread, k, Some(v), c, t, ""),
                    Err(_) => {
                        errors += 1;
                        rec.write(thread, k, Some(v), c, u64::MAX, "returned Err");
                    }
                }
            }
            COp::Delete(k) => {
                let c = rec.call();
                let r = db.delete(WriteOptions { synchronous: rng.chance(0.3) }, k.clone());
                let t = rec.ret();
                match r {
                    Ok(()) => rec.write(thread, k, None, c, t, ""),
                    Err(_) => {
                        errors += 1;
                        rec.write(thread, k, None, c, u64::MAX, "returned Err");
                    }
                }
            }
            COp::Batch(items) => {
                let mut batch = Batch::new();
                let mut last: std::collections::BTreeMap<Vec<u8>, Option<Vec<u8>>> = Default::default();
                for (k, is_put) in items {
                    if *is_put {
                        let v = unique_value(thread, &mut counter, rng, value_len);
                        batch.add_put(k.clone(), v.clone());
                        last.insert(k.clone(), Some(v));
                    } else {
                        batch.add_delete(k.clone());
                        last.insert(k.clone(), None);
                    }
                }
                let c = rec.call();
                let r = db.apply(WriteOptions { synchronous: rng.chance(0.3) }, batch);
                let t = rec.ret();
                let ok = r.is_ok();
                if !ok {
                    errors += 1;
                }
                for (k, v) in last {
                    rec.write(thread, &k, v, c, if ok { t } else { u64::MAX }, if ok { "batch" } else { "batch returned Err" });
                }
            }
            COp::Get(k) => {
                let c = rec.call();
                let r = db.get(ReadOptions { fill_cache: rng.chance(0.5), snapshot: None }, k);
                let t = rec.ret();
                match r {
                    Ok(v) => rec.read(thread, k, Some(v), c, t, ""),
                    Err(RainDBError::KeyNotFound) => rec.read(thread, k, None, c, t, ""),
                    Err(_) => errors += 1,
                }
            }
        }
    }
    errors
}

/// A client that is not part of the recorded history: it asks for manual compactions (whole range,
/// sub-ranges, open ends) while the others read and write. A manual compaction starts by forcing
/// the memtable out - through the writers' queue, in competition with the flush that may be
/// running - so it is one more way for acknowledged writes to get lost or reads to go stale.
fn spawn_manual_compactor(db: &Arc<DB>, keys: &[Vec<u8>], rng: &mut Rng, calls: u64) -> std::thread::JoinHandle<u64> {
    let (db, keys) = (Arc::clone(db), keys.to_vec());
    let mut trng = rng.fork("manual-compactor");
    std::thread::Builder::new().name("c05-manual-compactor".into()).spawn(move || {
        set_role(9);
        let mut done = 0;
        for _ in 0..calls {
            std::thread::sleep(Duration::from_micros(trng.range(0, 3000)));
            let (a, b) = match trng.below(4) {
                0 | 1 => (None, None),
                2 => (Some(trng.pick(&keys).clone()), None),
                _ => (None, Some(trng.pick(&keys).clone())),
            };
            let _g = watch::enter("compact_range(manual compactor)");
            db.compact_range(a.as_deref()..b.as_deref());
            done += 1;
        }
        drop(db);
        done
    }).unwrap()
}

pub fn gen_ops(rng: &mut Rng, keys: &[Vec<u8>], n: usize, read_share: u64) -> Vec<COp> {
    (0..n)
        .map(|_| {
            let k = rng.pick(keys).clone();
            let roll = rng.below(100);
            if roll < read_share {
                COp::Get(k)
            } else if roll < read_share + (100 - read_share) * 6 / 10 {
                COp::Put(k)
            } else if roll < read_share + (100 - read_share) * 8 / 10 {
                COp::Delete(k)
            } else {
                // one batch in ten has no operations at all (a legal call that must still take its turn in the writer queue)
                let n = if rng.chance(0.1) { 0 } else { rng.range(2, 5) };
                COp::Batch((0..n).map(|_| (rng.pick(keys).clone(), rng.chance(0.75))).collect())
            }
        })
        .collect()
}

/// Judge a recorded history; adds violations / coverage to `out`.
pub fn judge_history(out: &mut CaseOut, events: &[lin::Event], ctx: &serde_json::Value, prop: &str, scenario: &str) -> usize {
    let summary = lin::check_history(events, Duration::from_secs(2));
    out.add("history_ops", summary.ops as u64);
    out.add("keys_checked", summary.keys_checked as u64);
    out.add("reads_concurrent_with_a_write_of_the_same_key", summary.reads_concurrent_with_writes as u64);
    for v in summary.verdicts {
        match v {
            Verdict::Linearizable => {}
            Verdict::Timeout { key } => out.inconclusive(format!("linearizability checker gave up on key {}", show(&key))),
            Verdict::NotLinearizable { key, witness, reason } => {
                let class = if reason.contains("KeyNotFound") {
                    "read-lost-a-completed-write"
                } else if reason.contains("phantom") {
                    "phantom-value"
                } else if reason.contains("superseded") {
                    "stale-or-future-read"
                } else {
                    "no-linearization"
                };
                out.violate(
                    format!("{prop}/not-linearizable/{class}/{scenario}"),
                    json!({"ctx": ctx, "key": show(&key), "reason": reason, "sub_history": witness}),
                );
            }
        }
    }
    summary.reads_concurrent_with_writes
}

fn open_db(out: &mut CaseOut, cfg: &Config) -> Option<(Arc<DB>, SimFs)> {
    let fs = SimFs::from_image(&dbutil::root_image());
    let options = dbutil::options(fs.as_provider(), dbutil::DB_PATH, cfg);
    let _g = watch::enter("open");
    match DB::open(options) {
        Ok(db) => Some((Arc::new(db), fs)),
        Err(e) => {
            out.violate("C05/open-failed", json!({"error": e.to_string()}));
            None
        }
    }
}

fn close_db(out: &mut CaseOut, db: Arc<DB>) {
    match Arc::try_unwrap(db) {
        Ok(db) => {
            let _g = watch::enter("close");
            drop(db);
        }
        Err(_) => out.inconclusive("database handle still shared at close"),
    }
}

fn final_reads(db: &DB, rec: &Recorder, keys: &[Vec<u8>]) {
    for k in keys {
        let c = rec.call();
        let r = db.get(ReadOptions { fill_cache: false, snapshot: None }, k);
        let t = rec.ret();
        match r {
            Ok(v) => rec.read(0, k, Some(v), c, t, "final read"),
            Err(RainDBError::KeyNotFound) => rec.read(0, k, None, c, t, "final read"),
            Err(_) => {}
        }
    }
}

fn wait_quiet(db: &DB, timeout: Duration) {
    let deadline = Instant::now() + timeout;
    loop {
        let p = db.verif_probe();
        if (!p.background_compaction_scheduled && !p.has_immutable_memtable) || Instant::now() > deadline {
            return;
        }
        watch::tick();
        std::thread::sleep(Duration::from_millis(1));
    }
}

/// A reader of a quiet key is parked inside `get` while the memtable holding that key is rotated
/// out, flushed, installed as a table and dropped.
fn scenario_reader_across_flush(out: &mut CaseOut, rng: &mut Rng, idx: u64) {
    let d = director();
    d.reset(rng.next_u64());
    let point = READER_POINTS[(idx % 3) as usize];
    let cfg = Config { memtable: *rng.pick(&[512usize, 1024, 2048]), file: *rng.pick(&[1024u64, 4096]), block: 256, reuse: true };
    let (db, _fs) = match open_db(out, &cfg) {
        Some(x) => x,
        None => return,
    };
    let rec = Arc::new(Recorder::new());
    let victim = b"victim".to_vec();
    let mut counter = 0u64;
    // the victim may already live in a table (prefill) or only in the active memtable
    let prefill = rng.chance(0.4);
    if prefill {
        for i in 0..rng.range(10, 60) {
            let _ = db.put(WriteOptions::default(), format!("pre{i:04}").into_bytes(), vec![b'p'; 60]);
        }
    }
    let v1 = unique_value(0, &mut counter, rng, 40);
    let c = rec.call();
    let r = db.put(WriteOptions::default(), victim.clone(), v1.clone());
    let t = rec.ret();
    if r.is_err() {
        out.inconclusive("degenerate: victim write refused");
        close_db(out, db);
        return;
    }
    rec.write(0, &victim, Some(v1), c, t, "victim write");
    let gate = d.arm(1, point, 1);
    let rot0 = d.note_count("mem.rotate");
    let drop0 = d.note_count("imm.drop");
    let inst0 = d.note_count("version.install");
    let reader = {
        let (db, rec, victim) = (Arc::clone(&db), Arc::clone(&rec), victim.clone());
        std::thread::Builder::new().name("c05-reader".into()).spawn(move || {
            set_role(1);
            let _g = watch::enter("get(parked)");
            let c = rec.call();
            let r = db.get(ReadOptions { fill_cache: false, snapshot: None }, &victim);
            let t = rec.ret();
            match r {
                Ok(v) => rec.read(1, &victim, Some(v), c, t, "parked reader"),
                Err(RainDBError::KeyNotFound) => rec.read(1, &victim, None, c, t, "parked reader"),
                Err(_) => {}
            }
            drop(db);
        }).unwrap()
    };
    out.add("windows_attempted", 1);
    let arrived = d.wait_arrived(gate, Duration::from_secs(5));
    let mut achieved = false;
    if arrived {
        // filler writes (other keys) until the old memtable has been rotated, flushed and dropped
        let deadline = Instant::now() + Duration::from_secs(5);
        let mut i = 0u64;
        while Instant::now() < deadline {
            i += 1;
            let _g = watch::enter("filler-put");
            if db.put(WriteOptions::default(), format!("fill{i:06}").into_bytes(), vec![b'f'; 80]).is_err() {
                break;
            }
            if d.note_count("mem.rotate") > rot0 && d.note_count("imm.drop") > drop0 && d.note_count("version.install") > inst0 {
                achieved = true;
                break;
            }
        }
        if achieved && rng.chance(0.5) {
            let _g = watch::enter("compact_range");
            db.compact_range(None..None);
        }
    }
    d.release(gate);
    let _ = reader.join();
    final_reads(&db, &rec, &[victim.clone()]);
    let events = rec.take();
    let ctx = json!({"scenario": "reader parked across rotation+flush+install+imm-drop", "point": point, "config": cfg.describe(),
        "victim_only_in_memtable_when_read_started": !prefill, "window_achieved": achieved, "reader_reached_point": arrived});
    judge_history(out, &events, &ctx, "C05", &format!("reader-parked-at-{point}"));
    if achieved {
        out.add("windows_achieved", 1);
        out.nontrivial(format!("forced/reader/{point}/prefill{}", prefill as u8));
        out.set_add("interleavings", format!("{:016x}", d.signature()));
    } else if !arrived {
        // a get that finds the key in the active memtable never reaches the later points
        out.add("gate_not_reached", 1);
    } else {
        out.inconclusive("forced: rotation+flush did not complete while the reader was parked");
    }
    close_db(out, db);
    out.sample = Some(json!({"family": "forced-window", "ctx": ctx, "history": events.iter().take(6).map(|e| format!("t{} {} {} [{}..{}]", e.thread, if e.is_write { "W" } else { "R" }, show(&e.key), e.call, e.ret)).collect::<Vec<_>>()}));
}

/// Some thread (client writer or the compactor) is parked at a scheduling point for a while; the
/// clients keep going; everything is recorded and checked.
fn scenario_timed_park(out: &mut CaseOut, rng: &mut Rng, idx: u64, tier: &str) {
    let d = director();
    d.reset(rng.next_u64());
    let park_compactor = idx % 2 == 0;
    let point: &'static str = if park_compactor { COMPACTOR_POINTS[((idx / 2) % 8) as usize] } else { WRITER_POINTS[((idx / 2) % 4) as usize] };
    let cfg = Config { memtable: *rng.pick(&[256usize, 512, 1024]), file: *rng.pick(&[512u64, 2048]), block: *rng.pick(&[64usize, 256]), reuse: true };
    let (db, _fs) = match open_db(out, &cfg) {
        Some(x) => x,
        None => return,
    };
    let rec = Arc::new(Recorder::new());
    let n_keys = rng.range(3, 7) as usize;
    let keys: Vec<Vec<u8>> = (0..n_keys).map(|i| format!("key{i}").into_bytes()).collect();
    let n_threads = rng.range(3, 6) as u32;
    let per_thread = if tier == "quick" { rng.range(12, 24) } else { rng.range(15, 40) } as usize;
    let gate_role = if park_compactor { COMPACTOR } else { 1 };
    let gate = d.arm(gate_role, point, rng.range(1, 4));
    let park_ms = rng.range(20, 250);
    let mut handles = vec![];
    for t in 1..=n_threads {
        let (db, rec, keys) = (Arc::clone(&db), Arc::clone(&rec), keys.clone());
        let mut trng = rng.fork("client");
        let ops = gen_ops(&mut trng, &keys, per_thread, if t == 1 && !park_compactor { 10 } else { 45 });
        handles.push(std::thread::Builder::new().name(format!("c05-client-{t}")).spawn(move || {
            set_role(t);
            let e = run_client(&db, &rec, t, &ops, &mut trng, 70);
            drop(db);
            e
        }).unwrap());
    }
    let manual = if rng.chance(0.5) { { let calls = rng.range(1, 4); Some(spawn_manual_compactor(&db, &keys, rng, calls)) } } else { None };
    out.add("windows_attempted", 1);
    let arrived = d.wait_arrived(gate, Duration::from_secs(3));
    let before = rec.len();
    if arrived {
        std::thread::sleep(Duration::from_millis(park_ms));
        watch::tick();
    }
    let during = rec.len() - before;
    d.release(gate);
    let mut errors = 0;
    for h in handles {
        errors += h.join().unwrap_or(0);
    }
    if let Some(h) = manual {
        out.add("manual_compactions_concurrent_with_clients", h.join().unwrap_or(0));
    }
    wait_quiet(&db, Duration::from_secs(10));
    final_reads(&db, &rec, &keys);
    let events = rec.take();
    let ctx = json!({"scenario": "timed park", "parked": if park_compactor { "compactor" } else { "client 1" }, "point": point, "park_ms": park_ms,
        "config": cfg.describe(), "threads": n_threads, "ops_per_thread": per_thread, "keys": n_keys, "thread_reached_point": arrived,
        "client_ops_completed_while_parked": during});
    let concurrent = judge_history(out, &events, &ctx, "C05", &format!("park-at-{point}"));
    if errors > 0 {
        out.inconclusive(format!("degenerate: {errors} client calls returned errors in a fault-free run"));
    }
    let churn = d.note_count("mem.rotate") + d.note_count("version.install");
    if arrived {
        out.add("windows_achieved", 1);
    }
    if concurrent > 0 && churn > 0 {
        out.nontrivial(format!("park/{point}/sig{:016x}", d.signature()));
        out.set_add("interleavings", format!("{:016x}", d.signature()));
    }
    close_db(out, db);
    out.sample = Some(json!({"family": "timed-park", "ctx": ctx}));
}

/// Leader parked before its WAL append until followers have queued: the release makes one group
/// commit carry several writers' batches.
fn scenario_group_commit(out: &mut CaseOut, rng: &mut Rng) {
    let d = director();
    d.reset(rng.next_u64());
    let cfg = Config { memtable: *rng.pick(&[1024usize, 4096]), file: 4096, block: 256, reuse: true };
    let (db, _fs) = match open_db(out, &cfg) {
        Some(x) => x,
        None => return,
    };
    let rec = Arc::new(Recorder::new());
    let keys: Vec<Vec<u8>> = (0..4).map(|i| format!("gk{i}").into_bytes()).collect();
    let n_followers = rng.range(2, 6) as u32;
    let big_follower = rng.chance(0.7);
    let gate = d.arm(1, "write.before_wal", 1);
    let mut handles = vec![];
    for t in 1..=(n_followers + 1) {
        let (db, rec, keys) = (Arc::clone(&db), Arc::clone(&rec), keys.clone());
        let mut trng = rng.fork("gc");
        let ops = gen_ops(&mut trng, &keys, 3, 0);
        let delay = if t == 1 { 0 } else { 5 + t as u64 };
        // in every other case the second follower writes values of 150-260 KiB: the group formed
        // behind the parked leader then runs into its size cap right at that writer
        let value_len = if big_follower && t == 3 { 150 * 1024 + (t as usize * 7919) % (110 * 1024) } else { 40 };
        handles.push(std::thread::Builder::new().name(format!("c05-writer-{t}")).spawn(move || {
            set_role(t);
            std::thread::sleep(Duration::from_millis(delay));
            let e = run_client(&db, &rec, t, &ops, &mut trng, value_len);
            drop(db);
            e
        }).unwrap());
    }
    // a reader runs while the leader is parked
    let reader = {
        let (db, rec, keys) = (Arc::clone(&db), Arc::clone(&rec), keys.clone());
        let mut trng = rng.fork("gcr");
        std::thread::Builder::new().name("c05-reader".into()).spawn(move || {
            set_role(50);
            let ops = gen_ops(&mut trng, &keys, 20, 100);
            run_client(&db, &rec, 50, &ops, &mut trng, 40);
            drop(db);
        }).unwrap()
    };
    out.add("windows_attempted", 1);
    let arrived = d.wait_arrived(gate, Duration::from_secs(3));
    if arrived {
        std::thread::sleep(Duration::from_millis(60));
    }
    let seq_before = d.notes_from(0).iter().filter(|(n, _)| *n == "seq.publish").count();
    d.release(gate);
    for h in handles {
        let _ = h.join();
    }
    let _ = reader.join();
    // group sizes: batches published per seq.publish note after the release
    let publishes: Vec<Vec<u64>> = d.notes_from(0).iter().filter(|(n, _)| *n == "seq.publish").map(|(_, a)| a.clone()).collect();
    let group_sizes = d.pause_count("write.before_wal");
    final_reads(&db, &rec, &keys);
    let events = rec.take();
    let writes = events.iter().filter(|e| e.is_write).count();
    let ctx = json!({"scenario": "leader parked before WAL append with queued followers", "followers": n_followers, "config": cfg.describe(),
        "leader_reached_point": arrived, "client_write_calls": (n_followers + 1) * 3, "group_commits": group_sizes, "publishes": publishes.len() - seq_before.min(publishes.len())});
    judge_history(out, &events, &ctx, "C05", "group-commit");
    // fewer WAL appends than client write calls means at least one group commit merged writers
    if arrived && (group_sizes as u32) < (n_followers + 1) * 3 {
        out.add("windows_achieved", 1);
        out.add("merged_group_commits", 1);
        out.nontrivial(format!("group-commit/followers{}/appends{}/big{}", n_followers, group_sizes, big_follower as u8));
    }
    let _ = writes;
    close_db(out, db);
    out.sample = Some(json!({"family": "group-commit", "ctx": ctx}));
}

/// No gate: 3-8 threads on 4-8 keys with tiny memtables and seeded delays at one or two hot points.
fn scenario_perturbation(out: &mut CaseOut, rng: &mut Rng, tier: &str) {
    let d = director();
    d.reset(rng.next_u64());
    d.set_default_delay(Some(Delay { probability: 0.03, min_us: 0, max_us: 150 }));
    let hot1 = *rng.pick(&ALL_POINTS);
    let hot2 = *rng.pick(&ALL_POINTS);
    d.set_delay(hot1, Delay { probability: 0.5, min_us: 300, max_us: 5000 });
    if rng.chance(0.5) {
        d.set_delay(hot2, Delay { probability: 0.3, min_us: 100, max_us: 2000 });
    }
    let cfg = Config { memtable: *rng.pick(&[256usize, 256, 512, 1024, 4096]), file: *rng.pick(&[512u64, 1024, 4096]), block: *rng.pick(&[64usize, 256]), reuse: true };
    let (db, _fs) = match open_db(out, &cfg) {
        Some(x) => x,
        None => return,
    };
    let rec = Arc::new(Recorder::new());
    let n_keys = rng.range(4, 8) as usize;
    let keys: Vec<Vec<u8>> = (0..n_keys).map(|i| format!("key{i}").into_bytes()).collect();
    let n_threads = rng.range(3, 8) as u32;
    // per-key sub-histories must stay below 64 operations for the checker
    let per_thread = ((36 * n_keys) / n_threads as usize).clamp(6, if tier == "quick" { 30 } else { 50 });
    let mut handles = vec![];
    for t in 1..=n_threads {
        let (db, rec, keys) = (Arc::clone(&db), Arc::clone(&rec), keys.clone());
        let mut trng = rng.fork("client");
        let ops = gen_ops(&mut trng, &keys, per_thread, 45);
        handles.push(std::thread::Builder::new().name(format!("c05-client-{t}")).spawn(move || {
            set_role(t);
            let e = run_client(&db, &rec, t, &ops, &mut trng, 90);
            drop(db);
            e
        }).unwrap());
    }
    let manual = if rng.chance(0.5) { { let calls = rng.range(1, 5); Some(spawn_manual_compactor(&db, &keys, rng, calls)) } } else { None };
    let mut errors = 0;
    for h in handles {
        errors += h.join().unwrap_or(0);
    }
    if let Some(h) = manual {
        out.add("manual_compactions_concurrent_with_clients", h.join().unwrap_or(0));
    }
    d.clear_delays();
    wait_quiet(&db, Duration::from_secs(10));
    final_reads(&db, &rec, &keys);
    let events = rec.take();
    let ctx = json!({"scenario": "perturbation", "hot_points": [hot1, hot2], "config": cfg.describe(), "threads": n_threads, "ops_per_thread": per_thread, "keys": n_keys});
    let concurrent = judge_history(out, &events, &ctx, "C05", "perturbation");
    if errors > 0 {
        out.inconclusive(format!("degenerate: {errors} client calls returned errors in a fault-free run"));
    }
    let churn = d.note_count("mem.rotate") + d.note_count("version.install");
    out.add("rotations_and_installs", churn);
    if concurrent > 0 && churn > 0 {
        out.nontrivial(format!("perturbation/sig{:016x}", d.signature()));
        out.set_add("interleavings", format!("{:016x}", d.signature()));
    }
    close_db(out, db);
    out.sample = Some(json!({"family": "perturbation", "ctx": ctx, "history_ops": events.len()}));
}


/// Readers look up quiet keys that sort *after* everything a writer keeps inserting into the same
/// (large) memtable: every reader traversal passes the region where new nodes are being linked.
/// No rotation happens, so a wrong answer can only come from the memtable itself.
fn scenario_memtable_churn(out: &mut CaseOut, rng: &mut Rng, tier: &str) {
    let d = director();
    d.reset(rng.next_u64());
    let cfg = Config { memtable: 4 * 1024 * 1024, file: 2 * 1024 * 1024, block: 4096, reuse: true };
    let (db, _fs) = match open_db(out, &cfg) {
        Some(x) => x,
        None => return,
    };
    let rec = Arc::new(Recorder::new());
    let victims: Vec<Vec<u8>> = (0..4).map(|i| format!("zz-victim{i}").into_bytes()).collect();
    let mut counter = 0u64;
    for v in &victims {
        let val = unique_value(0, &mut counter, rng, 30);
        let c = rec.call();
        let r = db.put(WriteOptions::default(), v.clone(), val.clone());
        let t = rec.ret();
        if r.is_ok() {
            rec.write(0, v, Some(val), c, t, "victim write");
        }
    }
    let n_writers = rng.range(1, 3) as u32;
    let n_readers = rng.range(2, 5) as u32;
    let inserts: u64 = if tier == "quick" { 1200 } else { 6000 };
    let stop = Arc::new(std::sync::atomic::AtomicBool::new(false));
    let mut writers = vec![];
    for w in 1..=n_writers {
        let db = Arc::clone(&db);
        writers.push(std::thread::Builder::new().name(format!("c05-inserter-{w}")).spawn(move || {
            set_role(w);
            for i in 0..inserts {
                let _g = watch::enter("put(filler)");
                let _ = db.put(WriteOptions::default(), format!("a{w}-{i:07}").into_bytes(), vec![b'f'; 16]);
            }
            drop(db);
        }).unwrap());
    }
    let mut readers = vec![];
    for r in 0..n_readers {
        let (db, rec, victims, stop) = (Arc::clone(&db), Arc::clone(&rec), victims.clone(), Arc::clone(&stop));
        let mut trng = rng.fork("reader");
        readers.push(std::thread::Builder::new().name(format!("c05-reader-{r}")).spawn(move || {
            set_role(20 + r);
            let mut reads = 0u64;
            // per-key sub-histories must stay below 64 operations: at most 12 recorded reads per
            // reader and key; unrecorded reads are still judged directly (the key is never rewritten)
            let mut lost = 0u64;
            while !stop.load(std::sync::atomic::Ordering::Relaxed) {
                let k = trng.pick(&victims).clone();
                let _g = watch::enter("get(victim)");
                let c = rec.call();
                let res = db.get(ReadOptions { fill_cache: false, snapshot: None }, &k);
                let t = rec.ret();
                reads += 1;
                if let Err(RainDBError::KeyNotFound) = res {
                    lost += 1;
                    if lost <= 2 {
                        rec.read(20 + r, &k, None, c, t, "victim read");
                    }
                } else if reads <= 8 {
                    if let Ok(v) = res {
                        rec.read(20 + r, &k, Some(v), c, t, "victim read");
                    }
                }
            }
            drop(db);
            (reads, lost)
        }).unwrap());
    }
    for w in writers {
        let _ = w.join();
    }
    stop.store(true, std::sync::atomic::Ordering::Relaxed);
    let mut reads = 0;
    let mut lost = 0;
    for r in readers {
        if let Ok((a, b)) = r.join() {
            reads += a;
            lost += b;
        }
    }
    final_reads(&db, &rec, &victims);
    let events = rec.take();
    let rotations = d.note_count("mem.rotate");
    let ctx = json!({"scenario": "memtable churn: quiet keys read while smaller keys are inserted into the same memtable", "writers": n_writers,
        "readers": n_readers, "inserts_per_writer": inserts, "victim_reads": reads, "victim_reads_that_returned_KeyNotFound": lost, "rotations": rotations});
    judge_history(out, &events, &ctx, "C05", "memtable-churn");
    out.add("churn_victim_reads", reads);
    out.add("churn_lost_reads", lost);
    if reads > 1000 {
        out.nontrivial(format!("memtable-churn/w{n_writers}/r{n_readers}"));
    }
    close_db(out, db);
    out.sample = Some(json!({"family": "memtable-churn", "ctx": ctx}));
}

pub fn run_case(tier: &str, seed: u64, idx: u64) -> CaseOut {
    let mut out = CaseOut::new();
    let mut rng = Rng::new(mix(&[seed, idx], "c05"));
    // every 8th case: reader across flush; every 8th: timed park; three in sixteen: group commit; rest perturbation
    match idx % 16 {
        0 | 8 => scenario_reader_across_flush(&mut out, &mut rng, idx / 8),
        4 | 12 => scenario_timed_park(&mut out, &mut rng, idx / 4, tier),
        2 | 6 | 14 => scenario_group_commit(&mut out, &mut rng),
        // (the churn scenario is slow: thousands of inserts into one skiplist; every 32nd case)
        10 if idx % 32 == 10 => scenario_memtable_churn(&mut out, &mut rng, tier),
        _ => scenario_perturbation(&mut out, &mut rng, tier),
    }
    super::c09::judge_bg_panics(&mut out, "C05/aux");
    out.violations.retain(|v| !v.sig.starts_with("C05/aux"));
    out
}
