//! C07 — compaction and flushing are invisible to readers.
//!
//! With writes stopped, the contents at the latest state and at every live snapshot are dumped
//! (gets + scans both ways) before, during and after flushes, automatic compactions, trivial moves
//! and manual compact_range calls; every dump must equal the reference.

use std::collections::BTreeSet;
use std::sync::atomic::{AtomicBool, Ordering};
use std::sync::Arc;
use std::time::{Duration, Instant};

use serde_json::json;

use crate::director::{director, Delay};
use crate::gen::{self, Config};
use crate::props::c03::verify_view;
use crate::report::{show, CaseOut};
use crate::rng::{mix, Rng};
use crate::session::Session;
use crate::shapes::{self, ShapeSpec};
use crate::simfs::SimFs;
use crate::{dbutil, watch};

pub fn plan(tier: &str) -> u64 {
    match tier {
        "quick" => 1 + 60 + n_storm(tier),
        _ => 2 + 1500 + n_storm(tier),
    }
}

fn n_shape(tier: &str) -> u64 {
    if tier == "quick" {
        60
    } else {
        1500
    }
}

/// seek storms (the layered layouts of C10's seek-storm family) with every get compared with the
/// reference map
fn n_storm(tier: &str) -> u64 {
    if tier == "quick" {
        32
    } else {
        400
    }
}

fn n_gap(tier: &str) -> u64 {
    if tier == "quick" {
        1
    } else {
        2
    }
}

#[derive(Default, Clone, Copy)]
struct Picks {
    auto: u64,
    manual: u64,
    trivial: u64,
    multi_input: u64,
    max_level: u64,
}

fn picks_from(from: usize) -> Picks {
    let mut p = Picks::default();
    for (name, args) in director().notes_from(from) {
        if name == "compaction.pick" && args.len() >= 5 {
            if args[4] == 1 {
                p.trivial += 1;
            } else if args[3] == 1 {
                p.manual += 1;
            } else {
                p.auto += 1;
            }
            if args[4] == 0 && args[1] >= 2 && args[2] >= 1 {
                p.multi_input += 1;
            }
            p.max_level = p.max_level.max(args[0]);
        }
    }
    p
}

fn dump_all(out: &mut CaseOut, sess: &Session, built: &shapes::Built, when: &str, ctx: &serde_json::Value) {
    verify_view(out, sess, None, &sess.model, &built.universe, when, ctx, "C07");
    for f in &built.frozen {
        if out.is_violated() {
            return;
        }
        verify_view(out, sess, Some(&f.snapshot), &f.model, &built.universe, when, ctx, "C07");
    }
    out.add("dumps", 1 + built.frozen.len() as u64);
}

fn case_shape(out: &mut CaseOut, tier: &str, seed: u64, idx: u64) {
    let mut rng = Rng::new(mix(&[seed, idx], "c07"));
    let d = director();
    d.reset(rng.next_u64());
    // slow (not park) the table-compaction loop while loading, so that flushes still get through
    // and a backlog of overlapping L0 files builds up over multi-file deeper levels
    let load_delay = *rng.pick(&[0u64, 100, 300, 800]);
    if load_delay > 0 {
        d.set_delay("compact.step", Delay { probability: 1.0, min_us: load_delay, max_us: load_delay * 2 });
    }
    let mut spec = ShapeSpec::generate(&mut rng, idx);
    spec.writes = if tier == "quick" { rng.range(200, 900) } else { rng.range(200, 2500) } as usize;
    let fs = SimFs::from_image(&dbutil::root_image());
    let mut sess = Session::new(fs, spec.cfg);
    sess.fill_cache = rng.chance(0.5);
    if let Err(e) = sess.open() {
        out.violate("C07/open-failed", json!({"error": e}));
        return;
    }
    let built = shapes::build(&mut rng, &mut sess, &spec);
    let ctx = json!({"shape": spec.describe(), "load_delay_us_per_compaction_step": load_delay});
    if let Some(e) = &built.failed {
        out.inconclusive(format!("degenerate: write refused while building the shape: {e}"));
    } else {
        let log0 = d.note_log_len();
        let installs0 = d.note_count("version.install");
        let shape_before = crate::session::shape_string(&sess.shape());
        // writes have stopped: D0
        dump_all(out, &sess, &built, "before", &ctx);
        // let the backlog drain at speed, with manual compactions issued from a second thread
        d.clear_delays();
        d.set_delay("compact.step", Delay { probability: 0.3, min_us: 20, max_us: 200 });
        let db = sess.db_arc();
        let done = Arc::new(AtomicBool::new(false));
        let done2 = Arc::clone(&done);
        let pool = built.pool.clone();
        let mut crng = rng.fork("compactor");
        let n_manual = crng.range(2, 6);
        let compactor = std::thread::Builder::new().name("c07-manual".into()).spawn(move || {
            for _ in 0..n_manual {
                let _g = watch::enter("compact_range");
                let a = crng.pick(&pool).clone();
                let b = crng.pick(&pool).clone();
                match crng.below(5) {
                    0 => db.compact_range(None..None),
                    1 => db.compact_range(Some(a.as_slice())..None),
                    2 => db.compact_range(None..Some(b.as_slice())),
                    3 => db.compact_range(Some(a.as_slice())..Some(a.as_slice())),
                    _ => {
                        let (lo, hi) = if a <= b { (a, b) } else { (b, a) };
                        db.compact_range(Some(lo.as_slice())..Some(hi.as_slice()))
                    }
                }
            }
            drop(db);
            done2.store(true, Ordering::SeqCst);
        }).unwrap();
        let deadline = Instant::now() + Duration::from_secs(60);
        let mut during = 0u64;
        let mut installs_seen = BTreeSet::new();
        loop {
            let before = d.note_count("version.install");
            dump_all(out, &sess, &built, "during", &ctx);
            during += 1;
            let after = d.note_count("version.install");
            installs_seen.insert(before);
            installs_seen.insert(after);
            if out.is_violated() {
                break;
            }
            if done.load(Ordering::SeqCst) && sess.wait_quiescent(Duration::from_millis(50)) {
                break;
            }
            if Instant::now() > deadline {
                out.inconclusive("compactions did not quiesce within 60 s");
                break;
            }
        }
        let _ = compactor.join();
        d.clear_delays();
        if !out.is_violated() {
            sess.wait_quiescent(Duration::from_secs(20));
            dump_all(out, &sess, &built, "after", &ctx);
        }
        let p = picks_from(log0);
        out.add("dumps_during", during);
        out.add("distinct_versions_observed_during", installs_seen.len() as u64);
        out.add("installs_during_observation", d.note_count("version.install") - installs0);
        out.add("auto_table_compactions", p.auto);
        out.add("manual_table_compactions", p.manual);
        out.add("trivial_moves", p.trivial);
        out.add("multi_input_compactions", p.multi_input);
        out.max("compaction_level", p.max_level);
        if p.multi_input >= 1 {
            out.nontrivial(format!(
                "{}/style{}/before[{}]/auto{}-manual{}-trivial{}/snaps{}",
                spec.family.name(), spec.style, shape_before, (p.auto > 0) as u8, (p.manual > 0) as u8, (p.trivial > 0) as u8, built.frozen.len()
            ));
        }
        out.sample = Some(json!({"family": "shape", "shape": spec.describe(), "files_per_level_before": shape_before,
            "files_per_level_after": crate::session::shape_string(&sess.shape()), "manual_compact_range_calls": n_manual,
            "dumps_during": during, "table_compactions": {"auto": p.auto, "manual": p.manual, "trivial_moves": p.trivial, "with>=2 inputs and a parent": p.multi_input},
            "live_snapshots": built.frozen.len()}));
    }
    for f in built.frozen {
        sess.db().release_snapshot(f.snapshot);
    }
    sess.close();
}

/// The gap workload: level >= 1 trivial moves. One far key keeps flushes out of level 2; an
/// ascending load then fills level 1 past its size trigger with files that overlap nothing below.
pub fn gap_load(out: &mut CaseOut, rng: &mut Rng, sess: &mut Session, megabytes: usize) -> Option<Vec<Vec<u8>>> {
    let far = b"zzzz".to_vec();
    if sess.put(&far, b"far-0").is_err() {
        return None;
    }
    sess.compact(None, None);
    let value_len = 1000;
    let n = megabytes * 1024 * 1024 / value_len;
    let mut keys = vec![far.clone()];
    for i in 0..n {
        watch::tick();
        let k = format!("g{:08}", i).into_bytes();
        let v = gen::tagged_value(rng, &format!("g{i}:"), value_len);
        if sess.put(&k, &v).is_err() {
            out.inconclusive("degenerate: gap load refused");
            return None;
        }
        keys.push(k);
        if i % 100 == 99 {
            let _ = sess.put(&far, format!("far-{i}").as_bytes());
        }
    }
    Some(keys)
}

fn case_gap(out: &mut CaseOut, seed: u64, idx: u64) {
    let mut rng = Rng::new(mix(&[seed, idx], "c07-gap"));
    let d = director();
    d.reset(rng.next_u64());
    watch::set_call_limit(Duration::from_secs(180));
    let cfg = Config { memtable: 256 * 1024, file: 2 * 1024 * 1024, block: 4096, reuse: true };
    let fs = SimFs::from_image(&dbutil::root_image());
    let mut sess = Session::new(fs, cfg);
    if let Err(e) = sess.open() {
        out.violate("C07/open-failed", json!({"error": e}));
        return;
    }
    let keys = match gap_load(out, &mut rng, &mut sess, 12) {
        Some(k) => k,
        None => {
            sess.close();
            return;
        }
    };
    sess.wait_quiescent(Duration::from_secs(60));
    let p = picks_from(0);
    out.add("trivial_moves", p.trivial);
    out.add("auto_table_compactions", p.auto);
    out.max("compaction_level", p.max_level);
    let deep_trivial = director().notes_from(0).iter().filter(|(n, a)| *n == "compaction.pick" && a.len() >= 5 && a[4] == 1 && a[0] >= 1).count();
    out.add("trivial_moves_at_level>=1", deep_trivial as u64);
    // sampled verification (the load is 12 MiB): every 37th key by get, plus a full forward scan
    let ctx = json!({"workload": "gap", "config": cfg.describe(), "keys": keys.len()});
    for k in keys.iter().step_by(37) {
        match sess.get(k) {
            Ok(got) => {
                if got.as_ref() != sess.model.get(k) {
                    out.violate("C07/gap/get-mismatch-after-trivial-moves", json!({"ctx": ctx, "key": show(k)}));
                    break;
                }
            }
            Err(e) => {
                out.violate("C07/gap/get-error", json!({"ctx": ctx, "key": show(k), "error": e}));
                break;
            }
        }
    }
    match sess.scan(None) {
        Ok(got) => {
            let same = got.len() == sess.model.len() && got.iter().zip(sess.model.iter()).all(|(a, b)| a.0 == *b.0 && a.1 == *b.1);
            if !same {
                out.violate("C07/gap/scan-mismatch-after-trivial-moves", json!({"ctx": ctx, "expected": sess.model.len(), "got": got.len()}));
            }
        }
        Err(e) => out.violate("C07/gap/scan-error", json!({"ctx": ctx, "error": e})),
    }
    if deep_trivial > 0 {
        out.nontrivial(format!("gap/trivial-moves-at-level>=1/{}", idx));
        out.nontrivial("gap/shape-verified-after-trivial-moves".to_string());
    }
    out.sample = Some(json!({"family": "gap", "config": cfg.describe(), "keys": keys.len(), "trivial_moves": p.trivial,
        "trivial_moves_at_level>=1": deep_trivial, "files_per_level": crate::session::shape_string(&sess.shape())}));
    sess.close();
    watch::set_call_limit(Duration::from_secs(60));
}

pub fn run_case(tier: &str, seed: u64, idx: u64) -> CaseOut {
    let mut out = CaseOut::new();
    let ng = n_gap(tier);
    if idx < ng {
        case_gap(&mut out, seed, idx);
    } else if idx < ng + n_shape(tier) {
        case_shape(&mut out, tier, seed, idx - ng);
    } else {
        super::c10::case_seek_storm(&mut out, seed, idx - ng - n_shape(tier), "C07");
    }
    out
}
