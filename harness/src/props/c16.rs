//! C16 — a torn final write costs at most the unacknowledged tail.
//!
//! As C02, but the crash leaves the last write call only partially applied (1 byte, half, all but
//! one byte; every length for writes of at most 64 bytes).

use serde_json::json;

use crate::crash::{self, ExecParams};
use crate::report::CaseOut;
use crate::rng::{mix, Rng};
use crate::session::apply_to_map;
use crate::simfs::{JOp, PathClass, Replayer};
use crate::{dbutil, watch};

pub fn plan(tier: &str) -> u64 {
    match tier {
        "quick" => 16,
        _ => 160,
    }
}

pub fn run_case(tier: &str, seed: u64, idx: u64) -> CaseOut {
    let mut out = CaseOut::new();
    let mut rng = Rng::new(mix(&[seed, idx], "c16"));
    watch::set_case_limit(std::time::Duration::from_secs(3000));
    let n_ops = if tier == "quick" { rng.range(80, 150) } else { rng.range(150, 400) } as usize;
    // every 8th execution grows its manifest past one 32 KiB log block; only writes of that
    // manifest at the block boundary are torn there
    let fat = idx % 8 == 7;
    let mut params = if fat { ExecParams::fat_manifest(&mut rng) } else { ExecParams::generate(&mut rng, idx, n_ops) };
    if !fat {
        params.reopen_weight = 3;
    }
    let exec = crash::record_execution(&mut rng, &params);
    if let Some(why) = &exec.degenerate {
        out.inconclusive(format!("degenerate execution: {why}"));
        return out;
    }
    let n = exec.journal.len();
    let mut replayer = Replayer::new(&dbutil::root_image());
    let mut nontrivial = 0u64;
    let window: Option<std::collections::BTreeSet<usize>> =
        if fat { Some(exec.manifest_block_boundary_writes().into_iter().collect()) } else { None };
    for k in 0..n {
        watch::tick();
        let entry = &exec.journal[k];
        if window.as_ref().map_or(false, |w| !w.contains(&k)) {
            replayer.step(entry);
            continue;
        }
        if let JOp::Write { data, .. } = &entry.op {
            let class = entry.op.class();
            let len = data.len();
            let interesting = matches!(class, PathClass::Wal | PathClass::Manifest);
            // table and CURRENT-temp writes are sampled, log writes are all taken
            if len >= 2 && (interesting || rng.chance(if tier == "quick" { 0.05 } else { 0.15 })) {
                let cuts: Vec<usize> = if len <= 64 && interesting {
                    (1..len).collect()
                } else {
                    let mut c = vec![1, len / 2, len - 1];
                    c.sort_unstable();
                    c.dedup();
                    c.into_iter().filter(|x| *x >= 1 && *x < len).collect()
                };
                let phase = format!("torn/{}", exec.phase_of(k));
                // acknowledged = returned before this call; in flight = the client write this call belongs to
                let mut acked = crate::session::Map::new();
                let mut inflight = None;
                for a in &exec.acks {
                    if a.ret_mut <= k as u64 {
                        if a.ok {
                            apply_to_map(&mut acked, &a.ops);
                        }
                    } else if a.call_mut <= k as u64 {
                        inflight = Some(a);
                        break;
                    } else {
                        break;
                    }
                }
                let with = inflight.map(|a| {
                    let mut m = acked.clone();
                    apply_to_map(&mut m, &a.ops);
                    m
                });
                let mut cfg = exec.cfg_at(k as u64);
                // one recovery in four runs with the other log-reuse setting than the instance that crashed
                if rng.chance(0.25) {
                    cfg.reuse = !cfg.reuse;
                    out.add("recoveries_with_the_other_reuse_setting", 1);
                }
                for cut in cuts {
                    let image = replayer.image_torn(entry, cut);
                    let ctx = json!({"execution": exec.description, "torn_call_index": k, "of": n, "call": entry.op.describe(),
                        "bytes_applied": cut, "of_bytes": len, "by_background_thread": entry.bg, "recovered_with": cfg.describe()});
                    let (judged, _) = crash::recover_and_judge(
                        &mut out, &image, cfg, &acked, with.as_ref(), &exec.universe, "C16", &phase, &ctx, &mut rng, false,
                    );
                    out.add(&format!("torn_points.{}", exec.phase_of(k)), 1);
                    if interesting {
                        nontrivial += 1;
                        out.set_add("phases", format!("{}/reuse{}", exec.phase_of(k), cfg.reuse as u8));
                    }
                    let _ = judged;
                }
            }
        }
        if out.violations.len() >= 4 {
            break;
        }
        replayer.step(entry);
    }
    out.distinct_extra = nontrivial;
    out.add("executions", 1);
    out.add("journal_length", n as u64);
    out.sample = Some(json!({"family": "torn-write-sweep", "execution": exec.description, "torn_log_images": nontrivial,
        "cuts": "1 byte, half, all-but-one; every length for log writes of <= 64 bytes"}));
    out
}
