//! C09 — every operation terminates; the background worker never dies.
//!
//! Restated as bounded progress: every harness-issued call returns (a stall is caught by the
//! process watchdog and reported by the driver as `C09/hang/...`), no panic is recorded on the
//! compaction thread of an open database, and at the end of every execution a liveness probe
//! (write until the memtable rotates, wait for the flush to finish) completes and close returns.

use std::collections::BTreeSet;
use std::sync::atomic::{AtomicBool, AtomicU64, Ordering};
use std::sync::Arc;
use std::time::{Duration, Instant};

use raindb::db::DatabaseDescriptor;
use raindb::{Batch, RainDBError, RainDbIterator, ReadOptions, WriteOptions, DB};
use serde_json::json;

use crate::director::{director, set_role, Delay};
use crate::gen::{self, KeyFamily};
use crate::history::{self, HistoryParams, Observer};
use crate::report::CaseOut;
use crate::rng::{mix, Rng};
use crate::session::Session;
use crate::simfs::SimFs;
use crate::{dbutil, watch};

const OWN_QUICK: u64 = 48;
const OWN_THOROUGH: u64 = 600;

pub fn plan(tier: &str) -> u64 {
    match tier {
        "quick" => OWN_QUICK + 48,
        _ => OWN_THOROUGH + 480,
    }
}

const POINTS: [&str; 16] = [
    "get.unlocked", "get.before_imm", "get.before_tables", "write.before_wal", "write.after_wal",
    "write.after_mem", "flush.before_build", "flush.after_build", "manifest.before_append",
    "manifest.after_append", "manifest.after_current", "compact.begin", "compact.step",
    "gc.before_delete", "gc.delete_one", "close.lock_released",
];

/// Any panic on one of raindb's threads counts. (Until the repair D31 the worker of a *failed*
/// `DB::open` died with a panic on its closed channel, and that one was exempted here.)
pub fn judge_bg_panics(out: &mut CaseOut, prop: &str) {
    for p in watch::bg_panics() {
        out.violate(
            format!("{prop}/bg-thread-panic/{}", watch::short_location(&p.location)),
            json!({"thread": p.thread, "message": p.message, "location": p.location}),
        );
    }
}

/// Write until a memtable rotation is noted, then require the flush to finish.
pub fn liveness_probe(out: &mut CaseOut, db: &DB, memtable: usize, prop: &str) {
    let d = director();
    let rot0 = d.note_count("mem.rotate");
    let drop0 = d.note_count("imm.drop");
    let mut written = 0usize;
    let mut i = 0u64;
    let _g = watch::enter("liveness-probe");
    while d.note_count("mem.rotate") == rot0 && written < memtable * 4 + 64 * 1024 {
        i += 1;
        let k = format!("~probe{:06}", i).into_bytes();
        let v = vec![b'p'; 100.min(memtable / 2 + 16)];
        written += k.len() + v.len() + 32;
        if let Err(e) = db.put(WriteOptions::default(), k, v) {
            // a refused write is an answer (bounded), not a liveness failure
            out.add("probe_write_refused", 1);
            out.inconclusive(format!("liveness probe: write refused: {}", crate::session::err_string(&e)));
            return;
        }
        watch::tick();
    }
    if d.note_count("mem.rotate") == rot0 {
        out.violate(format!("{prop}/liveness/no-rotation-after-overfilling-memtable"), json!({"bytes_written": written, "memtable": memtable}));
        return;
    }
    let deadline = Instant::now() + Duration::from_secs(25);
    while d.note_count("imm.drop") == drop0 {
        if Instant::now() > deadline {
            out.violate(
                format!("{prop}/liveness/flush-did-not-finish"),
                json!({"waited_s": 25, "bg_panics": watch::panics_json(&watch::bg_panics()), "probe": format!("{:?}", db.verif_probe())}),
            );
            return;
        }
        std::thread::sleep(Duration::from_millis(1));
        // deliberately no tick here: a wedged flush must look like a stall to the watchdog too
    }
    out.add("liveness_probes_ok", 1);
}

fn case_descriptors(out: &mut CaseOut, rng: &mut Rng) {
    let d = director();
    d.reset(rng.next_u64());
    let cfg = gen::tiny_config(rng);
    let fs = SimFs::from_image(&dbutil::root_image());
    let mut sess = Session::new(fs, cfg);
    if let Err(e) = sess.open() {
        out.violate("C09/open-failed", json!({"error": e}));
        return;
    }
    let pool = gen::key_pool(rng, KeyFamily::Ascii, 60);
    let n = rng.range(0, 400);
    for i in 0..n {
        let k = rng.pick(&pool).clone();
        let v = gen::tagged_value(rng, &format!("v{i}:"), 40);
        if sess.put(&k, &v).is_err() {
            break;
        }
    }
    let mut kinds: Vec<(String, DatabaseDescriptor)> = vec![
        ("SSTables".into(), DatabaseDescriptor::SSTables),
        ("Stats".into(), DatabaseDescriptor::Stats),
    ];
    for level in [0usize, 1, 3, 6, 7, 8, 1000, usize::MAX] {
        kinds.push((format!("NumFilesAtLevel({level})"), DatabaseDescriptor::NumFilesAtLevel(level)));
    }
    rng.shuffle(&mut kinds);
    for (name, kind) in kinds {
        let _g = watch::enter(&format!("get_descriptor:{name}"));
        let r = sess.db().get_descriptor(kind);
        out.add("descriptor_calls", 1);
        out.nontrivial(format!("descriptor/{}/{}", name, if r.is_ok() { "ok" } else { "err" }));
    }
    // legal but unusual calls, each followed by an ordinary write and read: whatever the odd call
    // answered, it must not leave anything behind that keeps the next caller waiting
    let mut odd: Vec<&str> = vec!["empty-batch", "empty-key", "huge-batch-on-one-key", "inverted-range-compaction", "single-key-compaction", "snapshots-released-newest-first",
        "iterator-seeks-past-the-end", "synchronous-write", "delete-of-a-key-never-written", "empty-batch-synchronous"];
    rng.shuffle(&mut odd);
    for what in odd {
        {
            let _g = watch::enter(&format!("odd-call:{what}"));
            let db = sess.db();
            match what {
                "empty-batch" => {
                    let _ = db.apply(WriteOptions::default(), raindb::Batch::new());
                }
                "empty-batch-synchronous" => {
                    let _ = db.apply(WriteOptions { synchronous: true }, raindb::Batch::new());
                }
                "empty-key" => {
                    let _ = db.put(WriteOptions::default(), vec![], vec![]);
                    let _ = db.get(raindb::ReadOptions::default(), &[]);
                    let _ = db.delete(WriteOptions::default(), vec![]);
                }
                "huge-batch-on-one-key" => {
                    let mut b = raindb::Batch::new();
                    for i in 0..3000u32 {
                        if i % 7 == 0 {
                            b.add_delete(b"odd-one-key".to_vec());
                        } else {
                            b.add_put(b"odd-one-key".to_vec(), i.to_be_bytes().to_vec());
                        }
                    }
                    let _ = db.apply(WriteOptions::default(), b);
                }
                "inverted-range-compaction" => db.compact_range(Some(&b"k9"[..])..Some(&b"k0"[..])),
                "single-key-compaction" => {
                    let k = rng.pick(&pool).clone();
                    db.compact_range(Some(k.as_slice())..Some(k.as_slice()));
                }
                "snapshots-released-newest-first" => {
                    let snaps: Vec<_> = (0..4).map(|_| db.get_snapshot()).collect();
                    for s in snaps.into_iter().rev() {
                        db.release_snapshot(s);
                    }
                }
                "iterator-seeks-past-the-end" => {
                    use raindb::RainDbIterator;
                    if let Ok(mut it) = db.new_iterator(raindb::ReadOptions::default()) {
                        let _ = it.seek(&vec![0xffu8; 40]);
                        let _ = it.is_valid();
                        let _ = it.seek_to_last();
                        let _ = it.seek_to_first();
                    }
                }
                "synchronous-write" => {
                    let _ = db.put(WriteOptions { synchronous: true }, b"odd-sync".to_vec(), b"1".to_vec());
                }
                _ => {
                    let _ = db.delete(WriteOptions::default(), b"odd-never-written".to_vec());
                }
            }
        }
        out.add("odd_calls", 1);
        let _g = watch::enter(&format!("write-after-odd-call:{what}"));
        let k = rng.pick(&pool).clone();
        let _ = sess.db().put(WriteOptions::default(), k.clone(), b"after-odd-call".to_vec());
        let _ = sess.db().get(raindb::ReadOptions::default(), &k);
    }
    liveness_probe(out, sess.db(), cfg.memtable, "C09");
    sess.close();
    judge_bg_panics(out, "C09");
    out.sample = Some(json!({"family": "descriptors-and-odd-calls", "config": cfg.describe(), "puts_before": n}));
}

struct NullObserver;
impl Observer for NullObserver {
    fn checkpoint(&mut self, _s: &mut Session, _o: &mut CaseOut, _u: &BTreeSet<Vec<u8>>, _r: &str) {}
}

fn case_history(out: &mut CaseOut, rng: &mut Rng, idx: u64, tier: &str) {
    let n_ops = if tier == "quick" { 400 } else { rng.range(400, 2500) as usize };
    let mut params = HistoryParams::generate(rng, idx, n_ops);
    params.compact_weight = 6;
    let mut inner = CaseOut::new();
    let outcome = history::run(&mut inner, rng, &params, &mut NullObserver);
    // only liveness is judged here; behavioural verdicts of the inner run belong to other properties
    for (k, n) in inner.obs {
        *out.obs.entry(k).or_insert(0) += n;
    }
    judge_bg_panics(out, "C09");
    let waits = out.obs.get("note.mem.rotate").copied().unwrap_or(0);
    if waits > 0 && out.obs.get("compact_range_calls").copied().unwrap_or(0) > 0 {
        out.nontrivial(format!("history/{}/{}/max-level{}", params.family.name(), params.cfg.class(), outcome.max_level));
    }
    out.sample = Some(json!({"family": "single-client-history", "params": params.describe(), "ops_done": outcome.ops_done}));
}

fn case_stress(out: &mut CaseOut, rng: &mut Rng, tier: &str) {
    let d = director();
    d.reset(rng.next_u64());
    // perturbation: one or two hot points with long delays, everything else rarely and briefly
    d.set_default_delay(Some(Delay { probability: 0.02, min_us: 0, max_us: 200 }));
    let hot1 = *rng.pick(&POINTS);
    let hot2 = *rng.pick(&POINTS);
    d.set_delay(hot1, Delay { probability: 0.3, min_us: 500, max_us: 6000 });
    if rng.chance(0.5) {
        d.set_delay(hot2, Delay { probability: 0.2, min_us: 200, max_us: 3000 });
    }
    let mut cfg = gen::tiny_config(rng);
    cfg.memtable = *rng.pick(&[256usize, 256, 512, 1024]);
    let fs = SimFs::from_image(&dbutil::root_image());
    let options = dbutil::options(fs.as_provider(), dbutil::DB_PATH, &cfg);
    let db = {
        let _g = watch::enter("open");
        match DB::open(options) {
            Ok(db) => Arc::new(db),
            Err(e) => {
                out.violate("C09/open-failed", json!({"error": e.to_string()}));
                return;
            }
        }
    };
    let pool = Arc::new(gen::key_pool(rng, KeyFamily::Ascii, 80));
    let n_writers = rng.range(2, 4) as u32;
    let n_readers = 2u32;
    let n_compactors = rng.range(1, 2) as u32;
    let n_walkers = 1u32;
    let ops_per_thread: u64 = if tier == "quick" { 250 } else { rng.range(250, 1200) };
    let stop = Arc::new(AtomicBool::new(false));
    let done_ops = Arc::new(AtomicU64::new(0));
    let mut handles = vec![];
    let mut role = 0u32;
    let mut spawn = |name: &str, f: Box<dyn FnOnce() + Send>| {
        role += 1;
        let r = role;
        handles.push(
            std::thread::Builder::new()
                .name(format!("c09-{name}-{r}"))
                .spawn(move || {
                    set_role(r);
                    f();
                })
                .unwrap(),
        );
    };
    for w in 0..n_writers {
        let (db, pool, done, mut trng) = (Arc::clone(&db), Arc::clone(&pool), Arc::clone(&done_ops), rng.fork("w"));
        spawn("writer", Box::new(move || {
            for i in 0..ops_per_thread {
                let _g = watch::enter("put/delete/apply");
                let k = trng.pick(&pool).clone();
                let r = match trng.below(10) {
                    0..=6 => db.put(WriteOptions::default(), k, gen::tagged_value(&mut trng, &format!("w{w}.{i}:"), 50)),
                    7..=8 => db.delete(WriteOptions::default(), k),
                    _ => {
                        let mut b = Batch::new();
                        for _ in 0..trng.range(2, 12) {
                            b.add_put(trng.pick(&pool).clone(), gen::tagged_value(&mut trng, "b:", 30));
                        }
                        db.apply(WriteOptions::default(), b)
                    }
                };
                if r.is_err() {
                    break;
                }
                done.fetch_add(1, Ordering::Relaxed);
            }
        }));
    }
    for _ in 0..n_readers {
        let (db, pool, done, stop, mut trng) = (Arc::clone(&db), Arc::clone(&pool), Arc::clone(&done_ops), Arc::clone(&stop), rng.fork("r"));
        spawn("reader", Box::new(move || {
            while !stop.load(Ordering::Relaxed) {
                let _g = watch::enter("get/snapshot");
                if trng.chance(0.2) {
                    let snap = db.get_snapshot();
                    for _ in 0..5 {
                        let k = trng.pick(&pool).clone();
                        let _ = db.get(ReadOptions { fill_cache: trng.chance(0.5), snapshot: Some(snap.clone()) }, &k);
                    }
                    db.release_snapshot(snap);
                } else {
                    let k = trng.pick(&pool).clone();
                    match db.get(ReadOptions::default(), &k) {
                        Ok(_) | Err(RainDBError::KeyNotFound) => {}
                        Err(_) => {}
                    }
                }
                done.fetch_add(1, Ordering::Relaxed);
            }
        }));
    }
    for _ in 0..n_compactors {
        let (db, pool, done, stop, mut trng) = (Arc::clone(&db), Arc::clone(&pool), Arc::clone(&done_ops), Arc::clone(&stop), rng.fork("c"));
        spawn("manual", Box::new(move || {
            while !stop.load(Ordering::Relaxed) {
                let _g = watch::enter("compact_range");
                let a = trng.pick(&pool).clone();
                let b = trng.pick(&pool).clone();
                match trng.below(4) {
                    0 => db.compact_range(None..None),
                    1 => db.compact_range(Some(a.as_slice())..None),
                    2 => db.compact_range(None..Some(b.as_slice())),
                    _ => {
                        let (lo, hi) = if a <= b { (a, b) } else { (b, a) };
                        db.compact_range(Some(lo.as_slice())..Some(hi.as_slice()))
                    }
                }
                done.fetch_add(1, Ordering::Relaxed);
                std::thread::sleep(Duration::from_millis(trng.range(0, 4)));
            }
        }));
    }
    for _ in 0..n_walkers {
        let (db, pool, done, stop, mut trng) = (Arc::clone(&db), Arc::clone(&pool), Arc::clone(&done_ops), Arc::clone(&stop), rng.fork("i"));
        spawn("walker", Box::new(move || {
            while !stop.load(Ordering::Relaxed) {
                let _g = watch::enter("iterator");
                if let Ok(mut it) = db.new_iterator(ReadOptions { fill_cache: false, snapshot: None }) {
                    let _ = match trng.below(3) {
                        0 => it.seek_to_first(),
                        1 => it.seek_to_last(),
                        _ => it.seek(trng.pick(&pool)),
                    };
                    for _ in 0..trng.range(1, 40) {
                        if !it.is_valid() {
                            break;
                        }
                        if trng.chance(0.7) {
                            it.next();
                        } else {
                            it.prev();
                        }
                    }
                    drop(it);
                }
                done.fetch_add(1, Ordering::Relaxed);
            }
        }));
    }
    // writers run a fixed amount of work; the others run until the writers are done
    let n_w = n_writers as usize;
    let mut rest = handles.split_off(n_w);
    for h in handles {
        let _ = h.join();
    }
    stop.store(true, Ordering::Relaxed);
    for h in rest.drain(..) {
        let _ = h.join();
    }
    let rotations = d.note_count("mem.rotate");
    let picks = d.notes_from(0).iter().filter(|(n, a)| *n == "compaction.pick" && a.len() >= 4 && a[3] == 1).count();
    out.add("stress_ops", done_ops.load(Ordering::Relaxed));
    out.add("stress_rotations", rotations);
    out.add("stress_manual_compactions", picks as u64);
    for (name, n) in d.note_counts() {
        out.add(&format!("note.{name}"), n);
    }
    d.clear_delays();
    let close_now = rng.chance(0.3);
    if !close_now {
        liveness_probe(out, &db, cfg.memtable, "C09");
    }
    match Arc::try_unwrap(db) {
        Ok(db) => {
            let _g = watch::enter("close");
            drop(db);
            out.add("closes", 1);
        }
        Err(_) => out.inconclusive("database handle still shared at close"),
    }
    judge_bg_panics(out, "C09");
    if rotations > 0 && picks > 0 {
        out.nontrivial(format!("stress/sig{:016x}", d.signature()));
        out.set_add("interleavings", format!("{:016x}", d.signature()));
    }
    out.sample = Some(json!({"family": "stress", "config": cfg.describe(), "writers": n_writers, "readers": n_readers,
        "manual_compactors": n_compactors, "iterator_walkers": n_walkers, "ops_per_writer": ops_per_thread,
        "hot_points": [hot1, hot2], "rotations": rotations, "manual_compactions_run": picks, "closed_immediately": close_now}));
}


/// A memtable flush that runs *inside* a table compaction (the compaction loop gives it priority)
/// places its output as deep as level 2 if nothing there overlaps it. The compaction in flight is
/// at that moment writing outputs for the same level whose key range may span the new file.
/// Forced: level-1 files A and C (with parents A', C' at level 2) are being compacted manually into
/// level 2 while keys of the gap between them are written, rotated and flushed.
fn case_flush_into_gap(out: &mut CaseOut, rng: &mut Rng) {
    let d = director();
    d.reset(rng.next_u64());
    let cfg = crate::gen::Config { memtable: 2048, file: 64 * 1024, block: 256, reuse: true };
    let fs = SimFs::from_image(&dbutil::root_image());
    let mut sess = Session::new(fs, cfg);
    if let Err(e) = sess.open() {
        out.violate("C09/open-failed", json!({"error": e}));
        return;
    }
    let n = rng.range(8, 20);
    let group = |sess: &mut Session, prefix: &str, round: u64| -> bool {
        for i in 0..n {
            if sess.put(format!("{prefix}{i:03}").as_bytes(), format!("{prefix}-r{round}-{i}").as_bytes()).is_err() {
                return false;
            }
        }
        // a compact_range over a range that holds no keys is a pure memtable flush
        sess.compact(Some(b"~~~~"), Some(b"~~~~"));
        sess.wait_quiescent(Duration::from_secs(10))
    };
    // first copies settle at level 2, second copies stop at level 1 (they overlap level 2)
    let ok = group(&mut sess, "a", 0) && group(&mut sess, "c", 0) && group(&mut sess, "a", 1) && group(&mut sess, "c", 1);
    let shape_before = crate::session::shape_string(&sess.shape());
    let files_before: Vec<String> = sess.db().verif_files().iter().map(|f| format!("L{}#{}[{}..{}]", f.level, f.number, String::from_utf8_lossy(&f.smallest.user_key), String::from_utf8_lossy(&f.largest.user_key))).collect();
    if !ok {
        out.inconclusive("flush-into-gap: could not build the shape");
        sess.close();
        return;
    }
    let level1: Vec<_> = sess.db().verif_files().into_iter().filter(|f| f.level == 1).collect();
    let gate = d.arm(crate::director::COMPACTOR, "compact.step", 2);
    let db = sess.db_arc();
    let manual = std::thread::Builder::new().name("c09-manual".into()).spawn(move || {
        set_role(2);
        let _g = watch::enter("compact_range");
        db.compact_range(None..None);
        drop(db);
    }).unwrap();
    let arrived = d.wait_arrived(gate, Duration::from_secs(10));
    let mut rotated = false;
    if arrived {
        // keys of the gap, until one rotation has happened
        let rot0 = d.note_count("mem.rotate");
        for i in 0..300u64 {
            let _g = watch::enter("put(gap)");
            if sess.put(format!("b{:03}", i % 12).as_bytes(), vec![b'g'; 50].as_slice()).is_err() {
                break;
            }
            if d.note_count("mem.rotate") > rot0 {
                rotated = true;
                break;
            }
        }
    }
    d.release(gate);
    // wait for the manual compaction to return - or for the compaction thread to die
    let deadline = Instant::now() + Duration::from_secs(20);
    while !manual.is_finished() && watch::bg_panics().is_empty() && Instant::now() < deadline {
        std::thread::sleep(Duration::from_millis(2));
        watch::tick();
    }
    if manual.is_finished() {
        let _ = manual.join();
        sess.wait_quiescent(Duration::from_secs(10));
    }
    let ctx = json!({"scenario": "flush of gap keys inside a manual level-1 compaction", "config": cfg.describe(), "files_before": files_before,
        "level1_files_before": level1.len(), "compactor_reached_step": arrived, "rotated_while_parked": rotated,
        "files_after": sess.db().verif_files().iter().map(|f| format!("L{}#{}[{}..{}]", f.level, f.number, String::from_utf8_lossy(&f.smallest.user_key), String::from_utf8_lossy(&f.largest.user_key))).collect::<Vec<_>>()});
    judge_bg_panics(out, "C09");
    if !watch::bg_panics().is_empty() {
        // the compaction thread is dead: closing would wait forever
        for v in out.violations.iter_mut() {
            v.detail["ctx"] = ctx.clone();
        }
        std::mem::forget(sess);
    } else {
        liveness_probe(out, sess.db(), cfg.memtable, "C09");
        sess.close();
    }
    if arrived && rotated && level1.len() >= 2 {
        out.nontrivial(format!("flush-into-gap/before[{shape_before}]"));
        out.add("windows_achieved", 1);
    }
    out.add("windows_attempted", 1);
    out.sample = Some(json!({"family": "flush-into-gap", "ctx": ctx}));
}


/// A compaction task is scheduled while the worker sits between two task batches, and the
/// database is closed before the worker looks at its channel again. Close must still return.
fn case_close_with_queued_task(out: &mut CaseOut, rng: &mut Rng) {
    let d = director();
    d.reset(rng.next_u64());
    let cfg = crate::gen::Config { memtable: *rng.pick(&[256usize, 512]), file: 4096, block: 256, reuse: true };
    let fs = SimFs::from_image(&dbutil::root_image());
    let options = dbutil::options(fs.as_provider(), dbutil::DB_PATH, &cfg);
    let db = {
        let _g = watch::enter("open");
        match DB::open(options) {
            Ok(db) => db,
            Err(e) => {
                out.violate("C09/open-failed", json!({"error": e.to_string()}));
                return;
            }
        }
    };
    let fill_until_rotation = |db: &DB, tag: &str| -> bool {
        let rot0 = director().note_count("mem.rotate");
        for i in 0..400 {
            let _g = watch::enter("put(fill)");
            if db.put(WriteOptions::default(), format!("{tag}{i:04}").into_bytes(), vec![b'v'; 40]).is_err() {
                return false;
            }
            if director().note_count("mem.rotate") > rot0 {
                return true;
            }
        }
        false
    };
    // the worker is parked right after it has finished a batch of tasks
    let gate = d.arm(crate::director::COMPACTOR, "worker.idle", 1);
    let first = fill_until_rotation(&db, "a");
    let arrived = first && d.wait_arrived(gate, Duration::from_secs(10));
    // a second rotation schedules a task that now sits in the worker's channel
    let second = arrived && fill_until_rotation(&db, "b");
    out.add("windows_attempted", 1);
    let closer = std::thread::Builder::new().name("c09-closer".into()).spawn(move || {
        let _g = watch::enter("close");
        drop(db);
    }).unwrap();
    // give close the time to set its shutdown flag and start waiting, then let the worker go on
    std::thread::sleep(Duration::from_millis(rng.range(5, 40)));
    d.release(gate);
    let deadline = Instant::now() + Duration::from_secs(15);
    while !closer.is_finished() && Instant::now() < deadline {
        std::thread::sleep(Duration::from_millis(2));
    }
    let ctx = json!({"scenario": "task scheduled while the worker is between two batches, then close", "config": cfg.describe(),
        "worker_parked_after_first_flush": arrived, "second_rotation_scheduled_a_task": second});
    if closer.is_finished() {
        let _ = closer.join();
        out.add("closes", 1);
    } else {
        out.violate(
            "C09/close-never-returns/task-queued-while-worker-idle",
            json!({"ctx": ctx, "waited_s": 15, "bg_panics": watch::panics_json(&watch::bg_panics())}),
        );
        // the closer thread is stuck in Drop; leave it behind
    }
    judge_bg_panics(out, "C09");
    if arrived && second {
        out.add("windows_achieved", 1);
        out.nontrivial(format!("close-with-queued-task/mem{}", cfg.memtable));
    }
    out.sample = Some(json!({"family": "close-with-queued-task", "ctx": ctx}));
}

/// The database handle is dropped while an iterator created from it is still alive (a struct that
/// declares the database before the iterator does exactly that). Closing has to return, and the
/// iterator has to be droppable afterwards, without a panic on either thread.
fn case_close_with_live_iterator(out: &mut CaseOut, rng: &mut Rng) {
    let d = director();
    d.reset(rng.next_u64());
    let cfg = gen::Config { memtable: *rng.pick(&[256usize, 4096]), file: 4096, block: 256, reuse: true };
    let fs = SimFs::from_image(&dbutil::root_image());
    let options = dbutil::options(fs.as_provider(), dbutil::DB_PATH, &cfg);
    let db = {
        let _g = watch::enter("open");
        match DB::open(options) {
            Ok(db) => db,
            Err(e) => {
                out.violate("C09/open-failed", json!({"error": e.to_string()}));
                return;
            }
        }
    };
    for i in 0..rng.range(10, 200) {
        let _ = db.put(WriteOptions::default(), format!("k{i:04}").into_bytes(), vec![b'v'; 30]);
    }
    let mut it = match db.new_iterator(ReadOptions::default()) {
        Ok(it) => it,
        Err(e) => {
            out.violate("C09/new-iterator-error", json!({"error": e.to_string()}));
            return;
        }
    };
    let _ = it.seek_to_first();
    let used_before_close = rng.chance(0.5);
    if used_before_close {
        for _ in 0..5 {
            if it.is_valid() {
                it.next();
            }
        }
    }
    let ctx = json!({"scenario": "database dropped while an iterator is alive", "config": cfg.describe(), "iterator_stepped_before_close": used_before_close});
    let panics_before = watch::peek_panics().len();
    let closer = std::thread::Builder::new().name("c09-closer".into()).spawn(move || {
        let _g = watch::enter("close(iterator alive)");
        drop(db);
    }).unwrap();
    let deadline = Instant::now() + Duration::from_secs(15);
    while !closer.is_finished() && Instant::now() < deadline {
        std::thread::sleep(Duration::from_millis(2));
    }
    if !closer.is_finished() {
        out.violate("C09/close-never-returns/iterator-alive", json!({"ctx": ctx, "waited_s": 15}));
        std::mem::forget(it);
        return;
    }
    if closer.join().is_err() {
        let panics = watch::peek_panics();
        out.violate("C09/close-panicked/iterator-alive", json!({"ctx": ctx, "panics": watch::panics_json(&panics[panics_before.min(panics.len())..])}));
        std::mem::forget(it);
        let _ = watch::bg_panics();
        return;
    }
    // the iterator is released after the database
    let dropped = {
        let _g = watch::enter("drop(iterator after close)");
        std::panic::catch_unwind(std::panic::AssertUnwindSafe(move || drop(it)))
    };
    if dropped.is_err() {
        out.violate("C09/iterator-drop-panicked/after-close", json!({"ctx": ctx, "panics": watch::panics_json(&watch::peek_panics())}));
        return;
    }
    std::thread::sleep(Duration::from_millis(20));
    judge_bg_panics(out, "C09");
    out.add("closes_with_live_iterator", 1);
    out.nontrivial(format!("close-with-live-iterator/stepped{}", used_before_close as u8));
    out.sample = Some(json!({"family": "close-with-live-iterator", "ctx": ctx}));
}

/// An application that has a logger installed at Info level: every log statement of raindb is
/// formatted. The database is opened, filled, read (the shared block cache fills up), closed and
/// opened again with the same options while log records are evaluated: every call still has to
/// return in bounded time.
fn case_open_with_logging(out: &mut CaseOut, rng: &mut Rng) {
    let d = director();
    d.reset(rng.next_u64());
    let cfg = gen::Config { memtable: 4096, file: 1 << 20, block: *rng.pick(&[64usize, 128]), reuse: rng.chance(0.5) };
    let fs = SimFs::from_image(&dbutil::root_image());
    let mut sess = Session::new(fs, cfg);
    if let Err(e) = sess.open() {
        out.violate("C09/open-failed", json!({"error": e}));
        return;
    }
    let pool = gen::key_pool(rng, KeyFamily::Ascii, 300);
    for (i, k) in pool.iter().enumerate() {
        let _ = sess.put(k, &gen::tagged_value(rng, &format!("v{i}:"), 60));
    }
    sess.compact(None, None);
    sess.wait_quiescent(Duration::from_secs(20));
    for k in &pool {
        let _ = sess.get(k);
    }
    sess.close();
    let bytes0 = watch::set_log_evaluation(log::LevelFilter::Info);
    watch::set_call_limit(Duration::from_secs(25));
    let t0 = Instant::now();
    let reopened = sess.open();
    let open_ms = t0.elapsed().as_millis() as u64;
    if reopened.is_ok() {
        for k in pool.iter().take(40) {
            let _ = sess.get(k);
        }
        let _ = sess.put(b"after-reopen", b"x");
        sess.compact(None, None);
        sess.close();
    }
    let bytes1 = watch::set_log_evaluation(log::LevelFilter::Off);
    watch::set_call_limit(Duration::from_secs(60));
    if let Err(e) = reopened {
        out.violate("C09/open-failed/with-logging", json!({"error": e}));
    }
    out.max("open_with_logging_ms", open_ms);
    out.add("log_bytes_formatted", bytes1 - bytes0);
    judge_bg_panics(out, "C09");
    if bytes1 > bytes0 {
        out.nontrivial(format!("open-with-logging/block{}/reuse{}", cfg.block, cfg.reuse as u8));
    }
    out.sample = Some(json!({"family": "open-with-logging", "config": cfg.describe(), "reopen_ms": open_ms, "log_bytes_formatted": bytes1 - bytes0}));
}

/// Degenerate configurations: a memtable budget of a few bytes (smaller than what an empty memtable
/// reports as its own footprint), files and blocks of a few bytes. Every call still has to return.
fn case_degenerate_config(out: &mut CaseOut, rng: &mut Rng, idx: u64) {
    let d = director();
    d.reset(rng.next_u64());
    let memtable = [0usize, 1, 64, 100, 110, 120, 200][(idx / 12 % 7) as usize];
    let cfg = gen::Config { memtable, file: *rng.pick(&[1u64, 64, 512]), block: *rng.pick(&[1usize, 16, 256]), reuse: rng.chance(0.5) };
    let fs = SimFs::from_image(&dbutil::root_image());
    let mut sess = Session::new(fs, cfg);
    watch::set_call_limit(Duration::from_secs(12));
    if let Err(e) = sess.open() {
        out.violate("C09/open-failed", json!({"error": e, "config": cfg.describe()}));
        watch::set_call_limit(Duration::from_secs(60));
        return;
    }
    let pool = gen::key_pool(rng, KeyFamily::Ascii, 12);
    for i in 0..30u64 {
        let k = rng.pick(&pool).clone();
        if i % 7 == 6 {
            let _ = sess.delete(&k);
        } else {
            let _ = sess.put(&k, format!("v{i}").as_bytes());
        }
        if i % 10 == 9 {
            let _ = sess.get(&k);
        }
    }
    sess.compact(None, None);
    let _ = sess.scan(None);
    liveness_probe(out, sess.db(), memtable.max(64), "C09");
    judge_bg_panics(out, "C09");
    sess.close();
    watch::set_call_limit(Duration::from_secs(60));
    out.nontrivial(format!("degenerate-config/mem{memtable}/file{}/block{}", cfg.file, cfg.block));
    out.sample = Some(json!({"family": "degenerate-config", "config": cfg.describe()}));
}

/// Closing a database that has read a lot: tens of thousands of small blocks go through the block
/// cache (reads that fill it), then the database is closed and the last handle to its options -
/// and with it the cache - is dropped on a thread with a small (128 KiB) stack. Everything that
/// was cached is freed there; that, too, has to come back.
fn case_big_cache(out: &mut CaseOut, rng: &mut Rng) {
    let d = director();
    d.reset(rng.next_u64());
    let cfg = gen::Config { memtable: 1 << 20, file: 2 << 20, block: 16, reuse: true };
    let fs = SimFs::from_image(&dbutil::root_image());
    let mut sess = Session::new(fs, cfg);
    sess.fill_cache = true;
    if let Err(e) = sess.open() {
        out.violate("C09/open-failed", json!({"error": e}));
        return;
    }
    let n = rng.range(50_000, 70_000);
    for i in 0..n {
        if sess.put(format!("key{i:07}").as_bytes(), format!("value-{i:07}").as_bytes()).is_err() {
            out.inconclusive("degenerate: load refused");
            return;
        }
    }
    sess.compact(None, None);
    sess.wait_quiescent(Duration::from_secs(60));
    let scanned = sess.scan(None).map(|e| e.len()).unwrap_or(0);
    let _ = sess.get(b"key0000100");
    sess.close();
    drop(sess);
    // the options of this case (and their block cache) are dropped on a thread of their own
    let t0 = Instant::now();
    // (128 KiB: the default thread stack of musl libc - what is freed must not need more the more was cached)
    let dropper = std::thread::Builder::new().name("c09-options-dropper".into()).stack_size(128 * 1024).spawn(|| {
        let _g = watch::enter("drop(options and block cache)");
        dbutil::new_case();
    }).unwrap();
    let joined = dropper.join();
    if joined.is_err() {
        out.violate("C09/dropping-the-block-cache-panicked", json!({"entries_scanned": scanned}));
    }
    out.max("block_cache_drop_ms", t0.elapsed().as_millis() as u64);
    out.add("entries_read_through_the_block_cache", scanned as u64);
    judge_bg_panics(out, "C09");
    if scanned as u64 == n {
        out.nontrivial(format!("big-cache/{}k-blocks", n / 10_000 * 10));
    }
    out.sample = Some(json!({"family": "close-after-filling-the-block-cache", "entries": n, "max_block_size": 16}));
}

/// "For every workload": cases of other properties' checks are run here for their liveness alone -
/// the snapshot-heavy histories and the split hunter of C03 (outputs cut between two versions of
/// one user key, partial manual compactions), the compaction shapes of C07 (slowed merges, backlog
/// up to the level-0 triggers, seek storms) and the snapshot-per-write shapes of C04. What those
/// Every sixth borrowed case is a sweep of C15: byte-damaged write-ahead logs, manifests and tables
/// are opened, read, compacted, written to and reopened. What those
/// checks say about contents is not this property's business and is dropped; a panic on a raindb
/// thread or a call that does not return (the watchdog ends the shard) is.
fn case_borrowed(out: &mut CaseOut, tier: &str, seed: u64, j: u64) {
    let (name, inner) = match j % 4 {
        // damaged files are no excuse either: "as long as the filesystem makes progress" - it does,
        // it just returns other bytes. Opening, reading and compacting the damaged images of C15.
        _ if j % 6 == 5 => ("C15", super::c15::run_case(tier, seed, (j * 11) % super::c15::plan(tier))),
        0 | 1 => ("C03", super::c03::run_case(tier, seed, (j * 13) % super::c03::plan(tier))),
        2 => ("C07", super::c07::run_case(tier, seed, (j * 7) % super::c07::plan(tier))),
        _ => ("C04", super::c04::run_case(tier, seed, (j * 5) % super::c04::plan(tier))),
    };
    for (k, n) in &inner.obs {
        if k.starts_with("note.") || k == "trivial_moves" || k.ends_with("_compactions") {
            *out.obs.entry(k.clone()).or_insert(0) += *n;
        }
    }
    out.add(&format!("borrowed_cases.{name}"), 1);
    if name == "C15" {
        // a call that panics has not returned: on the unchanged tree no damaged image makes any
        // call panic (C15 itself counts a panic as detection, because nothing wrong was served)
        let (footer_images, footer_panics) = super::c15::footer_sweep(seed, j);
        out.add("damaged_table_footers_opened_for_liveness", footer_images);
        let panicked: u64 = footer_panics + inner.obs.iter().filter(|(k, _)| k.ends_with(".detected-by-panic")).map(|(_, n)| *n).sum::<u64>();
        if panicked > 0 {
            let panics = watch::peek_panics();
            let loc = panics.first().map(|p| watch::short_location(&p.location)).unwrap_or_default();
            out.violate(format!("C09/call-panicked-on-a-damaged-file/{loc}"), json!({"images_with_a_panicking_call": panicked, "panics": watch::panics_json(&panics)}));
        }
        out.add("damaged_images_opened_for_liveness", inner.obs.get("mutated_images").copied().unwrap_or(0));
    }
    judge_bg_panics(out, "C09");
    if !inner.nontrivial.is_empty() {
        out.nontrivial(format!("borrowed/{name}/{}", inner.nontrivial.iter().next().map(|s| s.chars().take(40).collect::<String>()).unwrap_or_default()));
    }
    out.sample = Some(json!({"family": "borrowed-workload", "from": name, "inner_case_violations_dropped": inner.violations.len()}));
}

pub fn run_case(tier: &str, seed: u64, idx: u64) -> CaseOut {
    let mut out = CaseOut::new();
    let own = if tier == "quick" { OWN_QUICK } else { OWN_THOROUGH };
    if idx >= own {
        case_borrowed(&mut out, tier, seed, idx - own);
        return out;
    }
    let mut rng = Rng::new(mix(&[seed, idx], "c09"));
    match idx % 6 {
        2 if idx % 12 == 8 => case_degenerate_config(&mut out, &mut rng, idx),
        3 if idx % 12 == 9 => case_close_with_live_iterator(&mut out, &mut rng),
        4 if idx % 12 == 10 => case_open_with_logging(&mut out, &mut rng),
        0 if idx % 12 == 6 => case_flush_into_gap(&mut out, &mut rng),
        1 if idx % 12 == 7 => case_close_with_queued_task(&mut out, &mut rng),
        5 if idx % 24 == 11 => case_big_cache(&mut out, &mut rng),
        0 => case_descriptors(&mut out, &mut rng),
        1 | 2 => case_history(&mut out, &mut rng, idx, tier),
        _ => case_stress(&mut out, &mut rng, tier),
    }
    out
}
