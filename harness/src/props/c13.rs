//! C13 — table files give back exactly what was put in.
//!
//! Oracle: the sorted entry list the table was built from.

use raindb::verif::table::{self, Entry, Lookup};
use raindb::Operation;
use serde_json::json;

use crate::dbutil;
use crate::gen::{self, Config, KeyFamily};
use crate::report::{show, CaseOut};
use crate::rng::{mix, Rng};
use crate::simfs::SimFs;
use crate::watch;

pub fn plan(tier: &str) -> u64 {
    n_single(tier) + n_concurrent(tier)
}

fn n_single(tier: &str) -> u64 {
    if tier == "quick" {
        800
    } else {
        10_000
    }
}

fn n_concurrent(tier: &str) -> u64 {
    if tier == "quick" {
        16
    } else {
        80
    }
}

/// Eight tables with different contents are opened and read by eight threads at the same time,
/// over and over, through one shared block cache (fill_cache on): every table has a data block at
/// offset 0, so only the per-open cache partition keeps their blocks apart. Every scan, seek and
/// lookup must show the thread's own table.
fn case_concurrent_opens(out: &mut CaseOut, seed: u64, idx: u64) {
    let mut rng = Rng::new(mix(&[seed, idx], "c13-conc"));
    let fs = SimFs::from_image(&dbutil::skeleton_image("/c13"));
    let block = *rng.pick(&[256usize, 1024, 4096]);
    let cfg = Config { memtable: 4096, file: 1 << 20, block, reuse: true };
    let options = dbutil::options(fs.as_provider(), "/c13", &cfg);
    let n_tables = 8u64;
    let mut tables: Vec<Vec<Entry>> = vec![];
    for t in 0..n_tables {
        let mut entries: Vec<Entry> = vec![];
        for i in 0..rng.range(20, 120) {
            let key = format!("key{i:04}").into_bytes();
            entries.push((key, 1000 + i, Operation::Put, format!("table{t}-value-{i}-{}", "p".repeat(rng.range(0, 60) as usize)).into_bytes()));
        }
        if let Err(e) = table::build(&options, 100 + t, &entries) {
            out.violate("C13/build-failed", json!({"error": e}));
            return;
        }
        tables.push(entries);
    }
    let rounds = 150;
    let barrier = std::sync::Arc::new(std::sync::Barrier::new(n_tables as usize));
    let problems: std::sync::Arc<parking_lot::Mutex<Vec<serde_json::Value>>> = Default::default();
    let mut handles = vec![];
    for (t, entries) in tables.into_iter().enumerate() {
        let (options, barrier, problems) = (options.clone(), std::sync::Arc::clone(&barrier), std::sync::Arc::clone(&problems));
        handles.push(std::thread::Builder::new().name(format!("c13-opener-{t}")).spawn(move || {
            let mut checked = 0u64;
            for round in 0..rounds {
                if round == 0 {
                    barrier.wait();
                }
                if !problems.lock().is_empty() {
                    return checked;
                }
                watch::tick();
                let reader = match table::open(&options, 100 + t as u64) {
                    Ok(r) => r,
                    Err(e) => {
                        problems.lock().push(json!({"table": t, "round": round, "what": "open failed", "error": e}));
                        return checked;
                    }
                };
                let mut cur = reader.cursor(true);
                let mut got = vec![];
                if cur.seek_to_first().is_ok() {
                    while cur.is_valid() && got.len() <= entries.len() + 1 {
                        got.push(cur.current().unwrap());
                        cur.next();
                    }
                }
                let same = got.len() == entries.len() && got.iter().zip(entries.iter()).all(|((k, v), e)| k.user_key == e.0 && *v == e.3);
                if !same {
                    let first = got.iter().zip(entries.iter()).find(|((k, v), e)| k.user_key != e.0 || *v != e.3).map(|((k, v), e)| format!("{}={} instead of {}={}", show(&k.user_key), show(&v[..v.len().min(24)]), show(&e.0), show(&e.3[..e.3.len().min(24)])));
                    problems.lock().push(json!({"table": t, "round": round, "what": "forward scan shows other contents", "entries": entries.len(), "got": got.len(), "first_difference": first}));
                    return checked;
                }
                let probe = &entries[round as usize % entries.len()];
                match reader.get(&probe.0, probe.1, true) {
                    Lookup::Value(v) if v == probe.3 => {}
                    other => {
                        problems.lock().push(json!({"table": t, "round": round, "what": "point lookup shows other contents", "key": show(&probe.0), "got": format!("{other:?}").chars().take(80).collect::<String>()}));
                        return checked;
                    }
                }
                checked += 1;
            }
            checked
        }).unwrap());
    }
    let mut total = 0u64;
    for h in handles {
        total += h.join().unwrap_or(0);
    }
    out.add("concurrent_open_rounds", total);
    let ctx = json!({"family": "concurrent-opens", "tables": n_tables, "max_block_size": block, "rounds_per_thread": rounds});
    for p in problems.lock().drain(..).take(3) {
        out.violate("C13/concurrent-opens/table-shows-another-tables-blocks", json!({"ctx": ctx, "detail": p}));
    }
    out.nontrivial(format!("concurrent-opens/block{block}"));
    out.nontrivial(format!("concurrent-opens/rounds{}", (total / 200).min(6)));
    out.sample = Some(ctx);
}

pub struct TableSpec {
    pub family: KeyFamily,
    pub block: usize,
    pub entries: Vec<Entry>,
    pub max_versions: usize,
}

pub fn gen_table(rng: &mut Rng, idx: u64) -> TableSpec {
    let family = KeyFamily::ALL[(idx % 6) as usize];
    let block = *rng.pick(&[1usize, 16, 16, 64, 64, 256, 256, 1024, 4096, 1 << 20]);
    let nkeys = match rng.below(10) {
        0 => rng.range(1, 3),
        1..=6 => rng.range(3, 60),
        _ => rng.range(60, 300),
    } as usize;
    let pool = gen::key_pool(rng, family, nkeys);
    let many_versions = rng.chance(0.35);
    let big_values = rng.chance(0.15);
    let mut entries: Vec<Entry> = vec![];
    let mut max_versions = 0;
    for key in pool {
        let nv = if many_versions && rng.chance(0.2) {
            rng.range(5, 40)
        } else {
            *rng.pick(&[1u64, 1, 1, 2, 3])
        } as usize;
        let mut seqs = std::collections::BTreeSet::new();
        while seqs.len() < nv {
            seqs.insert(rng.range(1, 100_000));
        }
        max_versions = max_versions.max(nv);
        for seq in seqs.into_iter().rev() {
            if rng.chance(0.25) {
                entries.push((key.clone(), seq, Operation::Delete, vec![]));
            } else {
                let len = if big_values && rng.chance(0.1) {
                    rng.range(5_000, 40_000) as usize
                } else {
                    match rng.below(10) {
                        0 => 0,
                        1 => 1,
                        _ => rng.range(2, 120) as usize,
                    }
                };
                let v = gen::tagged_value(rng, &format!("s{seq}:"), len);
                entries.push((key.clone(), seq, Operation::Put, v));
            }
        }
    }
    TableSpec {
        family,
        block,
        entries,
        max_versions,
    }
}

fn model_get(entries: &[Entry], key: &[u8], seq: u64) -> Lookup {
    for e in entries {
        if e.0.as_slice() == key && e.1 <= seq {
            return match e.2 {
                Operation::Put => Lookup::Value(e.3.clone()),
                Operation::Delete => Lookup::Deleted,
            };
        }
    }
    Lookup::NotInFile
}

/// index of the first entry whose internal key is >= (key, seq)
fn model_seek(entries: &[Entry], key: &[u8], seq: u64) -> Option<usize> {
    entries
        .iter()
        .position(|e| e.0.as_slice() > key || (e.0.as_slice() == key && e.1 <= seq))
}

fn lookup_name(l: &Lookup) -> String {
    match l {
        Lookup::Value(v) => format!("value({})", show(&v[..v.len().min(16)])),
        Lookup::Deleted => "deleted".into(),
        Lookup::NotInFile => "not-in-file".into(),
        Lookup::Error(e) => format!("error({e})"),
    }
}

fn lookup_class(l: &Lookup) -> &'static str {
    match l {
        Lookup::Value(_) => "value",
        Lookup::Deleted => "deleted",
        Lookup::NotInFile => "not-in-file",
        Lookup::Error(_) => "error",
    }
}

pub fn check_table(out: &mut CaseOut, rng: &mut Rng, spec: &TableSpec, thorough: bool) {
    let fs = SimFs::from_image(&dbutil::skeleton_image("/c13"));
    // every fourth table is built on a file that takes only part of a large buffer per write call
    let write_limit = if rng.chance(0.25) { *rng.pick(&[64usize, 1000, 4096]) } else { 0 };
    fs.set_write_limit(write_limit);
    if write_limit > 0 {
        out.add("tables_built_on_a_file_with_partial_writes", 1);
    }
    let cfg = Config {
        memtable: 4096,
        file: 1 << 20,
        block: spec.block,
        reuse: true,
    };
    let options = dbutil::options(fs.as_provider(), "/c13", &cfg);
    let entries = &spec.entries;
    let ctx = json!({"family": spec.family.name(), "max_block_size": spec.block, "entries": entries.len(), "file_takes_at_most_bytes_per_write": write_limit,
        "first_keys": entries.iter().take(4).map(|e| format!("{}@{}", show(&e.0), e.1)).collect::<Vec<_>>()});
    let size = match table::build(&options, 7, entries) {
        Ok(size) => size,
        Err(e) => {
            out.violate("C13/build-failed", json!({"ctx": ctx, "error": e}));
            return;
        }
    };
    let reader = match table::open(&options, 7) {
        Ok(r) => r,
        Err(e) => {
            out.violate("C13/open-failed", json!({"ctx": ctx, "error": e}));
            return;
        }
    };
    out.add("tables", 1);
    out.add("entries", entries.len() as u64);
    let fill_cache = rng.chance(0.5);

    // forward
    let mut cur = reader.cursor(fill_cache);
    let mut got = vec![];
    match cur.seek_to_first() {
        Err(e) => out.violate("C13/iter/seek-to-first-error", json!({"ctx": ctx, "error": e})),
        Ok(()) => {
            while cur.is_valid() && got.len() <= entries.len() + 2 {
                got.push(cur.current().unwrap());
                cur.next();
                watch::tick();
            }
        }
    }
    let same = got.len() == entries.len()
        && got.iter().zip(entries.iter()).all(|((k, v), e)| {
            k.user_key == e.0 && k.sequence == e.1 && k.operation == e.2 && *v == e.3
        });
    if !same {
        let at = got.iter().zip(entries.iter()).position(|((k, v), e)| {
            !(k.user_key == e.0 && k.sequence == e.1 && k.operation == e.2 && *v == e.3)
        });
        out.violate(
            "C13/iter/forward-mismatch",
            json!({"ctx": ctx, "expected": entries.len(), "got": got.len(), "first_diff_at": at}),
        );
    }
    // backward
    let mut cur = reader.cursor(fill_cache);
    let mut got_back = vec![];
    match cur.seek_to_last() {
        Err(e) => out.violate("C13/iter/seek-to-last-error", json!({"ctx": ctx, "error": e})),
        Ok(()) => {
            while cur.is_valid() && got_back.len() <= entries.len() + 2 {
                got_back.push(cur.current().unwrap());
                cur.prev();
                watch::tick();
            }
        }
    }
    got_back.reverse();
    let same_back = got_back.len() == entries.len()
        && got_back.iter().zip(entries.iter()).all(|((k, v), e)| {
            k.user_key == e.0 && k.sequence == e.1 && k.operation == e.2 && *v == e.3
        });
    if !same_back {
        out.violate(
            "C13/iter/backward-mismatch",
            json!({"ctx": ctx, "expected": entries.len(), "got": got_back.len()}),
        );
    }

    // seek + get targets
    let mut targets: Vec<(Vec<u8>, u64)> = vec![];
    let stride = if thorough || entries.len() <= 120 { 1 } else { entries.len() / 120 + 1 };
    for (i, e) in entries.iter().enumerate() {
        if i % stride != 0 && i + 1 != entries.len() {
            continue;
        }
        targets.push((e.0.clone(), e.1));
        targets.push((e.0.clone(), e.1 + 1));
        if e.1 > 0 {
            targets.push((e.0.clone(), e.1 - 1));
        }
        targets.push((e.0.clone(), u64::MAX >> 8));
        targets.push((e.0.clone(), u64::MAX)); // raindb's own upper end of the sequence space: "the newest entry, whatever it is"
        targets.push((e.0.clone(), 0));
        // neighbours of the key
        let mut after = e.0.clone();
        after.push(0);
        targets.push((after, 50_000));
        if let Some(last) = e.0.last().copied() {
            if last > 0 {
                let mut before = e.0.clone();
                *before.last_mut().unwrap() = last - 1;
                targets.push((before, 50_000));
            }
            if last < 0xff {
                let mut next = e.0.clone();
                *next.last_mut().unwrap() = last + 1;
                targets.push((next, 50_000));
            }
        }
    }
    targets.push((vec![], u64::MAX >> 8));
    targets.push((vec![0xff; 8], 1));
    let mut cur = reader.cursor(fill_cache);
    for (key, seq) in &targets {
        watch::tick();
        // point lookup
        let expected = model_get(entries, key, *seq);
        let got = reader.get(key, *seq, fill_cache);
        out.add("gets", 1);
        if got != expected {
            out.violate(
                format!("C13/get/{}-instead-of-{}", lookup_class(&got), lookup_class(&expected)),
                json!({"ctx": ctx, "key": show(key), "seq_bound": seq, "expected": lookup_name(&expected), "got": lookup_name(&got),
                    "last_entry": entries.last().map(|e| format!("{}@{}", show(&e.0), e.1))}),
            );
        }
        // seek
        let exp = model_seek(entries, key, *seq);
        out.add("seeks", 1);
        match cur.seek(key, *seq) {
            Err(e) => out.violate("C13/seek/error", json!({"ctx": ctx, "key": show(key), "seq": seq, "error": e})),
            Ok(()) => {
                let got = cur.current();
                let ok = match (exp, &got) {
                    (None, None) => !cur.is_valid(),
                    (Some(i), Some((k, v))) => {
                        let e = &entries[i];
                        cur.is_valid() && k.user_key == e.0 && k.sequence == e.1 && *v == e.3
                    }
                    _ => false,
                };
                if !ok {
                    out.violate(
                        "C13/seek/wrong-position",
                        json!({"ctx": ctx, "target": format!("{}@{}", show(key), seq),
                            "expected": exp.map(|i| format!("{}@{}", show(&entries[i].0), entries[i].1)),
                            "got": got.map(|(k, _)| format!("{}@{}", show(&k.user_key), k.sequence))}),
                    );
                }
            }
        }
    }

    // random cursor walk with reversals against the index model
    let steps = if thorough { 600 } else { 200 };
    let mut cur = reader.cursor(fill_cache);
    let mut pos: Option<usize> = None;
    let mut reversals = 0;
    let mut last_dir = 0i8;
    for step in 0..steps {
        watch::tick();
        let choice = rng.below(10);
        let what;
        if pos.is_none() || choice == 0 {
            match rng.below(3) {
                0 => {
                    let _ = cur.seek_to_first();
                    pos = if entries.is_empty() { None } else { Some(0) };
                    what = "seek_to_first".to_string();
                }
                1 => {
                    let _ = cur.seek_to_last();
                    pos = entries.len().checked_sub(1);
                    what = "seek_to_last".to_string();
                }
                _ => {
                    let (k, s) = &targets[rng.usize_below(targets.len())];
                    let _ = cur.seek(k, *s);
                    pos = model_seek(entries, k, *s);
                    what = format!("seek {}@{}", show(k), s);
                }
            }
            last_dir = 0;
        } else if choice < 6 {
            cur.next();
            let p = pos.unwrap();
            pos = if p + 1 < entries.len() { Some(p + 1) } else { None };
            if last_dir == -1 {
                reversals += 1;
            }
            last_dir = 1;
            what = "next".to_string();
        } else {
            cur.prev();
            let p = pos.unwrap();
            pos = p.checked_sub(1);
            if last_dir == 1 {
                reversals += 1;
            }
            last_dir = -1;
            what = "prev".to_string();
        }
        let got = cur.current();
        let ok = match (pos, &got) {
            (None, None) => !cur.is_valid(),
            (Some(i), Some((k, v))) => {
                let e = &entries[i];
                cur.is_valid() && k.user_key == e.0 && k.sequence == e.1 && *v == e.3
            }
            _ => false,
        };
        if !ok {
            out.violate(
                format!("C13/cursor/wrong-position-after-{}", what.split(' ').next().unwrap()),
                json!({"ctx": ctx, "step": step, "op": what,
                    "expected": pos.map(|i| format!("{}@{}", show(&entries[i].0), entries[i].1)),
                    "got": got.map(|(k, _)| format!("{}@{}", show(&k.user_key), k.sequence))}),
            );
            break;
        }
    }
    out.add("cursor_reversals", reversals);

    // non-trivial: >= 3 data blocks (estimated from the file size) and a key with versions in two blocks
    let approx_blocks = if spec.block == 0 { 0 } else { (size as usize) / spec.block.max(16) };
    let block_class = match spec.block {
        0..=1 => "b1",
        2..=16 => "b16",
        17..=64 => "b64",
        65..=256 => "b256",
        257..=4096 => "b4k",
        _ => "bhuge",
    };
    if approx_blocks >= 3 && spec.max_versions >= 2 {
        out.nontrivial(format!(
            "{}/{}/v{}/blocks{}",
            block_class,
            spec.family.name(),
            match spec.max_versions { 2..=3 => "2-3", 4..=10 => "4-10", _ => "11+" },
            match approx_blocks { 3..=9 => "3-9", 10..=99 => "10-99", _ => "100+" }
        ));
    }
}

pub fn run_case(tier: &str, seed: u64, idx: u64) -> CaseOut {
    let mut out = CaseOut::new();
    if idx >= n_single(tier) {
        case_concurrent_opens(&mut out, seed, idx - n_single(tier));
        return out;
    }
    let mut rng = Rng::new(mix(&[seed, idx], "c13"));
    let spec = gen_table(&mut rng, idx);
    check_table(&mut out, &mut rng, &spec, tier != "quick");
    out.sample = Some(json!({"family": spec.family.name(), "max_block_size": spec.block, "entries": spec.entries.len(),
        "max_versions_of_one_key": spec.max_versions,
        "first_entries": spec.entries.iter().take(5).map(|e| format!("{}@{} {:?} +{}B", show(&e.0), e.1, e.2, e.3.len())).collect::<Vec<_>>()}));
    out
}
