//! C04 — iterators yield exactly the visible keys, in order, under any cursor movement.

use raindb::{RainDbIterator, ReadOptions};
use serde_json::json;

use crate::director::director;
use crate::report::{show, CaseOut};
use crate::rng::{mix, Rng};
use crate::session::{Map, Session};
use crate::shapes::{self, ShapeSpec};
use crate::simfs::SimFs;
use crate::{dbutil, watch};

const SHAPES_QUICK: u64 = 128;
const SHAPES_THOROUGH: u64 = 500;

pub fn plan(tier: &str) -> u64 {
    match tier {
        "quick" => SHAPES_QUICK + 64,
        _ => SHAPES_THOROUGH + 300,
    }
}

#[derive(Clone, Copy, PartialEq, Eq, Debug)]
pub enum Dir {
    None,
    Fwd,
    Back,
}

pub struct ProgramStats {
    pub steps: u64,
    pub reversals: u64,
}

/// A database iterator paired with a cursor over the frozen map it must mirror.
pub struct CursorChecker<I: RainDbIterator<Key = Vec<u8>, Error = raindb::RainDBError>> {
    iter: I,
    entries: Vec<(Vec<u8>, Vec<u8>)>,
    pos: Option<usize>,
    last: Dir,
    trace: Vec<String>,
    pub steps: u64,
    pub reversals: u64,
    /// Fault-tolerant mode (used by C08): a step after which `status()` reports an error is not
    /// compared with the cursor, and a failing seek counts as a reported error; every step after
    /// which `status()` is clean must be at the cursor's position.
    pub tolerate_reported_errors: bool,
    pub reported_errors: u64,
    /// Fault-tolerant mode: a counter of the faults injected so far. A re-positioning call (seek,
    /// seek_to_first, seek_to_last) during which no fault fired and which returned Ok must leave a
    /// clean status: an error reported then is a left-over of an earlier step, and the call has
    /// neither failed nor taken effect.
    pub fault_probe: Option<std::sync::Arc<dyn Fn() -> u64 + Send + Sync>>,
    /// last key the iterator was correctly positioned at / where to seek back to after an error
    last_key: Option<Vec<u8>>,
    resync_key: Option<Vec<u8>>,
}

impl<I: RainDbIterator<Key = Vec<u8>, Error = raindb::RainDBError>> CursorChecker<I> {
    pub fn new(iter: I, visible: &Map) -> Self {
        CursorChecker {
            iter,
            entries: visible.iter().map(|(k, v)| (k.clone(), v.clone())).collect(),
            pos: None,
            last: Dir::None,
            trace: vec![],
            steps: 0,
            reversals: 0,
            tolerate_reported_errors: false,
            reported_errors: 0,
            fault_probe: None,
            last_key: None,
            resync_key: None,
        }
    }

    /// Runs `steps` cursor operations. Returns false after a violation.
    pub fn run(&mut self, out: &mut CaseOut, rng: &mut Rng, steps: usize, ctx: &serde_json::Value, prop: &str, recent: &[String]) -> bool {
        let entries = &self.entries;
        for step in 0..steps {
            watch::tick();
            self.steps += 1;
            // (in fault-tolerant mode the real iterator may have become invalid after an error)
            let valid = self.pos.is_some() && (!self.tolerate_reported_errors || self.iter.is_valid());
            let roll = rng.below(100);
            let mut seek_failed = false;
            let faults_before = self.fault_probe.as_ref().map(|f| f());
            let op: String;
            let mut returned: Option<Option<(Vec<u8>, Vec<u8>)>> = None;
            let mut dir_now = Dir::None;
            if !valid && !self.tolerate_reported_errors && rng.chance(0.25) {
                // "any sequence of calls": a step from a position that does not exist (a fresh
                // iterator, one that ran off either end, a seek past the last key, an empty
                // database) has nowhere to go - the answer is None and the iterator stays invalid
                let forward = rng.chance(0.5);
                let r = if forward { self.iter.next().map(|(k, v)| (k.clone(), v.clone())) } else { self.iter.prev().map(|(k, v)| (k.clone(), v.clone())) };
                returned = Some(r);
                self.pos = None;
                op = if forward { "next(on an invalid iterator)".into() } else { "prev(on an invalid iterator)".into() };
                out.add("steps_on_an_invalid_iterator", 1);
            } else if !valid || roll < 12 {
                match rng.below(8) {
                    0 => {
                        if let Err(e) = self.iter.seek_to_first() {
                            if self.tolerate_reported_errors {
                                seek_failed = true;
                            } else {
                                out.violate(format!("{prop}/seek-error"), json!({"ctx": ctx, "error": e.to_string()}));
                                return false;
                            }
                        }
                        self.pos = if entries.is_empty() { None } else { Some(0) };
                        op = "seek_to_first".into();
                    }
                    1 => {
                        if let Err(e) = self.iter.seek_to_last() {
                            if self.tolerate_reported_errors {
                                seek_failed = true;
                            } else {
                                out.violate(format!("{prop}/seek-error"), json!({"ctx": ctx, "error": e.to_string()}));
                                return false;
                            }
                        }
                        self.pos = entries.len().checked_sub(1);
                        op = "seek_to_last".into();
                    }
                    _ => {
                        // after a reported error: mostly seek straight back to where the iterator was
                        let back = if rng.chance(0.7) { self.resync_key.take() } else { None };
                        let target: Vec<u8> = match rng.below(10) {
                            _ if back.is_some() => back.unwrap(),
                            0 => vec![],
                            1 => vec![0xff; 9],
                            2..=5 if !entries.is_empty() => entries[rng.usize_below(entries.len())].0.clone(),
                            _ => {
                                if entries.is_empty() {
                                    rng.bytes(3)
                                } else {
                                    let base = entries[rng.usize_below(entries.len())].0.clone();
                                    match rng.below(3) {
                                        0 => {
                                            let mut t = base;
                                            t.push(0);
                                            t
                                        }
                                        1 if !base.is_empty() => base[..base.len() - 1].to_vec(),
                                        _ => {
                                            let mut t = base;
                                            if let Some(l) = t.last_mut() {
                                                *l = l.wrapping_sub(1);
                                            }
                                            t
                                        }
                                    }
                                }
                            }
                        };
                        if let Err(e) = self.iter.seek(&target) {
                            if self.tolerate_reported_errors {
                                seek_failed = true;
                            } else {
                                out.violate(format!("{prop}/seek-error"), json!({"ctx": ctx, "error": e.to_string()}));
                                return false;
                            }
                        }
                        self.pos = entries.iter().position(|(k, _)| k.as_slice() >= target.as_slice());
                        op = format!("seek({})", show(&target));
                    }
                }
            } else {
                let forward = match self.last {
                    Dir::Fwd => rng.chance(0.7),
                    Dir::Back => rng.chance(0.3),
                    Dir::None => rng.chance(0.5),
                };
                let p = self.pos.unwrap();
                if forward {
                    let r = self.iter.next().map(|(k, v)| (k.clone(), v.clone()));
                    returned = Some(r);
                    self.pos = if p + 1 < entries.len() { Some(p + 1) } else { None };
                    dir_now = Dir::Fwd;
                    op = "next".into();
                } else {
                    let r = self.iter.prev().map(|(k, v)| (k.clone(), v.clone()));
                    returned = Some(r);
                    self.pos = p.checked_sub(1);
                    dir_now = Dir::Back;
                    op = "prev".into();
                }
            }
            let reversal = (self.last == Dir::Fwd && dir_now == Dir::Back) || (self.last == Dir::Back && dir_now == Dir::Fwd);
            if reversal {
                self.reversals += 1;
            }
            let after = match (self.last, dir_now) {
                (_, Dir::None) => "seek".to_string(),
                (Dir::None, _) => format!("{}-after-seek", op),
                (Dir::Fwd, _) => format!("{}-after-next", op),
                (Dir::Back, _) => format!("{}-after-prev", op),
            };
            self.last = dir_now;
            if self.trace.len() >= 12 {
                self.trace.remove(0);
            }
            self.trace.push(op.clone());
            if self.tolerate_reported_errors && !seek_failed && returned.is_none() && dir_now == Dir::None {
                // a re-positioning call that returned Ok
                if let (Some(before), Some(probe)) = (faults_before, self.fault_probe.as_ref()) {
                    if probe() == before {
                        if let Some(e) = self.iter.status() {
                            out.violate(format!("{prop}/cursor/stale-error-after-a-reposition-that-met-no-fault"),
                                json!({"ctx": ctx, "op": op, "status": e.to_string(), "iterator_valid": self.iter.is_valid(), "trace": self.trace}));
                            return false;
                        }
                    }
                }
            }
            if self.tolerate_reported_errors && (seek_failed || self.iter.status().is_some()) {
                // the error was reported to the caller: nothing is promised about the position
                self.reported_errors += 1;
                self.resync_key = self.last_key.clone();
                if !self.iter.is_valid() || seek_failed {
                    self.pos = None;
                    self.last = Dir::None;
                }
                continue;
            }
            let expected = self.pos.map(|i| entries[i].clone());
            if let Some((k, _)) = &expected {
                self.last_key = Some(k.clone());
            }
            let got_valid = self.iter.is_valid();
            // `current` is documented to answer None on an invalid iterator: ask it in any case
            let got = self.iter.current().map(|(k, v)| (k.clone(), v.clone()));
            let got = if got_valid { got } else if got.is_some() { out.violate(format!("{prop}/cursor/current-returns-an-entry-on-an-invalid-iterator"), json!({"ctx": ctx, "op": op})); return false; } else { None };
            let mut problem: Option<&str> = None;
            match (&expected, &got) {
                (None, None) => {}
                (Some(_), None) => problem = Some("expected-valid-got-invalid"),
                (None, Some(_)) => problem = Some("expected-invalid-got-valid"),
                (Some(e), Some(g)) => {
                    if e.0 != g.0 {
                        problem = Some(if g.0 < e.0 { "wrong-key-too-small" } else { "wrong-key-too-large" });
                    } else if e.1 != g.1 {
                        problem = Some("wrong-value");
                    }
                }
            }
            if problem.is_none() {
                if let Some(r) = &returned {
                    if *r != expected {
                        problem = Some("return-value-differs-from-position");
                    }
                }
            }
            if let Some(problem) = problem {
                out.violate(
                    format!("{prop}/cursor/{after}/{problem}"),
                    json!({"ctx": ctx, "step": step, "op": op, "reversal": reversal, "last_ops": self.trace,
                        "expected": expected.as_ref().map(|(k, v)| format!("{} = {}", show(k), show(&v[..v.len().min(12)]))),
                        "got": got.as_ref().map(|(k, v)| format!("{} = {}", show(k), show(&v[..v.len().min(12)]))),
                        "visible_entries": entries.len(), "recent_writes": recent}),
                );
                return false;
            }
        }
        true
    }
}

/// Runs one cursor program on a fresh iterator against the frozen `visible` map.
pub fn run_program(
    out: &mut CaseOut,
    rng: &mut Rng,
    sess: &Session,
    snapshot: Option<&raindb::Snapshot>,
    visible: &Map,
    steps: usize,
    ctx: &serde_json::Value,
    prop: &str,
) -> ProgramStats {
    let iter = match sess.db().new_iterator(ReadOptions { fill_cache: rng.chance(0.5), snapshot: snapshot.cloned() }) {
        Ok(it) => it,
        Err(e) => {
            out.violate(format!("{prop}/new-iterator-error"), json!({"ctx": ctx, "error": e.to_string()}));
            return ProgramStats { steps: 0, reversals: 0 };
        }
    };
    let mut checker = CursorChecker::new(iter, visible);
    checker.run(out, rng, steps, ctx, prop, &sess.recent_ops(8));
    ProgramStats { steps: checker.steps, reversals: checker.reversals }
}

/// A snapshot after every single write, then everything is compacted into small files and every
/// snapshot is walked by its own cursor program. Whatever entry happens to be the last one of a
/// table file (or of a block), some iterator reads at exactly that entry's sequence number - the
/// lookup key then *equals* a file's or block's upper bound, the edge every "which file, which
/// block" search has. The other shapes reach it only when the newest write of the whole database
/// ends a file.
fn case_snapshot_per_write(out: &mut CaseOut, tier: &str, seed: u64, j: u64) {
    use crate::gen::{self, Config, KeyFamily};
    let mut rng = Rng::new(mix(&[seed, j], "c04-snapshot-per-write"));
    let d = director();
    d.reset(rng.next_u64());
    let cfg = Config { memtable: *rng.pick(&[2048usize, 65536]), file: *rng.pick(&[512u64, 1024, 2048]), block: *rng.pick(&[64usize, 256]), reuse: true };
    let fs = SimFs::from_image(&dbutil::root_image());
    let mut sess = Session::new(fs, cfg);
    if let Err(e) = sess.open() {
        out.violate("C04/open-failed", json!({"error": e}));
        return;
    }
    let family = KeyFamily::ALL[(j % 6) as usize];
    let pool_size = rng.range(6, 24) as usize;
    let pool = gen::key_pool(&mut rng, family, pool_size);
    let n = if tier == "quick" { rng.range(30, 70) } else { rng.range(40, 120) };
    let mut frozen: Vec<(raindb::Snapshot, Map)> = vec![];
    let mut failed = false;
    for i in 0..n {
        let k = rng.pick(&pool).clone();
        let len = rng.range(10, 160) as usize;
        let r = if rng.chance(0.2) { sess.delete(&k) } else { sess.put(&k, &gen::tagged_value(&mut rng, &format!("w{i}:"), len)) };
        if r.is_err() {
            failed = true;
            break;
        }
        frozen.push((sess.db().get_snapshot(), sess.model.clone()));
        if rng.chance(0.06) {
            sess.compact(None, None);
        }
    }
    if failed {
        out.inconclusive("degenerate: write refused while loading");
    } else {
        sess.compact(None, None);
        sess.wait_quiescent(std::time::Duration::from_secs(20));
        let levels = sess.shape();
        let multi_file_level = levels.iter().skip(1).any(|n| *n >= 2);
        let (_, sig) = shapes::children_and_signature(&sess);
        let mut steps = 0;
        let mut reversals = 0;
        let mut programs = 0u64;
        let stride = (frozen.len() / if tier == "quick" { 30 } else { 60 }).max(1);
        for (i, (snap, model)) in frozen.iter().enumerate() {
            if i % stride != 0 && i + 4 < frozen.len() {
                continue;
            }
            let ctx = json!({"family": "snapshot-after-every-write", "config": cfg.describe(), "keys": family.name(), "lsm": sig, "snapshot_after_write": i, "writes": frozen.len()});
            let program_steps = rng.range(60, 160) as usize;
            let st = run_program(out, &mut rng, &sess, Some(snap), model, program_steps, &ctx, "C04");
            steps += st.steps;
            reversals += st.reversals;
            programs += 1;
            if out.is_violated() {
                break;
            }
        }
        out.add("cursor_steps", steps);
        out.add("direction_reversals", reversals);
        out.add("programs", programs);
        out.add("snapshot_per_write_programs", programs);
        if multi_file_level {
            out.nontrivial(format!("snapshot-per-write/{}/{}", family.name(), sig));
        }
    }
    for (s, _) in frozen {
        sess.db().release_snapshot(s);
    }
    sess.close();
    super::c09::judge_bg_panics(out, "C04/aux");
    out.violations.retain(|v| !v.sig.starts_with("C04/aux"));
    out.sample = Some(json!({"family": "snapshot-after-every-write", "config": cfg.describe(), "keys": family.name()}));
}

pub fn run_case(tier: &str, seed: u64, idx: u64) -> CaseOut {
    let mut out = CaseOut::new();
    let shapes_n = if tier == "quick" { SHAPES_QUICK } else { SHAPES_THOROUGH };
    if idx >= shapes_n {
        case_snapshot_per_write(&mut out, tier, seed, idx - shapes_n);
        return out;
    }
    let mut rng = Rng::new(mix(&[seed, idx], "c04"));
    let d = director();
    d.reset(rng.next_u64());
    let spec = ShapeSpec::generate(&mut rng, idx);
    let fs = SimFs::from_image(&dbutil::root_image());
    let mut sess = Session::new(fs, spec.cfg);
    if let Err(e) = sess.open() {
        out.violate("C04/open-failed", json!({"error": e}));
        return out;
    }
    let built = shapes::build(&mut rng, &mut sess, &spec);
    if let Some(e) = &built.failed {
        out.inconclusive(format!("degenerate: write refused while building the shape: {e}"));
    } else {
        let programs = if tier == "quick" { 5 } else { 12 };
        let mut total_steps = 0;
        let mut total_reversals = 0;
        for p in 0..programs {
            let (children, sig) = shapes::children_and_signature(&sess);
            let use_frozen = !built.frozen.is_empty() && rng.chance(0.4);
            let steps = if tier == "quick" { rng.range(200, 500) } else { rng.range(200, 2000) } as usize;
            let ctx = json!({"shape": spec.describe(), "lsm": sig, "program": p, "at_snapshot": use_frozen});
            let stats = if use_frozen {
                let f = &built.frozen[rng.usize_below(built.frozen.len())];
                run_program(&mut out, &mut rng, &sess, Some(&f.snapshot), &f.model, steps, &ctx, "C04")
            } else {
                let model = sess.model.clone();
                run_program(&mut out, &mut rng, &sess, None, &model, steps, &ctx, "C04")
            };
            total_steps += stats.steps;
            total_reversals += stats.reversals;
            if stats.reversals >= 5 && children >= 3 {
                out.nontrivial(format!("{}/style{}/{}/snap{}", spec.family.name(), spec.style, sig, use_frozen as u8));
            }
            if out.is_violated() {
                break;
            }
            // keep the shape moving between programs
            if p % 2 == 1 && rng.chance(0.5) {
                sess.compact(None, None);
            }
        }
        out.add("cursor_steps", total_steps);
        out.add("direction_reversals", total_reversals);
        out.add("programs", programs);
    }
    for f in built.frozen {
        sess.db().release_snapshot(f.snapshot);
    }
    sess.close();
    super::c09::judge_bg_panics(&mut out, "C04/aux");
    // background panics are C09's business; keep them out of this property's verdict
    out.violations.retain(|v| !v.sig.starts_with("C04/aux"));
    out.sample = Some(json!({"family": "cursor-programs", "shape": spec.describe(), "universe": built.universe.len()}));
    out
}
