//! C11 — exactly the needed files are on disk: nothing live deleted, nothing dead kept.

use std::collections::BTreeSet;
use std::path::{Path, PathBuf};
use std::sync::Arc;
use std::time::{Duration, Instant};

use raindb::db::DatabaseDescriptor;
use raindb::{RainDbIterator, ReadOptions};
use serde_json::json;

use crate::director::{director, Delay};
use crate::gen::{self, Config};
use crate::props::c03::verify_view;
use crate::props::c07::gap_load;
use crate::report::{show, CaseOut};
use crate::rng::{mix, Rng};
use crate::session::Session;
use crate::shapes::{self, ShapeSpec};
use crate::simfs::{classify, file_number, PathClass, SimFs};
use crate::{dbutil, watch};

pub fn plan(tier: &str) -> u64 {
    match tier {
        "quick" => 1 + 12 + 40 + n_parked(tier) + n_open_race(tier) + n_outlive(tier) + n_churn(tier),
        _ => 2 + 100 + 500 + n_parked(tier) + n_open_race(tier) + n_outlive(tier) + n_churn(tier),
    }
}

fn n_shapes(tier: &str) -> u64 {
    if tier == "quick" { 40 } else { 500 }
}
fn n_parked(tier: &str) -> u64 {
    if tier == "quick" { 24 } else { 240 }
}
fn n_outlive(tier: &str) -> u64 {
    if tier == "quick" { 8 } else { 64 }
}
fn n_churn(tier: &str) -> u64 {
    if tier == "quick" { 28 } else { 280 }
}
fn n_open_race(tier: &str) -> u64 {
    if tier == "quick" { 12 } else { 96 }
}

fn n_gap(tier: &str) -> u64 {
    if tier == "quick" { 1 } else { 2 }
}
fn n_orphan(tier: &str) -> u64 {
    if tier == "quick" { 12 } else { 100 }
}

/// Anything the filesystem accountant saw that means a file still in use was removed.
pub fn judge_anomalies(out: &mut CaseOut, fs: &SimFs, ctx: &serde_json::Value, prop: &str) {
    for a in fs.anomalies() {
        let class = classify(Path::new(&a.path));
        out.violate(
            format!("{prop}/live-file-deleted/{}/{}", a.what, class.name()),
            json!({"ctx": ctx, "path": a.path, "fs_op_index": a.op_index}),
        );
    }
}

/// Force one more flush + garbage-collection cycle (files that died when the last iterator was
/// released are only reclaimed by the next cycle).
pub fn one_more_cycle(out: &mut CaseOut, sess: &mut Session) -> bool {
    let d = director();
    let rot0 = d.note_count("mem.rotate");
    let drop0 = d.note_count("imm.drop");
    let mut written = 0usize;
    let mut i = 0u64;
    let limit = sess.cfg.memtable * 4 + 128 * 1024;
    while d.note_count("mem.rotate") == rot0 && written < limit {
        i += 1;
        let k = format!("~cycle{:06}", i).into_bytes();
        let v = vec![b'c'; 120];
        written += k.len() + v.len() + 32;
        if sess.put(&k, &v).is_err() {
            out.inconclusive("degenerate: write refused during the extra flush cycle");
            return false;
        }
    }
    let deadline = Instant::now() + Duration::from_secs(25);
    while d.note_count("imm.drop") == drop0 {
        if Instant::now() > deadline {
            out.inconclusive("the extra flush did not finish (see C09)");
            return false;
        }
        std::thread::sleep(Duration::from_millis(1));
        watch::tick();
    }
    sess.wait_quiescent(Duration::from_secs(30))
}

/// The directory must contain exactly CURRENT, LOCK, the manifest CURRENT names, one WAL and the
/// table files of the current version.
pub fn dir_check(out: &mut CaseOut, sess: &mut Session, when: &str, ctx: &serde_json::Value, prop: &str) {
    if !one_more_cycle(out, sess) {
        out.add("dir_checks_skipped", 1);
        return;
    }
    dir_check_now(out, sess, when, ctx, prop)
}

/// The same judgement without the extra cycle: for moments at which nothing can be waiting for
/// "the next collection" - a database that has just been opened (its open ends with a collection,
/// and no iterator or snapshot has existed yet) and has gone quiet.
pub fn dir_check_now(out: &mut CaseOut, sess: &mut Session, when: &str, ctx: &serde_json::Value, prop: &str) {
    if !sess.wait_quiescent(Duration::from_secs(30)) {
        out.add("dir_checks_skipped", 1);
        return;
    }
    let probe = sess.db().verif_probe();
    if probe.bad_state.is_some() {
        out.inconclusive("degenerate: database is in its sticky error state");
        return;
    }
    let files = sess.db().verif_files();
    let image = sess.fs.image();
    if sess.db().verif_files() != files || !sess.wait_quiescent(Duration::from_millis(20)) {
        out.add("dir_checks_skipped", 1);
        return;
    }
    out.add("dir_checks", 1);
    let root = PathBuf::from(&sess.path);
    let version_tables: BTreeSet<u64> = files.iter().map(|f| f.number).collect();
    // cross-check the accessor against the public descriptor
    if let Ok(text) = sess.descriptor(DatabaseDescriptor::SSTables) {
        let described: BTreeSet<u64> = text
            .lines()
            .filter_map(|l| l.split(' ').next().and_then(|n| n.parse::<u64>().ok()))
            .collect();
        if described != version_tables {
            out.violate(format!("{prop}/descriptor-and-accessor-disagree"), json!({"ctx": ctx, "described": described, "accessor": version_tables}));
        }
    }
    let current = image.files.get(&root.join("CURRENT")).map(|d| String::from_utf8_lossy(d).trim().to_string());
    let mut on_disk_tables = BTreeSet::new();
    let mut wals = vec![];
    let mut manifests = vec![];
    let mut others = vec![];
    for path in image.files.keys() {
        if !path.starts_with(&root) {
            continue;
        }
        match classify(path) {
            PathClass::Table => {
                on_disk_tables.insert(file_number(path).unwrap_or(u64::MAX));
            }
            PathClass::Wal => wals.push(file_number(path).unwrap_or(u64::MAX)),
            PathClass::Manifest => manifests.push(path.file_name().unwrap().to_string_lossy().to_string()),
            PathClass::Current | PathClass::Lock => {}
            _ => others.push(path.display().to_string()),
        }
    }
    let detail = |what: &str, list: serde_json::Value| {
        json!({"ctx": ctx, "when": when, what: list, "version_tables": version_tables, "tables_on_disk": on_disk_tables,
            "wals_on_disk": wals, "manifests_on_disk": manifests, "current": current,
            "probe": {"versions_in_list": probe.num_versions, "live_files": probe.live_files, "tables_in_use": probe.tables_in_use,
                "curr_wal": probe.curr_wal_number, "prev_wal": probe.prev_wal_number, "manifest": probe.manifest_file_number, "snapshots": probe.num_snapshots}})
    };
    let dead: Vec<u64> = on_disk_tables.difference(&version_tables).copied().collect();
    if !dead.is_empty() {
        out.violate(format!("{prop}/dead-file-kept/table/{when}"), detail("obsolete_tables_still_on_disk", json!(dead)));
    }
    let missing: Vec<u64> = version_tables.difference(&on_disk_tables).copied().collect();
    if !missing.is_empty() {
        out.violate(format!("{prop}/live-file-missing/table/{when}"), detail("tables_of_current_version_missing", json!(missing)));
    }
    // exactly one write-ahead log, and not one older than the number the manifest names. (Not
    // "equal": an open that takes the old manifest over and finds no log to replay creates a fresh
    // log without writing a manifest record, so the manifest's number lags behind until the next
    // flush - recovery replays every log from that number on, the fresh one included.)
    if wals.len() != 1 || wals[0] < probe.curr_wal_number {
        let sig = if wals.len() > 1 { "dead-file-kept/wal" } else { "live-file-missing/wal" };
        out.violate(format!("{prop}/{sig}/{when}"), detail("wals", json!(wals)));
    }
    let expected_manifest = format!("MANIFEST-{}.manifest", probe.manifest_file_number);
    match &current {
        None => out.violate(format!("{prop}/live-file-missing/current/{when}"), detail("current", json!(null))),
        Some(name) => {
            if *name != expected_manifest {
                out.violate(format!("{prop}/current-names-other-manifest/{when}"), detail("expected_manifest", json!(expected_manifest)));
            }
            if !manifests.contains(name) {
                out.violate(format!("{prop}/live-file-missing/manifest/{when}"), detail("current_names", json!(name)));
            }
        }
    }
    if manifests.len() > 1 {
        out.violate(format!("{prop}/dead-file-kept/manifest/{when}"), detail("manifests", json!(manifests)));
    }
    if !others.is_empty() {
        out.violate(format!("{prop}/dead-file-kept/temp-or-unknown/{when}"), detail("unexpected_files", json!(others)));
    }
}

fn case_shape(out: &mut CaseOut, tier: &str, seed: u64, idx: u64) {
    let mut rng = Rng::new(mix(&[seed, idx], "c11"));
    let d = director();
    d.reset(rng.next_u64());
    // slow table compactions so that flushes and their garbage collection run *inside* the
    // compaction loop, where unfinished outputs are protected only by the in-use set
    let load_delay = *rng.pick(&[0u64, 200, 600]);
    if load_delay > 0 {
        d.set_delay("compact.step", Delay { probability: 1.0, min_us: load_delay, max_us: load_delay * 2 });
    }
    if rng.chance(0.3) {
        d.set_delay("gc.delete_one", Delay { probability: 1.0, min_us: 100, max_us: 1000 });
    }
    let mut spec = ShapeSpec::generate(&mut rng, idx);
    spec.writes = if tier == "quick" { rng.range(200, 800) } else { rng.range(200, 2000) } as usize;
    spec.snapshots = rng.range(0, 3) as usize;
    let fs = SimFs::from_image(&dbutil::root_image());
    fs.set_strict_unlink(true);
    let mut sess = Session::new(fs.clone(), spec.cfg);
    sess.fill_cache = false;
    if let Err(e) = sess.open() {
        out.violate("C11/open-failed", json!({"error": e}));
        return;
    }
    let ctx = json!({"shape": spec.describe(), "load_delay_us": load_delay});
    let built = shapes::build(&mut rng, &mut sess, &spec);
    let mut pinned_gc = false;
    if let Some(e) = &built.failed {
        out.inconclusive(format!("degenerate: write refused while building the shape: {e}"));
    } else {
        // pin versions with iterators, churn, compact: GC must honour the pins
        let gc0 = d.note_count("gc.plan");
        let removed0: u64 = fs.removed_counts().values().sum();
        let mut iters = vec![];
        for _ in 0..rng.range(0, 3) {
            if let Ok(mut it) = sess.db().new_iterator(ReadOptions { fill_cache: false, snapshot: None }) {
                let _ = it.seek_to_first();
                iters.push((it, sess.model.clone()));
            }
        }
        let n_iters = iters.len();
        let mut counter = 0u64;
        for round in 0..2 {
            for k in built.pool.iter() {
                counter += 1;
                let r = if round == 1 && rng.chance(0.3) { sess.delete(k) } else { sess.put(k, format!("c{counter}").as_bytes()) };
                if r.is_err() {
                    break;
                }
            }
            sess.compact(None, None);
        }
        d.clear_delays();
        sess.wait_quiescent(Duration::from_secs(20));
        let removed1: u64 = fs.removed_counts().values().sum();
        pinned_gc = d.note_count("gc.plan") > gc0 && removed1 > removed0 && (n_iters > 0 || !built.frozen.is_empty());
        // pinned readers must still see their state (reads go to files GC must have kept)
        for (mut it, frozen) in iters {
            let mut got = vec![];
            let _ = it.seek_to_first();
            while it.is_valid() {
                let (k, v) = it.current().unwrap();
                got.push((k.clone(), v.clone()));
                it.next();
                watch::tick();
            }
            let expected: Vec<_> = frozen.iter().map(|(k, v)| (k.clone(), v.clone())).collect();
            if got != expected {
                out.violate("C11/pinned-iterator-lost-data-after-gc", json!({"ctx": ctx, "expected": expected.len(), "got": got.len()}));
            }
            drop(it);
        }
        let mut universe = built.universe.clone();
        universe.extend(built.pool.iter().cloned());
        for f in &built.frozen {
            verify_view(out, &sess, Some(&f.snapshot), &f.model, &universe, "pinned-snapshot-after-gc", &ctx, "C11");
        }
        verify_view(out, &sess, None, &sess.model.clone(), &universe, "latest-after-gc", &ctx, "C11");
        judge_anomalies(out, &fs, &ctx, "C11");
    }
    let n_frozen = built.frozen.len();
    for f in built.frozen {
        sess.db().release_snapshot(f.snapshot);
    }
    if built.failed.is_none() && !out.is_violated() {
        dir_check(out, &mut sess, "after-release", &ctx, "C11");
        judge_anomalies(out, &fs, &ctx, "C11");
    }
    let trivial = d.notes_from(0).iter().filter(|(n, a)| *n == "compaction.pick" && a.len() >= 5 && a[4] == 1).count();
    out.add("trivial_moves", trivial as u64);
    out.add("gc_plans", d.note_count("gc.plan"));
    out.add("files_removed", fs.removed_counts().values().sum());
    if pinned_gc {
        let removed: u64 = fs.removed_counts().values().sum();
        out.nontrivial(format!(
            "shape/{}/style{}/pins-snap{}-gcdelay{}/removed{}",
            spec.family.name(), spec.style, n_frozen.min(3), load_delay,
            match removed { 0..=9 => "<10", 10..=49 => "<50", _ => "50+" }
        ));
    }
    sess.close();
    out.sample = Some(json!({"family": "shape", "shape": spec.describe(), "trivial_moves": trivial, "gc_plans": d.note_count("gc.plan"),
        "files_removed": fs.removed_counts().values().sum::<u64>(), "pinned_gc_observed": pinned_gc}));
}

/// Reopen images that contain leftovers of an earlier crash: orphan tables, temp files, superseded
/// manifests and stale WALs must be reclaimed, everything needed must survive.
fn case_orphans(out: &mut CaseOut, seed: u64, idx: u64) {
    let mut rng = Rng::new(mix(&[seed, idx], "c11-orphans"));
    let d = director();
    d.reset(rng.next_u64());
    let cfg = gen::tiny_config(&mut rng);
    let fs = SimFs::from_image(&dbutil::root_image());
    let mut sess = Session::new(fs, cfg);
    if let Err(e) = sess.open() {
        out.violate("C11/open-failed", json!({"error": e}));
        return;
    }
    let pool = gen::key_pool(&mut rng, gen::KeyFamily::Ascii, 80);
    for i in 0..rng.range(100, 600) {
        let k = rng.pick(&pool).clone();
        if sess.put(&k, format!("v{i}").as_bytes()).is_err() {
            out.inconclusive("degenerate: load refused");
            return;
        }
    }
    sess.wait_quiescent(Duration::from_secs(10));
    let probe = sess.db().verif_probe();
    let some_table = sess.db().verif_files().first().map(|f| f.number);
    sess.close();
    let mut image = sess.fs.image();
    let root = PathBuf::from(dbutil::DB_PATH);
    let mut planted = vec![];
    let high = probe.live_files.iter().copied().max().unwrap_or(10).max(probe.curr_wal_number).max(probe.manifest_file_number) + 50;
    // orphan tables: garbage, empty, and a copy of a real table under an unused number
    if rng.chance(0.8) {
        let p = root.join("data").join(format!("{}.rdb", high + 1));
        image.files.insert(p.clone(), Arc::new(rng.bytes(300)));
        planted.push(p);
    }
    if rng.chance(0.5) {
        let p = root.join("data").join(format!("{}.rdb", high + 2));
        image.files.insert(p.clone(), Arc::new(vec![]));
        planted.push(p);
    }
    if let Some(n) = some_table {
        if rng.chance(0.6) {
            let src = root.join("data").join(format!("{n}.rdb"));
            if let Some(data) = image.files.get(&src).cloned() {
                let p = root.join("data").join(format!("{}.rdb", high + 3));
                image.files.insert(p.clone(), data);
                planted.push(p);
            }
        }
    }
    // half-written temp file of a CURRENT switch
    if rng.chance(0.8) {
        let p = root.join(format!("{}.dbtemp", high + 4));
        image.files.insert(p.clone(), Arc::new(b"MANIFEST-".to_vec()));
        planted.push(p);
    }
    // superseded manifest (lower number than the current one), possibly garbage
    if probe.manifest_file_number > 1 && rng.chance(0.8) {
        let p = root.join(format!("MANIFEST-{}.manifest", probe.manifest_file_number - 1));
        if !image.files.contains_key(&p) {
            image.files.insert(p.clone(), Arc::new(rng.bytes(64)));
            planted.push(p);
        }
    }
    // manifest of an open that crashed after writing its new manifest and before switching
    // CURRENT to it: a number above the current manifest's (the next open may reuse the old one)
    if rng.chance(0.6) {
        let current = root.join(format!("MANIFEST-{}.manifest", probe.manifest_file_number));
        let data = if rng.chance(0.5) { image.files.get(&current).cloned().unwrap_or_else(|| Arc::new(vec![])) } else { Arc::new(rng.bytes(90)) };
        let p = root.join(format!("MANIFEST-{}.manifest", high + 5));
        image.files.insert(p.clone(), data);
        planted.push(p);
    }
    // stale WAL (lower number than the live one)
    if probe.curr_wal_number > 1 && rng.chance(0.8) {
        let p = root.join("wal").join(format!("wal-{}.log", probe.curr_wal_number - 1));
        if !image.files.contains_key(&p) {
            image.files.insert(p.clone(), Arc::new(vec![]));
            planted.push(p);
        }
    }
    let model = sess.model.clone();
    let fs2 = SimFs::from_image(&image);
    fs2.set_strict_unlink(true);
    let cfg2 = Config { reuse: rng.chance(0.5), ..cfg };
    let mut sess2 = Session::new(fs2.clone(), cfg2);
    sess2.model = model;
    let ctx = json!({"config": cfg2.describe(), "planted": planted.iter().map(|p| p.display().to_string()).collect::<Vec<_>>()});
    if let Err(e) = sess2.open() {
        out.violate("C11/open-failed-with-crash-leftovers", json!({"ctx": ctx, "error": e}));
        return;
    }
    let universe: BTreeSet<Vec<u8>> = pool.iter().cloned().collect();
    // before any iterator exists: nothing may be waiting for a later collection
    dir_check_now(out, &mut sess2, "right-after-reopen-with-leftovers", &ctx, "C11");
    verify_view(out, &sess2, None, &sess2.model.clone(), &universe, "after-reopen-with-leftovers", &ctx, "C11");
    dir_check(out, &mut sess2, "after-reopen-with-leftovers", &ctx, "C11");
    judge_anomalies(out, &fs2, &ctx, "C11");
    if planted.len() >= 2 {
        let kinds: BTreeSet<&str> = planted.iter().map(|p| classify(p).name()).collect();
        out.nontrivial(format!("orphans/{}/reuse{}", kinds.into_iter().collect::<Vec<_>>().join("+"), cfg2.reuse as u8));
    }
    sess2.close();
    out.add("orphan_files_planted", planted.len() as u64);
    out.sample = Some(json!({"family": "crash-leftovers", "ctx": ctx}));
}

/// Trivial moves at level >= 1, then everything is overwritten and compacted twice: all the moved
/// files are dead and must be gone.
fn case_gap(out: &mut CaseOut, seed: u64, idx: u64) {
    let mut rng = Rng::new(mix(&[seed, idx], "c11-gap"));
    let d = director();
    d.reset(rng.next_u64());
    watch::set_call_limit(Duration::from_secs(240));
    let cfg = Config { memtable: 256 * 1024, file: 2 * 1024 * 1024, block: 4096, reuse: true };
    let fs = SimFs::from_image(&dbutil::root_image());
    let mut sess = Session::new(fs.clone(), cfg);
    if let Err(e) = sess.open() {
        out.violate("C11/open-failed", json!({"error": e}));
        return;
    }
    let ctx = json!({"workload": "gap, then overwrite everything and compact twice", "config": cfg.describe()});
    if let Some(keys) = gap_load(out, &mut rng, &mut sess, 12) {
        sess.wait_quiescent(Duration::from_secs(60));
        let trivial = d.notes_from(0).iter().filter(|(n, a)| *n == "compaction.pick" && a.len() >= 5 && a[4] == 1).count();
        for round in 0..2 {
            for (i, k) in keys.iter().enumerate() {
                watch::tick();
                if sess.put(k, format!("o{round}.{i}").as_bytes()).is_err() {
                    break;
                }
            }
            sess.compact(None, None);
        }
        dir_check(out, &mut sess, "after-trivial-moves-and-full-rewrite", &ctx, "C11");
        judge_anomalies(out, &fs, &ctx, "C11");
        out.add("trivial_moves", trivial as u64);
        if trivial > 0 {
            out.nontrivial(format!("gap/trivial{}/{}", trivial.min(9), idx));
            out.nontrivial("gap/dir-check-after-trivial-moves".to_string());
        }
        out.sample = Some(json!({"family": "gap", "ctx": ctx, "trivial_moves": trivial, "files_removed": fs.removed_counts().values().sum::<u64>()}));
    }
    sess.close();
    watch::set_call_limit(Duration::from_secs(60));
    let _ = show;
}


/// An iterator outlives the database handle it came from (the handle is dropped first), and the
/// directory is opened again. Either that open is refused while the iterator lives, or whatever
/// the new instance does (rewrite everything, compact, collect garbage) leaves the iterator's
/// tables alone: the iterator must deliver exactly its frozen view without an error.
/// Generated single-client histories with many clean reopens (options and log-reuse setting redrawn
/// each time): the directory is judged right after every reopen has gone quiet - an open ends with a
/// collection, nothing can be waiting for a later one - and, with the extra cycle, at the end.
struct DirectoryObserver {
    ctx: serde_json::Value,
    checks: u64,
}

impl crate::history::Observer for DirectoryObserver {
    fn checkpoint(&mut self, sess: &mut Session, out: &mut CaseOut, _universe: &BTreeSet<Vec<u8>>, reason: &str) {
        match reason {
            "after-reopen" => {
                dir_check_now(out, sess, "right-after-a-clean-reopen", &self.ctx, "C11");
                self.checks += 1;
            }
            "final" => {
                dir_check(out, sess, "at-the-end-of-a-history", &self.ctx, "C11");
                self.checks += 1;
            }
            _ => {}
        }
    }
}

fn case_history_with_directory_checks(out: &mut CaseOut, tier: &str, seed: u64, idx: u64) {
    let mut rng = Rng::new(mix(&[seed, idx], "c11-history"));
    let n_ops = if tier == "quick" { 250 } else { rng.range(250, 900) as usize };
    let mut params = crate::history::HistoryParams::generate(&mut rng, idx, n_ops);
    params.reopen_weight = 8;
    params.tiny_configs_on_reopen = true;
    let mut observer = DirectoryObserver { ctx: json!({"family": "history-with-directory-checks", "params": params.describe()}), checks: 0 };
    let outcome = crate::history::run(out, &mut rng, &params, &mut observer);
    out.add("directory_checks_in_histories", observer.checks);
    if observer.checks >= 2 {
        out.nontrivial(format!("history-dirs/{}/reopens{}", params.cfg.class(), outcome.reopen_pattern.len().min(20)));
    }
    out.sample = Some(json!({"family": "history-with-directory-checks", "reopen_pattern": outcome.reopen_pattern, "directory_checks": observer.checks}));
}

/// The same situation on the file system raindb ships for tests and examples, `InMemoryFileSystem`
/// (every other case of the family): an iterator outlives its `DB`; whatever a later instance on
/// the same path does, the iterator must deliver its view.
fn case_iterator_outlives_db_in_memory(out: &mut CaseOut, seed: u64, idx: u64) {
    use raindb::fs::{FileSystem, InMemoryFileSystem};
    use raindb::{WriteOptions, DB};
    let mut rng = Rng::new(mix(&[seed, idx], "c11-outlive-mem"));
    director().reset(rng.next_u64());
    let cfg = Config { memtable: 1024, file: *rng.pick(&[1024u64, 4096]), block: 256, reuse: rng.chance(0.5) };
    let fs: Arc<dyn FileSystem> = Arc::new(InMemoryFileSystem::new());
    let opts = || dbutil::options(Arc::clone(&fs), "db", &cfg);
    let ctx = json!({"family": "iterator-outlives-its-database", "filesystem": "InMemoryFileSystem", "config": cfg.describe()});
    let pool = gen::key_pool(&mut rng, gen::KeyFamily::Ascii, 60);
    let mut model: crate::session::Map = Default::default();
    let mut counter = 0u64;
    {
        let db = match DB::open(opts()) {
            Ok(db) => db,
            Err(e) => {
                out.violate("C11/open-failed", json!({"ctx": ctx, "error": e.to_string()}));
                return;
            }
        };
        for round in 0..3 {
            for k in &pool {
                counter += 1;
                let v = gen::tagged_value(&mut rng, &format!("v{round}.{counter}:"), 40);
                if db.put(WriteOptions::default(), k.clone(), v.clone()).is_ok() {
                    model.insert(k.clone(), v);
                }
            }
            let _g = watch::enter("compact_range");
            db.compact_range(None..None);
        }
    }
    // a cold instance, an iterator, the instance goes away
    let db = match DB::open(opts()) {
        Ok(db) => db,
        Err(e) => {
            out.violate("C11/open-failed", json!({"ctx": ctx, "error": e.to_string(), "when": "clean reopen"}));
            return;
        }
    };
    let frozen: Vec<(Vec<u8>, Vec<u8>)> = model.iter().map(|(k, v)| (k.clone(), v.clone())).collect();
    let mut it = match db.new_iterator(ReadOptions { fill_cache: false, snapshot: None }) {
        Ok(it) => it,
        Err(e) => {
            out.violate("C11/new-iterator-error", json!({"ctx": ctx, "error": e.to_string()}));
            return;
        }
    };
    let _ = it.seek_to_first();
    drop(db);
    // another instance on the same path
    // (a refused attempt must not loosen the lock for the next one: up to three attempts)
    let mut second = { let _g = watch::enter("open(second)"); DB::open(opts()) };
    for _ in 0..2 {
        if second.is_ok() {
            break;
        }
        second = { let _g = watch::enter("open(second)"); DB::open(opts()) };
    }
    let refused = second.is_err();
    if let Ok(db2) = &second {
        for round in 0..2 {
            for k in &pool {
                counter += 1;
                let _ = db2.put(WriteOptions::default(), k.clone(), gen::tagged_value(&mut rng, &format!("n{round}.{counter}:"), 40));
            }
            let _g = watch::enter("compact_range");
            db2.compact_range(None..None);
        }
    }
    let mut got: Vec<(Vec<u8>, Vec<u8>)> = vec![];
    let mut seek_error = None;
    if let Err(e) = it.seek_to_first() {
        seek_error = Some(e.to_string());
    }
    while seek_error.is_none() && it.is_valid() && got.len() <= frozen.len() + 1 {
        let (k, v) = it.current().unwrap();
        got.push((k.clone(), v.clone()));
        it.next();
    }
    let status = it.status().map(|e| e.to_string());
    drop(it);
    if seek_error.is_some() || status.is_some() || got != frozen {
        out.violate(
            "C11/live-file-deleted/iterator-of-the-previous-instance-lost-its-tables/in-memory-file-system",
            json!({"ctx": ctx, "second_open_refused": refused, "seek_error": seek_error, "status": status, "entries_delivered": got.len(), "entries_expected": frozen.len()}),
        );
    }
    drop(second);
    out.nontrivial(format!("iterator-outlives-db/in-memory/second-open-{}", if refused { "refused" } else { "succeeded" }));
    out.sample = Some(ctx);
}

fn case_iterator_outlives_db(out: &mut CaseOut, seed: u64, idx: u64) {
    if idx % 2 == 1 {
        return case_iterator_outlives_db_in_memory(out, seed, idx);
    }
    let mut rng = Rng::new(mix(&[seed, idx], "c11-outlive"));
    let d = director();
    d.reset(rng.next_u64());
    let cfg = Config { memtable: 1024, file: *rng.pick(&[1024u64, 4096]), block: 256, reuse: rng.chance(0.5) };
    let fs = SimFs::from_image(&dbutil::root_image());
    fs.set_strict_unlink(true);
    let mut sess = Session::new(fs.clone(), cfg);
    if let Err(e) = sess.open() {
        out.violate("C11/open-failed", json!({"error": e}));
        return;
    }
    let pool = gen::key_pool(&mut rng, gen::KeyFamily::Ascii, 60);
    let mut counter = 0u64;
    for k in &pool {
        counter += 1;
        let _ = sess.put(k, &gen::tagged_value(&mut rng, &format!("v{counter}:"), 40));
    }
    sess.compact(None, None);
    sess.wait_quiescent(Duration::from_secs(10));
    let frozen: Vec<(Vec<u8>, Vec<u8>)> = sess.model.iter().map(|(k, v)| (k.clone(), v.clone())).collect();
    let mut it = match sess.db().new_iterator(ReadOptions { fill_cache: false, snapshot: None }) {
        Ok(it) => it,
        Err(e) => {
            out.violate("C11/new-iterator-error", json!({"error": e.to_string()}));
            return;
        }
    };
    let model = sess.model.clone();
    sess.close();
    let ctx = json!({"family": "iterator-outlives-its-database", "config": cfg.describe(), "entries": frozen.len()});
    let mut sess2 = Session::new(fs.clone(), cfg);
    sess2.model = model;
    let second_open = sess2.open();
    let refused = second_open.is_err();
    if !refused {
        for round in 0..2 {
            for k in &pool {
                counter += 1;
                let _ = sess2.put(k, &gen::tagged_value(&mut rng, &format!("n{round}.{counter}:"), 40));
            }
            sess2.compact(None, None);
        }
        sess2.wait_quiescent(Duration::from_secs(10));
        let _ = one_more_cycle(out, &mut sess2);
    }
    // the old iterator reads its view
    let mut got: Vec<(Vec<u8>, Vec<u8>)> = vec![];
    let mut seek_error = None;
    if let Err(e) = it.seek_to_first() {
        seek_error = Some(e.to_string());
    }
    while seek_error.is_none() && it.is_valid() && got.len() <= frozen.len() + 1 {
        let (k, v) = it.current().unwrap();
        got.push((k.clone(), v.clone()));
        it.next();
    }
    let status = it.status().map(|e| e.to_string());
    drop(it);
    if seek_error.is_some() || status.is_some() || got != frozen {
        out.violate(
            "C11/live-file-deleted/iterator-of-the-previous-instance-lost-its-tables",
            json!({"ctx": ctx, "second_open_refused": refused, "seek_error": seek_error, "status": status, "entries_delivered": got.len(), "entries_expected": frozen.len(),
                "fs_anomalies": fs.anomalies().iter().take(4).map(|a| format!("{} {}", a.what, a.path)).collect::<Vec<_>>()}),
        );
    }
    if refused {
        // with the iterator gone the directory must open
        if let Err(e) = sess2.open() {
            out.violate("C11/open-failed-after-the-last-iterator-was-dropped", json!({"ctx": ctx, "error": e}));
            return;
        }
    }
    dir_check(out, &mut sess2, "after-an-iterator-outlived-its-database", &ctx, "C11");
    sess2.close();
    out.nontrivial(format!("iterator-outlives-db/second-open-{}", if refused { "refused" } else { "succeeded" }));
    out.sample = Some(json!({"family": "iterator-outlives-its-database", "ctx": ctx, "second_open_refused_while_iterator_alive": refused}));
}

/// The garbage collection that ends `DB::open` is held right after it has listed what to delete,
/// in a database that needs a compaction at once (four level-0 tables after recovery) and whose
/// directory holds orphan tables with exactly the file numbers the new instance hands out next.
/// Whatever the background thread does in that window, no file of the installed version may be
/// missing afterwards and the next open must succeed.
fn case_open_gc_race(out: &mut CaseOut, seed: u64, idx: u64) {
    let mut rng = Rng::new(mix(&[seed, idx], "c11-open-race"));
    let d = director();
    d.reset(rng.next_u64());
    let cfg = Config { memtable: 64 * 1024, file: 4096, block: 256, reuse: false };
    let fs = SimFs::from_image(&dbutil::root_image());
    let mut sess = Session::new(fs.clone(), cfg);
    if let Err(e) = sess.open() {
        out.violate("C11/open-failed", json!({"error": e}));
        return;
    }
    let pool = gen::key_pool(&mut rng, gen::KeyFamily::Ascii, 40);
    let mut counter = 0u64;
    // three sessions: each leaves its write-ahead log to be turned into a level-0 table by the
    // next open; the fourth batch of writes stays in the log, so the final open ends with four
    // overlapping level-0 tables
    for _ in 0..4 {
        for k in &pool {
            counter += 1;
            if sess.put(k, &gen::tagged_value(&mut rng, &format!("v{counter}:"), 40)).is_err() {
                out.inconclusive("degenerate: load refused");
                return;
            }
        }
        sess.close();
        if counter < 160 {
            if let Err(e) = sess.open() {
                out.violate("C11/open-failed/clean-reopen", json!({"error": e}));
                return;
            }
        }
    }
    let mut image = sess.fs.image();
    let root = PathBuf::from(dbutil::DB_PATH);
    let max_number = image.files.keys().filter_map(|p| file_number(p)).max().unwrap_or(10);
    let mut planted = vec![];
    for n in 1..=10u64 {
        let p = root.join("data").join(format!("{}.rdb", max_number + n));
        image.files.insert(p.clone(), Arc::new(rng.bytes(rng.clone().range(0, 200) as usize)));
        planted.push(p.display().to_string());
    }
    let model = sess.model.clone();
    let fs2 = SimFs::from_image(&image);
    fs2.set_strict_unlink(true);
    let mut sess2 = Session::new(fs2.clone(), Config { reuse: rng.chance(0.5), ..cfg });
    sess2.model = model;
    let ctx = json!({"family": "open-gc-race", "planted_orphans": planted, "config": sess2.cfg.describe()});
    // the opening thread is this thread (role 0): a helper lets it go after the window
    let gate = d.arm(0, "gc.before_delete", 1);
    let window_ms = rng.range(60, 250);
    let helper = std::thread::Builder::new().name("c11-gate-helper".into()).spawn(move || {
        let d = director();
        let arrived = d.wait_arrived(gate, Duration::from_secs(10));
        if arrived {
            std::thread::sleep(Duration::from_millis(window_ms));
        }
        d.release(gate);
        arrived
    }).unwrap();
    let opened = sess2.open();
    let held = helper.join().unwrap_or(false);
    if let Err(e) = opened {
        out.violate("C11/open-failed-with-crash-leftovers", json!({"ctx": ctx, "error": e}));
        return;
    }
    out.add("open_gc_windows", held as u64);
    sess2.wait_quiescent(Duration::from_secs(20));
    let universe: BTreeSet<Vec<u8>> = pool.iter().cloned().collect();
    verify_view(out, &sess2, None, &sess2.model.clone(), &universe, "after-open-with-orphans-and-a-due-compaction", &ctx, "C11");
    dir_check(out, &mut sess2, "after-open-with-orphans-and-a-due-compaction", &ctx, "C11");
    judge_anomalies(out, &fs2, &ctx, "C11");
    // and the directory must be openable again
    sess2.close();
    match sess2.open() {
        Ok(()) => {
            verify_view(out, &sess2, None, &sess2.model.clone(), &universe, "after-the-next-open", &ctx, "C11");
            sess2.close();
        }
        Err(e) => out.violate("C11/live-file-missing/next-open-failed", json!({"ctx": ctx, "error": e, "files": sess2.fs.image().listing()})),
    }
    if held {
        out.nontrivial(format!("open-gc-race/window{}", window_ms / 100));
    }
    out.sample = Some(json!({"family": "open-gc-race", "ctx": ctx, "gc_of_open_was_held": held, "window_ms": window_ms}));
}

/// A reader is parked in its unlocked section (it has pinned the current version) while every key
/// is rewritten and compacted away, so that the version it pinned is superseded and only the
/// reader keeps it alive. The reader then finishes - with a hit, a miss (`KeyNotFound`), at a
/// snapshot or not - and after one more flush / garbage-collection cycle the directory must hold
/// exactly what the current version needs again.
fn case_parked_reader(out: &mut CaseOut, seed: u64, idx: u64) {
    use crate::director::set_role;
    let mut rng = Rng::new(mix(&[seed, idx], "c11-parked"));
    let d = director();
    d.reset(rng.next_u64());
    let cfg = Config { memtable: *rng.pick(&[1024usize, 4096]), file: *rng.pick(&[1024u64, 4096]), block: 256, reuse: true };
    let fs = SimFs::from_image(&dbutil::root_image());
    let mut sess = Session::new(fs.clone(), cfg);
    if let Err(e) = sess.open() {
        out.violate("C11/open-failed", json!({"error": e}));
        return;
    }
    let pool = gen::key_pool(&mut rng, gen::KeyFamily::Ascii, 50);
    let mut counter = 0u64;
    let mut rewrite = |sess: &mut Session, rng: &mut Rng| -> bool {
        for k in &pool {
            counter += 1;
            if sess.put(k, &gen::tagged_value(rng, &format!("v{counter}:"), 40)).is_err() {
                return false;
            }
        }
        sess.compact(None, None);
        sess.wait_quiescent(Duration::from_secs(20))
    };
    if !rewrite(&mut sess, &mut rng) {
        out.inconclusive("degenerate: load refused");
        return;
    }
    let point: &'static str = ["get.unlocked", "get.before_imm", "get.before_tables"][(idx % 3) as usize];
    let outcome = ["miss", "hit", "miss-at-snapshot", "hit-at-snapshot"][(idx / 3 % 4) as usize];
    let key: Vec<u8> = if outcome.starts_with("miss") { b"~no-such-key".to_vec() } else { rng.pick(&pool).clone() };
    let snapshot = if outcome.ends_with("snapshot") { Some(sess.db().get_snapshot()) } else { None };
    let ctx = json!({"family": "parked-reader", "config": cfg.describe(), "reader_parked_at": point, "reader_outcome": outcome});
    let gate = d.arm(1, point, 1);
    let reader = {
        let (db, key, snapshot) = (sess.db_arc(), key.clone(), snapshot.clone());
        std::thread::Builder::new().name("c11-reader".into()).spawn(move || {
            set_role(1);
            let _g = watch::enter("get(parked)");
            let r = db.get(raindb::ReadOptions { fill_cache: false, snapshot }, &key);
            drop(db);
            r.is_ok()
        }).unwrap()
    };
    if !d.wait_arrived(gate, Duration::from_secs(10)) {
        d.release(gate);
        let _ = reader.join();
        out.inconclusive(format!("parked-reader: the reader did not reach {point}"));
        sess.close();
        return;
    }
    let versions_before = sess.db().verif_probe().num_versions;
    let ok = rewrite(&mut sess, &mut rng) && rewrite(&mut sess, &mut rng);
    let versions_while_parked = sess.db().verif_probe().num_versions;
    d.release(gate);
    let found = reader.join().unwrap_or(false);
    if let Some(s) = snapshot {
        sess.db().release_snapshot(s);
    }
    if !ok {
        out.inconclusive("parked-reader: the rewrite did not complete");
        sess.close();
        return;
    }
    out.add("parked_readers", 1);
    dir_check(out, &mut sess, "after-a-parked-reader-outlived-its-version", &ctx, "C11");
    judge_anomalies(out, &fs, &ctx, "C11");
    let versions_after = sess.db().verif_probe().num_versions;
    out.max("versions_in_list_while_parked", versions_while_parked as u64);
    if versions_while_parked > versions_before.min(1) {
        out.nontrivial(format!("parked-reader/{point}/{outcome}/found{}", found as u8));
    }
    out.sample = Some(json!({"family": "parked-reader", "ctx": ctx, "versions_in_list": {"before": versions_before, "while_parked": versions_while_parked, "after_dir_check": versions_after}}));
    sess.close();
}

/// The background thread is parked in the middle of its work - a flush whose table is built but
/// not yet installed, a manifest append, a compaction that has outputs open, a garbage collection
/// about to delete - and meanwhile a client does everything a client can do that touches the
/// lifetime of files: it drops iterators and snapshots that alone kept superseded versions alive,
/// creates and drops fresh ones, reads hits and misses, asks for descriptors. Whatever those calls
/// set off (the release of a version, a collection) must not touch a file that the parked work is
/// about to install: after the release every key must be readable, the accountant must have seen
/// no use of a removed file, and the directory must be exact again after one more cycle.
fn case_client_churn_while_worker_parked(out: &mut CaseOut, seed: u64, idx: u64) {
    use crate::director::COMPACTOR;
    let mut rng = Rng::new(mix(&[seed, idx], "c11-churn-parked"));
    let d = director();
    d.reset(rng.next_u64());
    let cfg = Config { memtable: *rng.pick(&[1024usize, 2048, 4096]), file: *rng.pick(&[1024u64, 4096]), block: 256, reuse: rng.chance(0.5) };
    let fs = SimFs::from_image(&dbutil::root_image());
    fs.set_strict_unlink(true);
    let mut sess = Session::new(fs.clone(), cfg);
    sess.fill_cache = false;
    if let Err(e) = sess.open() {
        out.violate("C11/open-failed", json!({"error": e}));
        return;
    }
    let pool = gen::key_pool(&mut rng, gen::KeyFamily::Ascii, 40);
    let mut counter = 0u64;
    let mut rewrite = |sess: &mut Session, rng: &mut Rng, compact: bool| -> bool {
        for k in &pool {
            counter += 1;
            if sess.put(k, &gen::tagged_value(rng, &format!("v{counter}:"), 40)).is_err() {
                return false;
            }
        }
        if compact {
            sess.compact(None, None);
        }
        sess.wait_quiescent(Duration::from_secs(20))
    };
    if !rewrite(&mut sess, &mut rng, true) {
        out.inconclusive("degenerate: load refused");
        return;
    }
    // readers that pin the version of this moment; two rewrites make it a superseded one that only they keep alive
    let mut iters = vec![];
    let mut snaps = vec![];
    for _ in 0..rng.range(1, 3) {
        let mut it = sess.db().new_iterator(raindb::ReadOptions { fill_cache: false, snapshot: None }).unwrap();
        let _ = it.seek_to_first();
        iters.push(it);
        snaps.push(sess.db().get_snapshot());
    }
    let second_compacts = rng.chance(0.5);
    if !(rewrite(&mut sess, &mut rng, true) && rewrite(&mut sess, &mut rng, second_compacts)) {
        out.inconclusive("degenerate: rewrite refused");
        return;
    }
    const POINTS: [&str; 7] = ["flush.after_build", "manifest.before_append", "manifest.after_append", "flush.before_build", "compact.step", "gc.before_delete", "manifest.before_append"];
    let point: &'static str = POINTS[(idx % POINTS.len() as u64) as usize];
    let nth = if point == "compact.step" { rng.range(3, 30) } else { 1 };
    let ctx = json!({"family": "client-churn-while-worker-parked", "config": cfg.describe(), "worker_parked_at": point, "nth_arrival": nth, "pinning_iterators": iters.len()});
    let gate = d.arm(COMPACTOR, point, nth);
    // set the background work off: writes until the gate is reached; a put never waits while no immutable memtable is pending,
    // so stop as soon as one is (the parked thread is the only one that could flush it)
    let mut i = 0u64;
    let t0 = Instant::now();
    while !d.is_arrived(gate) && t0.elapsed() < Duration::from_secs(10) {
        if sess.db().verif_probe().has_immutable_memtable {
            std::thread::sleep(Duration::from_millis(1));
            watch::tick();
            continue;
        }
        i += 1;
        let k = if point == "compact.step" || rng.chance(0.5) { rng.pick(&pool).clone() } else { format!("~fill{:05}", i).into_bytes() };
        counter += 1;
        if sess.put(&k, &gen::tagged_value(&mut rng, &format!("v{counter}:"), 60)).is_err() {
            break;
        }
    }
    if !d.wait_arrived(gate, Duration::from_secs(5)) {
        d.release(gate);
        out.inconclusive(format!("client-churn: the background thread did not reach {point}"));
        drop(iters);
        for s in snaps {
            sess.db().release_snapshot(s);
        }
        sess.close();
        return;
    }
    out.add(&format!("worker_parked.{point}"), 1);
    // the churn
    let mut dropped = 0u64;
    while let Some(it) = iters.pop() {
        drop(it);
        dropped += 1;
        if let Some(s) = snaps.pop() {
            sess.db().release_snapshot(s);
        }
        for _ in 0..rng.range(1, 4) {
            let k = if rng.chance(0.5) { rng.pick(&pool).clone() } else { b"~no-such-key".to_vec() };
            if let Ok(got) = sess.get(&k) {
                if got.as_ref() != sess.model.get(&k) {
                    out.violate("C11/wrong-read-while-worker-parked", json!({"ctx": ctx, "key": show(&k)}));
                }
            }
            let mut it = sess.db().new_iterator(raindb::ReadOptions { fill_cache: false, snapshot: None }).unwrap();
            let _ = it.seek(&k);
            drop(it);
            let s = sess.db().get_snapshot();
            sess.db().release_snapshot(s);
        }
        let _ = sess.descriptor(DatabaseDescriptor::SSTables);
    }
    out.add("iterators_dropped_while_worker_parked", dropped);
    d.release(gate);
    if !sess.wait_quiescent(Duration::from_secs(30)) {
        out.inconclusive("client-churn: the database did not go quiet after the release (see C09)");
        sess.close();
        return;
    }
    // everything acknowledged must be readable, by get and by scan
    let mut bad = 0;
    for (k, v) in sess.model.clone() {
        match sess.get(&k) {
            Ok(Some(got)) if got == v => {}
            other => {
                bad += 1;
                if bad <= 3 {
                    out.violate("C11/live-file-deleted/committed-key-unreadable-after-client-churn", json!({"ctx": ctx, "key": show(&k), "got": format!("{other:?}").chars().take(120).collect::<String>(), "files": fs.image().listing()}));
                }
            }
        }
    }
    match sess.scan(None) {
        Ok(entries) => {
            if entries.len() != sess.model.len() {
                out.violate("C11/live-file-deleted/scan-incomplete-after-client-churn", json!({"ctx": ctx, "scanned": entries.len(), "expected": sess.model.len()}));
            }
        }
        Err(e) => out.violate("C11/live-file-deleted/scan-error-after-client-churn", json!({"ctx": ctx, "error": e})),
    }
    judge_anomalies(out, &fs, &ctx, "C11");
    if !out.is_violated() {
        dir_check(out, &mut sess, "after-client-churn-while-worker-parked", &ctx, "C11");
    }
    out.nontrivial(format!("client-churn/{point}/dropped{}", dropped.min(3)));
    out.sample = Some(json!({"family": "client-churn-while-worker-parked", "ctx": ctx, "iterators_dropped_while_parked": dropped}));
    sess.close();
}

/// Crash images of a recorded execution (orphan tables of unfinished flushes and compactions,
/// half-written temp files, superseded manifests, stale WALs): after recovery, one more flush/GC
/// cycle and quiescence the directory must again hold exactly what is needed.
fn case_crash_images(out: &mut CaseOut, tier: &str, seed: u64, idx: u64) {
    use crate::crash::{self, ExecParams};
    use crate::simfs::{OpKind, Replayer};
    let mut rng = Rng::new(mix(&[seed, idx], "c11-crash"));
    let n_ops = rng.range(100, 200) as usize;
    let params = ExecParams::generate(&mut rng, idx, n_ops);
    let exec = crash::record_execution(&mut rng, &params);
    if let Some(why) = &exec.degenerate {
        out.inconclusive(format!("degenerate execution: {why}"));
        return;
    }
    let n = exec.journal.len();
    // crash points right after calls that leave something behind: table writes, manifest and
    // CURRENT switching, removals
    let mut candidates: Vec<usize> = (1..=n)
        .filter(|k| {
            let e = &exec.journal[*k - 1];
            matches!(e.op.class(), PathClass::Table | PathClass::Manifest | PathClass::Temp | PathClass::Current)
                || e.op.kind() == OpKind::Remove
                || e.op.kind() == OpKind::CreateTrunc
        })
        .collect();
    // the rare ones first - calls on the scratch file of a CURRENT switch, on CURRENT itself, and
    // the creation of a manifest or log (a handful per execution, drowned by table writes in a
    // uniform sample) - then a random sample of the rest
    let is_rare = |k: &usize| {
        let e = &exec.journal[*k - 1];
        matches!(e.op.class(), PathClass::Temp | PathClass::Current)
            || (e.op.kind() == OpKind::CreateTrunc && matches!(e.op.class(), PathClass::Manifest | PathClass::Wal))
    };
    let mut rare: Vec<usize> = candidates.iter().copied().filter(|k| is_rare(k)).collect();
    rng.shuffle(&mut rare);
    rare.truncate(if tier == "quick" { 16 } else { 40 });
    candidates.retain(|k| !is_rare(k));
    rng.shuffle(&mut candidates);
    candidates.truncate(if tier == "quick" { 20 } else { 50 });
    out.add("crash_points_on_current_switches_and_file_creations", rare.len() as u64);
    candidates.extend(rare);
    candidates.sort_unstable();
    let mut replayer = Replayer::new(&dbutil::root_image());
    let mut checked = 0u64;
    for k in candidates {
        while replayer.applied() < k {
            replayer.step(&exec.journal[replayer.applied()]);
        }
        watch::tick();
        let image = replayer.image();
        let (acked, with) = exec.expected_at(k as u64);
        // the instance that recovers draws its own log-reuse setting: one that takes the old
        // manifest over creates no new one - and so does not happen to overwrite (and rename away)
        // the scratch file a crashed CURRENT switch left behind
        let cfg = Config { reuse: rng.chance(0.5), ..exec.cfg_at(k as u64 - 1) };
        let d = director();
        d.reset(rng.next_u64());
        let fs = SimFs::from_image(&image);
        fs.set_strict_unlink(true);
        let mut sess = Session::new(fs.clone(), cfg);
        sess.fill_cache = false;
        if sess.open().is_err() {
            // a failing recovery is C02's verdict, not this property's
            out.add("crash_images_not_recoverable", 1);
            continue;
        }
        // before any iterator exists: nothing may be waiting for a later collection
        {
            let ctx = json!({"execution": exec.description, "crash_after_mutating_call": k, "of": n, "last_call": exec.journal[k - 1].op.describe(),
                "phase": exec.phase_of(k - 1), "files_in_image": image.listing()});
            dir_check_now(out, &mut sess, "right-after-crash-recovery", &ctx, "C11");
            if out.is_violated() {
                sess.close();
                break;
            }
        }
        let got: crate::session::Map = match sess.scan(None) {
            Ok(entries) => entries.into_iter().collect(),
            Err(_) => {
                sess.close();
                continue;
            }
        };
        if got == acked {
            sess.model = acked;
        } else if with.as_ref() == Some(&got) {
            sess.model = with.unwrap();
        } else {
            out.add("crash_images_with_unexpected_contents", 1);
            sess.close();
            continue;
        }
        let phase = exec.phase_of(k - 1);
        let ctx = json!({"execution": exec.description, "crash_after_mutating_call": k, "of": n, "last_call": exec.journal[k - 1].op.describe(),
            "phase": phase, "files_in_image": image.listing()});
        dir_check(out, &mut sess, "after-crash-recovery", &ctx, "C11");
        judge_anomalies(out, &fs, &ctx, "C11");
        // everything recovered is still readable after the cleanup
        let universe: BTreeSet<Vec<u8>> = exec.universe.iter().cloned().collect();
        verify_view(out, &sess, None, &sess.model.clone(), &universe, "after-crash-recovery-and-gc", &ctx, "C11");
        sess.close();
        checked += 1;
        out.set_add("crash_phases", phase);
        if out.is_violated() {
            break;
        }
    }
    out.add("crash_images_checked", checked);
    if checked >= 2 {
        out.nontrivial(format!("crash-images/{}/reuse{}", params.family.name(), params.cfg.reuse as u8));
        out.distinct_extra = checked.saturating_sub(1);
    }
    out.sample = Some(json!({"family": "crash-images", "execution": exec.description, "crash_points_checked": checked}));
}

pub fn run_case(tier: &str, seed: u64, idx: u64) -> CaseOut {
    let mut out = CaseOut::new();
    let (ng, no) = (n_gap(tier), n_orphan(tier));
    let before_churn = ng + no + n_shapes(tier) + n_parked(tier) + n_open_race(tier) + n_outlive(tier);
    if idx >= before_churn {
        case_client_churn_while_worker_parked(&mut out, seed, idx - before_churn);
    } else if idx < ng {
        case_gap(&mut out, seed, idx);
    } else if idx < ng + no {
        case_orphans(&mut out, seed, idx - ng);
    } else if idx >= ng + no + n_shapes(tier) + n_parked(tier) + n_open_race(tier) {
        case_iterator_outlives_db(&mut out, seed, idx - ng - no - n_shapes(tier) - n_parked(tier) - n_open_race(tier));
    } else if idx >= ng + no + n_shapes(tier) + n_parked(tier) {
        case_open_gc_race(&mut out, seed, idx - ng - no - n_shapes(tier) - n_parked(tier));
    } else if idx >= ng + no + n_shapes(tier) {
        case_parked_reader(&mut out, seed, idx - ng - no - n_shapes(tier));
    } else if (idx - ng - no) % 5 == 4 {
        case_crash_images(&mut out, tier, seed, idx);
    } else if (idx - ng - no) % 5 == 2 {
        case_history_with_directory_checks(&mut out, tier, seed, idx);
    } else {
        case_shape(&mut out, tier, seed, idx - ng - no);
    }
    out
}
