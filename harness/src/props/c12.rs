//! C12 — log files return exactly the records appended, for every size and reopen point.
//!
//! Oracle: the list of appended records and (from the SimFs journal) the byte offsets at which
//! each physical write ended. No knowledge of the format beyond "header is 7 bytes, block is
//! 32768" is used, and that only to choose interesting sizes.

use std::path::{Path, PathBuf};
use std::sync::Arc;

use raindb::verif::log::{Reader, Writer};
use serde_json::json;

use crate::report::CaseOut;
use crate::rng::{mix, Rng};
use crate::simfs::{Image, JOp, SimFs};
use crate::watch;

const BLOCK: usize = 32768;
const HEADER: usize = 7;

fn log_path() -> PathBuf {
    PathBuf::from("/c12/wal/wal-1.log")
}

fn base_image() -> Image {
    let mut image = Image::default();
    image.dirs.insert(PathBuf::from("/"));
    image.dirs.insert(PathBuf::from("/c12"));
    image.dirs.insert(PathBuf::from("/c12/wal"));
    image
}

pub fn offsets() -> Vec<usize> {
    let mut v = vec![0];
    v.extend(7..=21);
    v.extend((BLOCK - 14)..=BLOCK);
    v
}

pub fn lengths() -> Vec<usize> {
    let full = BLOCK - HEADER; // 32761
    let mut v: Vec<usize> = (0..=20).collect();
    v.extend((full - 8)..=(full + 8));
    v.extend((2 * full - 8)..=(2 * full + 8));
    v.push(100_000);
    v
}

pub fn plan(tier: &str) -> u64 {
    let enumerated = offsets().len() as u64; // one case per start offset
    match tier {
        "quick" => enumerated + 6 + 90,
        _ => enumerated + 30 + 600,
    }
}

fn record_bytes(rng: &mut Rng, len: usize, tag: u8) -> Vec<u8> {
    // recognisable, non-repeating content so that merged/misaligned fragments cannot look right
    let mut v = rng.bytes(len);
    if len > 0 {
        v[0] = tag;
    }
    v
}

struct Written {
    records: Vec<Vec<u8>>,
    /// file length after each record was appended
    ends: Vec<usize>,
    /// file length after each physical write (fragment or trailer padding)
    write_ends: Vec<usize>,
    /// for each physical write: index of the record being appended
    write_owner: Vec<usize>,
    image: Image,
    reopens: usize,
}

/// Append `records` with a writer re-opened (append mode) before every index in `reopen_before`.
/// `write_limit` > 0: the file takes at most that many bytes per `write` call (see SimFs).
fn write_log(records: &[Vec<u8>], reopen_before: &[usize], write_limit: usize) -> Result<Written, String> {
    let fs = SimFs::from_image(&base_image());
    fs.set_write_limit(write_limit);
    fs.record_journal(true);
    let provider = fs.as_provider();
    let path = log_path();
    let mut writer = Writer::new(Arc::clone(&provider), &path, false).map_err(|e| e.to_string())?;
    let mut ends = vec![];
    let mut write_ends = vec![];
    let mut write_owner = vec![];
    let mut reopens = 0;
    for (i, rec) in records.iter().enumerate() {
        if reopen_before.contains(&i) && i > 0 {
            drop(writer);
            writer = Writer::new(Arc::clone(&provider), &path, true).map_err(|e| e.to_string())?;
            reopens += 1;
        }
        writer.append(rec).map_err(|e| format!("append failed: {e}"))?;
        for entry in fs.take_journal() {
            if let JOp::Write { offset, data, .. } = &entry.op {
                write_ends.push(*offset as usize + data.len());
                write_owner.push(i);
            }
        }
        ends.push(fs.image().files[&path].len());
        watch::tick();
    }
    drop(writer);
    Ok(Written {
        records: records.to_vec(),
        ends,
        write_ends,
        write_owner,
        image: fs.image(),
        reopens,
    })
}

#[derive(Debug)]
struct ReadBack {
    records: Vec<Vec<u8>>,
    tail_error: Option<String>,
    runaway: bool,
}

fn read_all(image: &Image, limit: usize) -> Result<ReadBack, String> {
    read_all_with_read_limit(image, limit, 0)
}

/// `read_limit` > 0: the file hands out at most that many bytes per `Read::read` call.
fn read_all_with_read_limit(image: &Image, limit: usize, read_limit: usize) -> Result<ReadBack, String> {
    let fs = SimFs::from_image(image);
    fs.set_read_limit(read_limit);
    let mut reader = Reader::new(fs.as_provider(), &log_path()).map_err(|e| e.to_string())?;
    let mut out = ReadBack {
        records: vec![],
        tail_error: None,
        runaway: false,
    };
    loop {
        watch::tick();
        match reader.read_record() {
            Ok((_, true)) => break,
            Ok((rec, false)) => {
                out.records.push(rec);
                if out.records.len() > limit {
                    out.runaway = true;
                    break;
                }
            }
            Err(e) => {
                out.tail_error = Some(e.to_string());
                break;
            }
        }
    }
    Ok(out)
}

fn cut_image(image: &Image, path: &Path, len: usize) -> Image {
    let mut cut = image.clone();
    cut.mutate(path, |buf| buf.truncate(len));
    cut
}

fn describe(records: &[Vec<u8>]) -> Vec<usize> {
    records.iter().map(|r| r.len()).collect()
}

fn first_diff(expected: &[Vec<u8>], got: &[Vec<u8>]) -> serde_json::Value {
    let n = expected.len().min(got.len());
    for i in 0..n {
        if expected[i] != got[i] {
            return json!({"index": i, "expected_len": expected[i].len(), "got_len": got[i].len(),
                "expected_head": crate::report::show(&expected[i][..expected[i].len().min(12)]),
                "got_head": crate::report::show(&got[i][..got[i].len().min(12)])});
        }
    }
    json!({"index": n, "expected_count": expected.len(), "got_count": got.len(),
        "got_lens": got.iter().map(|r| r.len()).collect::<Vec<_>>()})
}

fn len_class(len: usize) -> &'static str {
    let full = BLOCK - HEADER;
    if len == 0 {
        "empty"
    } else if len < 64 {
        "tiny"
    } else if len + 16 < full {
        "sub-block"
    } else if len <= full + 16 {
        "about-one-block"
    } else if len <= 2 * full + 16 {
        "about-two-blocks"
    } else {
        "multi-block"
    }
}

fn off_class(off: usize) -> String {
    let in_block = off % BLOCK;
    let left = BLOCK - in_block;
    if in_block == 0 {
        "block-start".into()
    } else if left < HEADER {
        format!("trailer-{left}")
    } else if left == HEADER {
        "exactly-header-left".into()
    } else if left <= HEADER + 14 {
        "near-block-end".into()
    } else if in_block <= 21 {
        "near-block-start".into()
    } else {
        "mid-block".into()
    }
}

/// Check a clean read and a set of cuts of one written log.
fn check_written(out: &mut CaseOut, w: &Written, cuts: &[usize], ctx: &serde_json::Value, sig_prefix: &str) {
    let path = log_path();
    let file_len = *w.ends.last().unwrap_or(&0);
    // clean read
    out.add("clean_reads", 1);
    match read_all(&w.image, w.records.len() + 4) {
        Err(e) => out.violate(
            format!("C12/clean-open-failed/{sig_prefix}"),
            json!({"ctx": ctx, "error": e}),
        ),
        Ok(rb) => {
            if rb.runaway || rb.tail_error.is_some() || rb.records != w.records {
                out.violate(
                    format!("C12/clean-read-mismatch/{sig_prefix}"),
                    json!({"ctx": ctx, "lens": describe(&w.records), "diff": first_diff(&w.records, &rb.records),
                        "tail_error": rb.tail_error, "runaway": rb.runaway}),
                );
            }
        }
    }
    // cuts
    for &cut in cuts {
        if cut > file_len {
            continue;
        }
        let complete = w.ends.iter().take_while(|&&e| e <= cut).count();
        let expected = &w.records[..complete];
        let image = cut_image(&w.image, &path, cut);
        out.add("cut_reads", 1);
        match read_all(&image, w.records.len() + 4) {
            Err(e) => out.violate(
                format!("C12/cut-open-failed/{sig_prefix}"),
                json!({"ctx": ctx, "cut": cut, "error": e}),
            ),
            Ok(rb) => {
                if rb.tail_error.is_some() {
                    out.add("cut_tail_errors", 1);
                }
                if rb.runaway || rb.records != expected {
                    let cls = if rb.records.len() < expected.len() {
                        "lost-complete-record"
                    } else {
                        "phantom-record"
                    };
                    out.violate(
                        format!("C12/cut-read-mismatch/{cls}/{sig_prefix}"),
                        json!({"ctx": ctx, "cut": cut, "file_len": file_len, "record_ends": w.ends,
                            "diff": first_diff(expected, &rb.records), "tail_error": rb.tail_error}),
                    );
                }
            }
        }
    }
}

fn boundary_cuts(w: &Written, radius: usize) -> Vec<usize> {
    let mut cuts = std::collections::BTreeSet::new();
    let file_len = *w.ends.last().unwrap_or(&0);
    let mut marks = vec![0usize];
    marks.extend(w.write_ends.iter().copied());
    for m in marks {
        for d in 0..=radius {
            if m >= d {
                cuts.insert(m - d);
            }
            if m + d <= file_len {
                cuts.insert(m + d);
            }
        }
        // fragment payload starts right after its 7-byte header
        if m + HEADER <= file_len {
            cuts.insert(m + HEADER);
            if m + HEADER + 1 <= file_len {
                cuts.insert(m + HEADER + 1);
            }
        }
    }
    cuts.into_iter().collect()
}

/// Enumerated family: one start offset, all (or a seed-chosen quarter of the) lengths, three
/// reopen patterns each.
fn case_enumerated(out: &mut CaseOut, tier: &str, seed: u64, idx: usize) {
    let offs = offsets();
    let start = offs[idx];
    let mut rng = Rng::new(mix(&[seed, idx as u64], "c12-enum"));
    let lens = lengths();
    let mut pairs = 0u64;
    for (li, &len) in lens.iter().enumerate() {
        let critical = len <= 1 || len + start + HEADER == BLOCK || len + start + 2 * HEADER == BLOCK;
        if tier == "quick" && !critical && (li as u64 + idx as u64 + seed) % 4 != 0 {
            continue;
        }
        // bring the file to `start` with one prefix record (offsets 1..6 of a block cannot be
        // reached by any sequence of appends; offsets >= 7 are reached by one record)
        let mut records: Vec<Vec<u8>> = vec![];
        if start >= HEADER {
            records.push(record_bytes(&mut rng, start - HEADER, 0xA1));
        }
        let rec_index = records.len();
        records.push(record_bytes(&mut rng, len, 0xB2));
        records.push(record_bytes(&mut rng, 5, 0xC3));
        for (pi, pattern) in [vec![], vec![rec_index], vec![rec_index + 1]].iter().enumerate() {
            if pattern.first() == Some(&0) {
                continue;
            }
            pairs += 1;
            let ctx = json!({"family": "enumerated", "start_offset": start, "record_len": len, "reopen_before": pattern});
            let sig = format!("{}+{}", off_class(start), len_class(len));
            match write_log(&records, pattern, 0) {
                Err(e) => out.violate(format!("C12/write-failed/{sig}"), json!({"ctx": ctx, "error": e})),
                Ok(w) => {
                    if w.ends.get(rec_index.wrapping_sub(1)).copied().unwrap_or(0) != start {
                        // the prefix did not land where intended: only possible if the writer's
                        // layout differs from header=7; count, do not judge
                        out.add("prefix_misplaced", 1);
                    }
                    let cuts = if tier == "quick" && pi != 0 { vec![] } else { boundary_cuts(&w, 8) };
                    check_written(out, &w, &cuts, &ctx, &sig);
                    let crosses = (start + HEADER + len) > BLOCK || start % BLOCK + HEADER > BLOCK;
                    if crosses || w.reopens > 0 {
                        out.nontrivial(format!("enum/{}/{}/reopen{}", off_class(start), len_class(len), pi));
                    }
                }
            }
        }
    }
    out.add("enumerated_pairs", pairs);
    out.sample = Some(json!({"family": "enumerated", "start_offset": start, "lengths_tried": pairs,
        "reopen_patterns": ["none", "before the record", "before the sentinel"], "cuts": "every write boundary ±8 bytes, header end"}));
}

/// A writer stops between two fragments of a multi-block record; a later writer appends.
fn case_append_after_stop(out: &mut CaseOut, seed: u64, idx: usize) {
    let mut rng = Rng::new(mix(&[seed, idx as u64], "c12-stop"));
    let path = log_path();
    let starts = [0usize, 7, 100, 20_000, BLOCK - 40, BLOCK - 7];
    let big_lens = [BLOCK - 6, 40_000, 70_000, 100_000];
    let start = starts[idx % starts.len()];
    let mut stops = 0u64;
    for &big in &big_lens {
        let mut records: Vec<Vec<u8>> = vec![];
        if start >= HEADER {
            records.push(record_bytes(&mut rng, start - HEADER, 0xA1));
        }
        let n_before = rng.usize_below(3);
        for _ in 0..n_before {
            let l = rng.usize_below(300);
            records.push(record_bytes(&mut rng, l, 0xA2));
        }
        let big_index = records.len();
        records.push(record_bytes(&mut rng, big, 0xB2));
        let w = match write_log(&records, &[], 0) {
            Ok(w) => w,
            Err(e) => {
                out.violate("C12/write-failed/stop", json!({"error": e}));
                return;
            }
        };
        // every physical write that belongs to the big record and is not its last one
        let owned: Vec<usize> = (0..w.write_ends.len()).filter(|&i| w.write_owner[i] == big_index).collect();
        for &wi in &owned[..owned.len().saturating_sub(1)] {
            let stop_at = w.write_ends[wi];
            // the first record appended after the stop is small, empty or itself fragmented
            let tail1_len = [rng.usize_below(200), 0, 33_000, 70_000][rng.usize_below(4)];
            let tail2_len = [0usize, 10, 33_000][rng.usize_below(3)];
            let tail = vec![record_bytes(&mut rng, tail1_len, 0xD4), record_bytes(&mut rng, tail2_len, 0xE5)];
            let stopped = cut_image(&w.image, &path, stop_at);
            let fs = SimFs::from_image(&stopped);
            let mut ok = true;
            {
                let mut writer = match Writer::new(fs.as_provider(), &path, true) {
                    Ok(wr) => wr,
                    Err(e) => {
                        out.violate("C12/reopen-failed/stop", json!({"error": e.to_string()}));
                        continue;
                    }
                };
                for t in &tail {
                    if let Err(e) = writer.append(t) {
                        out.violate("C12/append-failed/stop", json!({"error": e.to_string()}));
                        ok = false;
                    }
                }
            }
            if !ok {
                continue;
            }
            stops += 1;
            let mut expected: Vec<Vec<u8>> = records[..big_index].to_vec();
            expected.extend(tail.iter().cloned());
            let ctx = json!({"family": "append-after-stop", "start_offset": start, "big_record_len": big,
                "stopped_after_write_ending_at": stop_at, "appended_lens": describe(&tail)});
            out.add("stop_reads", 1);
            match read_all(&fs.image(), expected.len() + 4) {
                Err(e) => out.violate("C12/stop-open-failed", json!({"ctx": ctx, "error": e})),
                Ok(rb) => {
                    if rb.runaway || rb.records != expected {
                        let cls = if rb.records.iter().any(|r| !expected.contains(r)) {
                            "phantom-record"
                        } else {
                            "lost-complete-record"
                        };
                        out.violate(
                            format!("C12/append-after-fragment-stop/{cls}"),
                            json!({"ctx": ctx, "expected_lens": describe(&expected), "diff": first_diff(&expected, &rb.records), "tail_error": rb.tail_error}),
                        );
                    } else if rb.tail_error.is_some() {
                        out.add("stop_tail_errors", 1);
                    }
                    out.nontrivial(format!("stop/{}/{}/frag{}", off_class(start), len_class(big), wi.min(3)));
                }
            }
        }
        // The same, but the writer died in the middle of a fragment that is not the first one of
        // the big record (the First fragment is intact, a later one is torn), and a reopened
        // writer appends behind the torn bytes. Records that start in the damaged block may be
        // lost; what is read back must still be an in-order selection of what was appended -
        // never a record that nobody appended (e.g. the tail of the new records glued to nothing).
        for &wi in owned.iter().skip(1) {
            let (from, to) = (w.write_ends[wi - 1], w.write_ends[wi]);
            if to - from < 4 {
                continue;
            }
            let cut_at = from + [1usize, (to - from) / 2, to - from - 1][rng.usize_below(3)];
            let (l1, l2) = ([70_000usize, 100_000, 40_000][rng.usize_below(3)], rng.usize_below(300));
            let tail = vec![record_bytes(&mut rng, l1, 0xD6), record_bytes(&mut rng, l2, 0xE7)];
            let stopped = cut_image(&w.image, &path, cut_at);
            let fs = SimFs::from_image(&stopped);
            let appended = match Writer::new(fs.as_provider(), &path, true) {
                Ok(mut writer) => tail.iter().all(|t| writer.append(t).is_ok()),
                Err(_) => false,
            };
            if !appended {
                continue;
            }
            let mut expected: Vec<Vec<u8>> = records[..big_index].to_vec();
            expected.extend(tail.iter().cloned());
            let ctx = json!({"family": "append-after-torn-fragment", "start_offset": start, "big_record_len": big,
                "torn_inside_write": [from, to], "cut_at": cut_at, "appended_lens": describe(&tail)});
            out.add("torn_fragment_reads", 1);
            if let Ok(rb) = read_all(&fs.image(), expected.len() + 6) {
                // in-order selection of `expected`?
                let mut next = 0usize;
                let mut phantom = None;
                for r in &rb.records {
                    // The torn record itself may come back whole: all but a few of its bytes are
                    // in the file, and the first bytes the new writer put behind them can happen
                    // to equal the missing ones (1 in 256 for a one-byte tear). That is the record
                    // the dying writer was appending, not a made-up one.
                    if *r == records[big_index] {
                        continue;
                    }
                    match expected[next..].iter().position(|e| e == r) {
                        Some(p) => next += p + 1,
                        None => {
                            phantom = Some(r.len());
                            break;
                        }
                    }
                }
                if rb.runaway || phantom.is_some() {
                    out.violate(
                        "C12/append-after-torn-fragment/phantom-record",
                        json!({"ctx": ctx, "expected_lens": describe(&expected), "read_lens": describe(&rb.records), "phantom_record_len": phantom}),
                    );
                }
                out.nontrivial(format!("torn-fragment/{}/{}/frag{}", off_class(start), len_class(big), wi.min(3)));
            }
        }
    }
    out.add("fragment_stops", stops);
    out.sample = Some(json!({"family": "append-after-stop", "start_offset": start, "big_record_lens": big_lens, "stops_tested": stops}));
}

fn random_len(rng: &mut Rng) -> usize {
    let full = BLOCK - HEADER;
    match rng.below(100) {
        0..=9 => 0,
        10..=49 => rng.range(1, 100) as usize,
        50..=74 => rng.range(100, 5000) as usize,
        75..=84 => (full as u64 - 16 + rng.below(33)) as usize,
        85..=92 => rng.range(20_000, 34_000) as usize,
        _ => rng.range(34_000, 100_000) as usize,
    }
}

fn case_random(out: &mut CaseOut, tier: &str, seed: u64, idx: usize) {
    let mut rng = Rng::new(mix(&[seed, idx as u64], "c12-rand"));
    let small_only = idx % 3 == 0;
    let n = if small_only { rng.range(1, 40) } else { rng.range(1, 200) } as usize;
    let mut records = vec![];
    let mut total = 0usize;
    for _ in 0..n {
        let l = if small_only { rng.usize_below(60) } else { random_len(&mut rng) };
        total += l;
        if total > 600_000 {
            break;
        }
        records.push(record_bytes(&mut rng, l, 0x5A));
    }
    let reopen: Vec<usize> = (1..records.len()).filter(|_| rng.chance(0.15)).collect();
    // every fourth log lives on a file that takes only a few bytes per write call
    let write_limit = if idx % 4 == 1 { *rng.pick(&[1usize, 6, 7, 100, 4096, 32767]) } else { 0 };
    if write_limit > 0 && write_limit < 100 {
        // (a few bytes per call: keep the log to about two blocks)
        let mut sum = 0usize;
        let keep = records.iter().take_while(|r| { sum += r.len(); sum <= 70_000 }).count().max(1);
        records.truncate(keep);
    }
    let reopen: Vec<usize> = reopen.into_iter().filter(|i| *i < records.len()).collect();
    let ctx = json!({"family": "random", "record_lens": describe(&records), "reopen_before": reopen, "file_takes_at_most_bytes_per_write": write_limit});
    match write_log(&records, &reopen, write_limit) {
        Err(e) => out.violate("C12/write-failed/random", json!({"ctx": ctx, "error": e})),
        Ok(w) => {
            let file_len = *w.ends.last().unwrap_or(&0);
            let cuts: Vec<usize> = if file_len <= 3000 {
                (0..=file_len).collect()
            } else {
                let mut c = boundary_cuts(&w, 2);
                let cap = if tier == "quick" { 150 } else { 400 };
                rng.shuffle(&mut c);
                c.truncate(cap);
                for _ in 0..40 {
                    c.push(rng.usize_below(file_len + 1));
                }
                c
            };
            check_written(out, &w, &cuts, &ctx, "random");
            // every fourth log is also read back from a file that hands out only a few bytes per
            // `read` call (which `Read` allows): the records are the same
            if idx % 4 == 3 {
                let read_limit = *rng.pick(&[1usize, 5, 7, 100, 5000]);
                match read_all_with_read_limit(&w.image, records.len() + 5, read_limit) {
                    Err(e) => out.violate("C12/read-failed/short-reads", json!({"ctx": ctx, "error": e})),
                    Ok(back) => {
                        out.add("logs_read_with_short_reads", 1);
                        if back.records != records || back.tail_error.is_some() {
                            out.violate("C12/short-reads/records-differ",
                                json!({"ctx": ctx, "file_hands_out_at_most_bytes_per_read": read_limit, "records_appended": records.len(),
                                    "records_read": back.records.len(), "error_at_the_end": back.tail_error}));
                        }
                    }
                }
            }
            let blocks = file_len / BLOCK;
            if blocks > 0 || w.reopens > 0 {
                out.nontrivial(format!("random/blocks{}/reopens{}/n{}{}", blocks.min(8), w.reopens.min(6), (records.len() / 25).min(8), if write_limit > 0 { "/partial-writes" } else { "" }));
            }
            out.add("random_records", records.len() as u64);
            out.sample = Some(json!({"family": "random", "records": records.len(), "file_len": file_len,
                "first_lens": describe(&records[..records.len().min(12)]), "reopen_before": reopen, "cuts_checked": cuts.len()}));
        }
    }
}

pub fn run_case(tier: &str, seed: u64, idx: u64) -> CaseOut {
    let mut out = CaseOut::new();
    let n_enum = offsets().len() as u64;
    let n_stop = if tier == "quick" { 6 } else { 30 };
    if idx < n_enum {
        case_enumerated(&mut out, tier, seed, idx as usize);
    } else if idx < n_enum + n_stop {
        case_append_after_stop(&mut out, seed, (idx - n_enum) as usize);
    } else {
        case_random(&mut out, tier, seed, (idx - n_enum - n_stop) as usize);
    }
    out
}
