//! LSM shape builders: drive a session so that entries of one user key end up spread over the
//! memtable, several L0 files and deeper levels, with tombstone runs and many versions.

use std::collections::BTreeSet;

use raindb::Snapshot;
use serde_json::{json, Value};

use crate::gen::{self, Config, KeyFamily, ValueMix};
use crate::rng::Rng;
use crate::session::{Map, Session, WriteOp};
use crate::watch;

#[derive(Clone, Debug)]
pub struct ShapeSpec {
    pub family: KeyFamily,
    pub pool_size: usize,
    pub cfg: Config,
    pub style: u64,
    pub writes: usize,
    pub snapshots: usize,
    /// after two thirds of the writes, contiguous key ranges are sunk to different depths
    /// (levels 1-6) with the level-by-level manual compaction; the rest of the writes lands on top
    pub deep: bool,
}

impl ShapeSpec {
    pub fn generate(rng: &mut Rng, idx: u64) -> ShapeSpec {
        let family = KeyFamily::ALL[(idx % 6) as usize];
        let style = (idx / 5) % 4;
        let mut cfg = gen::tiny_config(rng);
        if rng.chance(0.15) {
            cfg.memtable = 4096;
            cfg.file = 4096;
        }
        ShapeSpec {
            family,
            pool_size: match style {
                2 => rng.range(3, 12) as usize,
                _ => rng.range(30, 300) as usize,
            },
            cfg,
            style,
            writes: rng.range(150, 1200) as usize,
            snapshots: rng.range(0, 4) as usize,
            deep: idx % 3 == 2,
        }
    }
    pub fn describe(&self) -> Value {
        let style = ["random-churn", "phased bulk/compact/overlay/tombstone-runs", "hot-keys many versions", "descending load + alternating deletes"][self.style as usize];
        json!({"keys": self.family.name(), "pool": self.pool_size, "config": self.cfg.describe(),
            "style": style,
            "writes": self.writes, "snapshots_during_build": self.snapshots, "ranges_sunk_to_levels_1_to_6": self.deep})
    }
}

pub struct Frozen {
    pub snapshot: Snapshot,
    pub model: Map,
    pub taken_at_write: usize,
}

pub struct Built {
    pub universe: BTreeSet<Vec<u8>>,
    pub pool: Vec<Vec<u8>>,
    pub frozen: Vec<Frozen>,
    pub failed: Option<String>,
}

/// Runs the build on an open session. Snapshots are taken at random points (with frozen copies of
/// the model); the caller releases them.
pub fn build(rng: &mut Rng, sess: &mut Session, spec: &ShapeSpec) -> Built {
    let pool = gen::key_pool(rng, spec.family, spec.pool_size);
    let mut built = Built {
        universe: BTreeSet::new(),
        pool: pool.clone(),
        frozen: vec![],
        failed: None,
    };
    let mut counter = 0u64;
    let mut snap_points: Vec<usize> = (0..spec.snapshots).map(|_| rng.usize_below(spec.writes.max(1))).collect();
    snap_points.sort_unstable();
    let mut plan: Vec<Vec<WriteOp>> = vec![];
    let val = |rng: &mut Rng, counter: &mut u64| {
        *counter += 1;
        gen::value(rng, ValueMix::Small, &format!("v{}:", *counter))
    };
    match spec.style {
        0 => {
            for _ in 0..spec.writes {
                let k = rng.pick(&pool).clone();
                match rng.below(10) {
                    0..=6 => plan.push(vec![(k, Some(val(rng, &mut counter)))]),
                    7..=8 => plan.push(vec![(k, None)]),
                    _ => {
                        let n = rng.range(2, 10);
                        let mut ops = vec![];
                        for _ in 0..n {
                            let k = rng.pick(&pool).clone();
                            if rng.chance(0.3) {
                                ops.push((k, None));
                            } else {
                                ops.push((k, Some(val(rng, &mut counter))));
                            }
                        }
                        plan.push(ops);
                    }
                }
            }
        }
        1 => {
            for k in &pool {
                plan.push(vec![(k.clone(), Some(val(rng, &mut counter)))]);
            }
            plan.push(vec![]); // marker: compact everything
            let overlay = pool.len() * 3 / 10 + 1;
            for _ in 0..overlay {
                plan.push(vec![(rng.pick(&pool).clone(), Some(val(rng, &mut counter)))]);
            }
            // tombstone runs
            for _ in 0..rng.range(1, 4) {
                let start = rng.usize_below(pool.len());
                let len = rng.range(3, 20) as usize;
                for k in pool.iter().skip(start).take(len) {
                    plan.push(vec![(k.clone(), None)]);
                }
            }
            // many versions of one key
            let hot = rng.pick(&pool).clone();
            for _ in 0..50 {
                plan.push(vec![(hot.clone(), Some(val(rng, &mut counter)))]);
            }
            let rest = spec.writes.saturating_sub(plan.len());
            for _ in 0..rest.min(300) {
                let k = rng.pick(&pool).clone();
                if rng.chance(0.25) {
                    plan.push(vec![(k, None)]);
                } else {
                    plan.push(vec![(k, Some(val(rng, &mut counter)))]);
                }
            }
        }
        2 => {
            for _ in 0..spec.writes {
                let k = rng.pick(&pool).clone();
                if rng.chance(0.2) {
                    plan.push(vec![(k, None)]);
                } else {
                    plan.push(vec![(k, Some(val(rng, &mut counter)))]);
                }
            }
        }
        _ => {
            for k in pool.iter().rev() {
                plan.push(vec![(k.clone(), Some(val(rng, &mut counter)))]);
            }
            for (i, k) in pool.iter().enumerate() {
                if i % 2 == 0 {
                    plan.push(vec![(k.clone(), None)]);
                }
            }
            let rest = spec.writes.saturating_sub(plan.len());
            for _ in 0..rest.min(400) {
                let k = rng.pick(&pool).clone();
                plan.push(vec![(k, Some(val(rng, &mut counter)))]);
            }
        }
    }
    let mut next_snap = 0usize;
    let sink_at = if spec.deep { plan.len() * 2 / 3 } else { usize::MAX };
    for (i, ops) in plan.into_iter().enumerate() {
        watch::tick();
        if i == sink_at {
            // cut the key space into 2-6 contiguous ranges and sink each to its own depth
            let mut sorted = pool.clone();
            sorted.sort();
            sorted.dedup();
            let parts = rng.range(2, 6) as usize;
            let mut cuts: Vec<Vec<u8>> = (1..parts).map(|_| rng.pick(&sorted).clone()).collect();
            cuts.sort();
            cuts.dedup();
            let mut lower: Option<Vec<u8>> = None;
            for j in 0..=cuts.len() {
                let upper = cuts.get(j).cloned();
                let depth = rng.range(1, 6) as usize;
                sess.sink(lower.as_deref(), upper.as_deref(), depth);
                lower = upper;
            }
        }
        while next_snap < snap_points.len() && snap_points[next_snap] <= i {
            let snapshot = sess.db().get_snapshot();
            built.frozen.push(Frozen {
                snapshot,
                model: sess.model.clone(),
                taken_at_write: i,
            });
            next_snap += 1;
        }
        if ops.is_empty() {
            sess.compact(None, None);
            continue;
        }
        for (k, _) in &ops {
            built.universe.insert(k.clone());
        }
        if let Err(e) = sess.write(ops) {
            built.failed = Some(e);
            break;
        }
    }
    built
}

/// Number of child iterators a database iterator created now would merge, and a coarse signature.
pub fn children_and_signature(sess: &Session) -> (usize, String) {
    let files = sess.db().verif_files();
    let probe = sess.db().verif_probe();
    let l0 = files.iter().filter(|f| f.level == 0).count();
    let deeper: Vec<usize> = (1..7).filter(|l| files.iter().any(|f| f.level == *l)).collect();
    let children = 1 + probe.has_immutable_memtable as usize + l0 + deeper.len();
    let sig = format!(
        "imm{}-l0x{}-levels{}",
        probe.has_immutable_memtable as u8,
        match l0 { 0 => "0", 1 => "1", 2..=3 => "2-3", _ => "4+" },
        deeper.iter().map(|l| l.to_string()).collect::<Vec<_>>().join("")
    );
    (children, sig)
}
