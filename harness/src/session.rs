//! A single-client session: the real database plus the reference map that mirrors it.

use std::collections::BTreeMap;
use std::time::{Duration, Instant};

use raindb::db::DatabaseDescriptor;
use raindb::{Batch, DbOptions, RainDBError, RainDbIterator, ReadOptions, Snapshot, WriteOptions, DB};

use crate::dbutil::{self, DB_PATH};
use crate::gen::Config;
use crate::report::show;
use crate::simfs::SimFs;
use crate::watch;

pub type Map = BTreeMap<Vec<u8>, Vec<u8>>;

/// One element of a write batch: put (Some) or delete (None).
pub type WriteOp = (Vec<u8>, Option<Vec<u8>>);

#[derive(Clone, Debug)]
pub struct AckRec {
    pub ops: Vec<WriteOp>,
    pub ok: bool,
    /// mutating fs calls applied before the call was issued / after it returned
    pub call_mut: u64,
    pub ret_mut: u64,
}

pub struct Session {
    pub fs: SimFs,
    pub path: String,
    pub cfg: Config,
    pub db: Option<std::sync::Arc<DB>>,
    pub model: Map,
    pub oplog: Vec<String>,
    pub acks: Vec<AckRec>,
    pub record_acks: bool,
    pub fill_cache: bool,
    pub reopens: u64,
    pub write_errors: u64,
}

pub fn err_string(e: &RainDBError) -> String {
    let s = e.to_string();
    s.chars().take(240).collect()
}

impl Session {
    pub fn new(fs: SimFs, cfg: Config) -> Self {
        Session {
            fs,
            path: DB_PATH.to_string(),
            cfg,
            db: None,
            model: Map::new(),
            oplog: vec![],
            acks: vec![],
            record_acks: false,
            fill_cache: true,
            reopens: 0,
            write_errors: 0,
        }
    }

    pub fn log(&mut self, s: String) {
        if self.oplog.len() >= 600 {
            self.oplog.drain(0..100);
        }
        self.oplog.push(s);
    }

    pub fn recent_ops(&self, n: usize) -> Vec<String> {
        let from = self.oplog.len().saturating_sub(n);
        self.oplog[from..].to_vec()
    }

    pub fn options(&self) -> DbOptions {
        dbutil::options(self.fs.as_provider(), &self.path, &self.cfg)
    }

    pub fn open(&mut self) -> Result<(), String> {
        let _g = watch::enter("open");
        self.log(format!("open {}", self.cfg.describe()));
        match DB::open(self.options()) {
            Ok(db) => {
                self.db = Some(std::sync::Arc::new(db));
                Ok(())
            }
            Err(e) => Err(err_string(&e)),
        }
    }

    pub fn close(&mut self) {
        if let Some(db) = self.db.take() {
            let _g = watch::enter("close");
            self.log("close".into());
            match std::sync::Arc::try_unwrap(db) {
                Ok(db) => drop(db),
                Err(shared) => {
                    // still shared with a helper thread: wait briefly for it to let go
                    let mut shared = Some(shared);
                    for _ in 0..2000 {
                        match std::sync::Arc::try_unwrap(shared.take().unwrap()) {
                            Ok(db) => {
                                drop(db);
                                break;
                            }
                            Err(again) => {
                                shared = Some(again);
                                std::thread::sleep(Duration::from_millis(1));
                            }
                        }
                    }
                    // a handle that is still shared is leaked (never dropped by a helper thread)
                    if let Some(leak) = shared {
                        std::mem::forget(leak);
                    }
                }
            }
        }
    }

    pub fn reopen(&mut self, cfg: Config) -> Result<(), String> {
        self.close();
        self.cfg = cfg;
        self.reopens += 1;
        self.open()
    }

    pub fn db(&self) -> &DB {
        self.db.as_ref().expect("session has no open database")
    }

    pub fn db_arc(&self) -> std::sync::Arc<DB> {
        std::sync::Arc::clone(self.db.as_ref().expect("session has no open database"))
    }

    fn read_options(&self, snapshot: Option<&Snapshot>) -> ReadOptions {
        ReadOptions {
            fill_cache: self.fill_cache,
            snapshot: snapshot.cloned(),
        }
    }

    /// Apply a write; the model follows iff the database said Ok.
    pub fn write(&mut self, ops: Vec<WriteOp>) -> Result<(), String> {
        let label = if ops.len() == 1 {
            match &ops[0] {
                (k, Some(v)) => format!("put {} = {}", show(k), show(&v[..v.len().min(20)])),
                (k, None) => format!("delete {}", show(k)),
            }
        } else {
            format!(
                "batch[{}] {}",
                ops.len(),
                ops.iter()
                    .take(6)
                    .map(|(k, v)| format!("{}{}", if v.is_some() { "+" } else { "-" }, show(k)))
                    .collect::<Vec<_>>()
                    .join(" ")
            )
        };
        self.log(label);
        let call_mut = if self.record_acks { self.fs.mut_count() } else { 0 };
        let result = {
            let _g = watch::enter("write");
            let db = self.db();
            if ops.len() == 1 {
                match ops[0].clone() {
                    (k, Some(v)) => db.put(WriteOptions::default(), k, v),
                    (k, None) => db.delete(WriteOptions::default(), k),
                }
            } else {
                let mut batch = Batch::new();
                for (k, v) in &ops {
                    match v {
                        Some(v) => batch.add_put(k.clone(), v.clone()),
                        None => batch.add_delete(k.clone()),
                    };
                }
                db.apply(WriteOptions::default(), batch)
            }
        };
        let ok = result.is_ok();
        if self.record_acks {
            let ret_mut = self.fs.mut_count();
            self.acks.push(AckRec {
                ops: ops.clone(),
                ok,
                call_mut,
                ret_mut,
            });
        }
        match result {
            Ok(()) => {
                apply_to_map(&mut self.model, &ops);
                Ok(())
            }
            Err(e) => {
                self.write_errors += 1;
                Err(err_string(&e))
            }
        }
    }

    pub fn put(&mut self, k: &[u8], v: &[u8]) -> Result<(), String> {
        self.write(vec![(k.to_vec(), Some(v.to_vec()))])
    }

    pub fn delete(&mut self, k: &[u8]) -> Result<(), String> {
        self.write(vec![(k.to_vec(), None)])
    }

    /// `Ok(None)` = KeyNotFound.
    pub fn get(&self, k: &[u8]) -> Result<Option<Vec<u8>>, String> {
        self.get_at(None, k)
    }

    pub fn get_at(&self, snapshot: Option<&Snapshot>, k: &[u8]) -> Result<Option<Vec<u8>>, String> {
        let _g = watch::enter("get");
        match self.db().get(self.read_options(snapshot), k) {
            Ok(v) => Ok(Some(v)),
            Err(RainDBError::KeyNotFound) => Ok(None),
            Err(e) => Err(err_string(&e)),
        }
    }

    pub fn compact(&mut self, start: Option<&[u8]>, end: Option<&[u8]>) {
        self.log(format!(
            "compact_range {}..{}",
            start.map_or("(begin)".to_string(), show),
            end.map_or("(end)".to_string(), show)
        ));
        let _g = watch::enter("compact_range");
        self.db().compact_range(start..end);
    }

    /// One step of raindb's own level-by-level manual compaction (hook accessor): the files of
    /// `level` that overlap the range are compacted into `level + 1`.
    pub fn push_down(&mut self, level: usize, start: Option<&[u8]>, end: Option<&[u8]>) {
        self.log(format!(
            "level {} -> {} for {}..{}",
            level,
            level + 1,
            start.map_or("(begin)".to_string(), show),
            end.map_or("(end)".to_string(), show)
        ));
        let _g = watch::enter("force_level_compaction");
        self.db().verif_force_level_compaction(level, start..end);
    }

    /// Sink one key range through the levels: every level from the shallowest that holds files
    /// down to `depth - 1` is compacted into the next one, so the range's data ends up at `depth`
    /// (or deeper if it already was). Returns the number of steps taken.
    pub fn sink(&mut self, start: Option<&[u8]>, end: Option<&[u8]>, depth: usize) -> u64 {
        let mut steps = 0;
        for level in 0..depth.min(6) {
            if self.shape().get(level).copied().unwrap_or(0) == 0 {
                continue;
            }
            self.push_down(level, start, end);
            steps += 1;
        }
        steps
    }

    /// Forward scan of everything visible at `snapshot` (or now).
    pub fn scan(&self, snapshot: Option<&Snapshot>) -> Result<Vec<(Vec<u8>, Vec<u8>)>, String> {
        let _g = watch::enter("scan");
        let mut iter = self
            .db()
            .new_iterator(self.read_options(snapshot))
            .map_err(|e| err_string(&e))?;
        let mut out = vec![];
        iter.seek_to_first().map_err(|e| err_string(&e))?;
        while iter.is_valid() {
            let (k, v) = iter.current().unwrap();
            out.push((k.clone(), v.clone()));
            iter.next();
            if out.len() % 256 == 0 {
                watch::tick();
            }
        }
        // the end of an iteration is "no more entries" only if the iterator reports no error
        let status = iter.status();
        drop(iter);
        if let Some(e) = status {
            return Err(format!("iterator status: {}", err_string(&e)));
        }
        Ok(out)
    }

    /// A scan that keeps what the iterator yielded even when it ends with an error: (entries in the
    /// order they were yielded, the iterator's final status).
    pub fn scan_keeping_partial(&self, snapshot: Option<&Snapshot>, backward: bool) -> Result<(Vec<(Vec<u8>, Vec<u8>)>, Option<String>), String> {
        let _g = watch::enter("scan(partial)");
        let mut iter = self.db().new_iterator(self.read_options(snapshot)).map_err(|e| err_string(&e))?;
        let mut out = vec![];
        let positioned = if backward { iter.seek_to_last() } else { iter.seek_to_first() };
        if let Err(e) = positioned {
            return Ok((out, Some(err_string(&e))));
        }
        while iter.is_valid() && out.len() < 1_000_000 {
            let (k, v) = iter.current().unwrap();
            out.push((k.clone(), v.clone()));
            if backward {
                iter.prev();
            } else {
                iter.next();
            }
            if out.len() % 256 == 0 {
                watch::tick();
            }
        }
        let status = iter.status().map(|e| err_string(&e));
        Ok((out, status))
    }

    /// Backward scan, returned in ascending order.
    pub fn scan_back(&self, snapshot: Option<&Snapshot>) -> Result<Vec<(Vec<u8>, Vec<u8>)>, String> {
        let _g = watch::enter("scan_back");
        let mut iter = self
            .db()
            .new_iterator(self.read_options(snapshot))
            .map_err(|e| err_string(&e))?;
        let mut out = vec![];
        iter.seek_to_last().map_err(|e| err_string(&e))?;
        while iter.is_valid() {
            let (k, v) = iter.current().unwrap();
            out.push((k.clone(), v.clone()));
            iter.prev();
            if out.len() % 256 == 0 {
                watch::tick();
            }
        }
        let status = iter.status();
        drop(iter);
        if let Some(e) = status {
            return Err(format!("iterator status: {}", err_string(&e)));
        }
        out.reverse();
        Ok(out)
    }

    pub fn descriptor(&self, d: DatabaseDescriptor) -> Result<String, String> {
        let _g = watch::enter("get_descriptor");
        self.db().get_descriptor(d).map_err(|e| err_string(&e))
    }

    /// Wait until no background work is scheduled and there is no immutable memtable.
    pub fn wait_quiescent(&self, timeout: Duration) -> bool {
        let deadline = Instant::now() + timeout;
        let mut calm = 0;
        loop {
            let p = self.db().verif_probe();
            let idle = !p.background_compaction_scheduled && !p.has_immutable_memtable;
            if idle {
                calm += 1;
                if calm >= 2 {
                    return true;
                }
            } else {
                calm = 0;
            }
            if Instant::now() >= deadline {
                return false;
            }
            watch::tick();
            std::thread::sleep(Duration::from_micros(300));
        }
    }

    pub fn bad_state(&self) -> Option<String> {
        self.db.as_ref().and_then(|db| db.verif_probe().bad_state)
    }

    /// files per level of the current version
    pub fn shape(&self) -> Vec<usize> {
        let mut levels = vec![0usize; 7];
        for f in self.db().verif_files() {
            if f.level < 7 {
                levels[f.level] += 1;
            }
        }
        levels
    }
}

pub fn apply_to_map(map: &mut Map, ops: &[WriteOp]) {
    for (k, v) in ops {
        match v {
            Some(v) => {
                map.insert(k.clone(), v.clone());
            }
            None => {
                map.remove(k);
            }
        }
    }
}

pub fn shape_string(levels: &[usize]) -> String {
    levels
        .iter()
        .map(|n| n.to_string())
        .collect::<Vec<_>>()
        .join(",")
}
