//! rdbmon — runtime monitors for raindb. One process runs one shard of one property's cases and
//! writes one JSON line per case; the `check` driver fans shards out and merges.

mod crash;
mod dbutil;
mod director;
mod gen;
mod history;
mod lin;
mod props;
mod session;
mod shapes;
mod report;
mod rng;
mod simfs;
mod watch;

use std::time::{Duration, Instant};

use serde_json::json;

fn arg(args: &[String], name: &str) -> Option<String> {
    args.iter()
        .position(|a| a == name)
        .and_then(|i| args.get(i + 1).cloned())
}

fn main() {
    let args: Vec<String> = std::env::args().collect();
    if args.len() < 3 {
        eprintln!("usage: rdbmon plan|run <prop> [--tier T] [--seed S] [--shard i] [--nshards n] [--start k] [--only k] [--out file] [--verbose]");
        std::process::exit(2);
    }
    let cmd = args[1].as_str();
    let prop = args[2].clone();
    let tier = arg(&args, "--tier").unwrap_or_else(|| "quick".into());
    let seed: u64 = arg(&args, "--seed").and_then(|s| s.parse().ok()).unwrap_or(0);
    let total = match props::plan(&prop, &tier) {
        Some(n) => n,
        None => {
            eprintln!("unknown property {prop}");
            std::process::exit(2);
        }
    };
    if cmd == "plan" {
        println!("{}", json!({"property": prop, "tier": tier, "cases": total}));
        return;
    }
    let shard: u64 = arg(&args, "--shard").and_then(|s| s.parse().ok()).unwrap_or(0);
    let nshards: u64 = arg(&args, "--nshards").and_then(|s| s.parse().ok()).unwrap_or(1);
    let start: u64 = arg(&args, "--start").and_then(|s| s.parse().ok()).unwrap_or(0);
    let only: Option<u64> = arg(&args, "--only").and_then(|s| s.parse().ok());
    let verbose = args.iter().any(|a| a == "--verbose");
    if let Some(out) = arg(&args, "--out") {
        watch::open_out(&out);
    }
    if let Ok(path) = std::env::var("RDBMON_LOG") {
        install_file_logger(&path);
    } else {
        watch::install_evaluating_logger();
    }
    watch::install_panic_hook(verbose);
    watch::set_stall_limit(Duration::from_secs(props::stall_limit_secs(&prop)));
    watch::start_watchdog();

    let cases: Vec<u64> = match only {
        Some(k) => vec![k],
        // rotate so that case families selected by `idx % n` are spread over all shards
        None => (start..total).filter(|k| (k + k / nshards) % nshards == shard).collect(),
    };
    for idx in cases {
        watch::take_panics();
        dbutil::new_case();
        watch::begin_case(idx);
        watch::emit(&json!({"t": "start", "case": idx}));
        let t0 = Instant::now();
        let p = prop.clone();
        let t = tier.clone();
        let result = std::panic::catch_unwind(move || props::run_case(&p, &t, seed, idx));
        let panics = watch::take_panics();
        let mut out = match result {
            Ok(out) => out,
            Err(_) => {
                let mut out = report::CaseOut::new();
                let me = std::thread::current().name().unwrap_or("main").to_string();
                let loc = panics
                    .iter()
                    .rev()
                    .find(|p| p.thread == me)
                    .map(|p| watch::short_location(&p.location))
                    .unwrap_or_default();
                if props::client_panic_is_violation(&prop) {
                    out.violate(
                        format!("{prop}/client-thread-panic/{loc}"),
                        json!({"panics": watch::panics_json(&panics)}),
                    );
                } else {
                    out.inconclusive(format!("client-thread-panic at {loc}"));
                }
                out
            }
        };
        let bg: Vec<_> = panics.iter().filter(|p| p.thread.starts_with("raindb-")).collect();
        if !bg.is_empty() {
            out.add("bg_thread_panics", bg.len() as u64);
        }
        watch::end_case();
        let mut line = out.to_json();
        line["t"] = json!("end");
        line["case"] = json!(idx);
        line["ms"] = json!(t0.elapsed().as_millis() as u64);
        line["panics"] = watch::panics_json(&panics);
        watch::emit(&line);
    }
    watch::emit(&json!({"t": "done", "shard": shard}));
}


/// Diagnostic only: raindb's own `log` output (debug level) to a file, one line per record.
struct FileLogger(parking_lot::Mutex<std::io::BufWriter<std::fs::File>>);

impl log::Log for FileLogger {
    fn enabled(&self, _: &log::Metadata) -> bool {
        true
    }
    fn log(&self, record: &log::Record) {
        use std::io::Write;
        let t = std::thread::current();
        let _ = writeln!(self.0.lock(), "[{}] {} {}", t.name().unwrap_or("?"), record.level(), record.args());
    }
    fn flush(&self) {
        use std::io::Write;
        let _ = self.0.lock().flush();
    }
}

fn install_file_logger(path: &str) {
    if let Ok(f) = std::fs::File::create(path) {
        let logger: &'static FileLogger = Box::leak(Box::new(FileLogger(parking_lot::Mutex::new(std::io::BufWriter::new(f)))));
        if log::set_logger(logger).is_ok() {
            log::set_max_level(log::LevelFilter::Debug);
        }
    }
}
