//! Seeded generators: key families, values, database configurations.

use std::collections::BTreeSet;

use crate::rng::Rng;

#[derive(Clone, Copy, Debug, PartialEq, Eq)]
pub enum KeyFamily {
    /// fixed-width printable keys `k0000`…
    Ascii,
    /// arbitrary bytes incl. empty key, 0x00 / 0xff runs, long shared prefixes
    Binary,
    /// keys of exactly one byte (and the empty key)
    OneByte,
    /// keys made of 0xff bytes of different lengths, plus neighbours
    FfRuns,
    /// long common prefix, keys differ only in the last byte(s)
    Prefixed,
    /// ragged keys over a tiny alphabet of adjacent bytes and unpadded decimal numbers: neighbours
    /// are often a prefix of each other or differ by exactly one in one byte while one of them goes
    /// on (`key19` / `key2`, `ab` / `abb` / `ac`) - the cases separator shortening has to get right
    Ragged,
}

impl KeyFamily {
    pub fn name(self) -> &'static str {
        match self {
            KeyFamily::Ascii => "ascii",
            KeyFamily::Binary => "binary",
            KeyFamily::OneByte => "one-byte",
            KeyFamily::FfRuns => "ff-runs",
            KeyFamily::Prefixed => "prefixed",
            KeyFamily::Ragged => "ragged",
        }
    }
    pub const ALL: [KeyFamily; 6] = [
        KeyFamily::Ascii,
        KeyFamily::Binary,
        KeyFamily::OneByte,
        KeyFamily::FfRuns,
        KeyFamily::Prefixed,
        KeyFamily::Ragged,
    ];
    pub fn pick(rng: &mut Rng) -> KeyFamily {
        match rng.below(10) {
            0..=3 => KeyFamily::Ascii,
            4..=5 => KeyFamily::Binary,
            6 => KeyFamily::OneByte,
            7 => KeyFamily::FfRuns,
            8 => KeyFamily::Ragged,
            _ => KeyFamily::Prefixed,
        }
    }
}

/// A pool of at most `n` distinct keys of the family, sorted.
pub fn key_pool(rng: &mut Rng, family: KeyFamily, n: usize) -> Vec<Vec<u8>> {
    let mut set: BTreeSet<Vec<u8>> = BTreeSet::new();
    match family {
        KeyFamily::Ascii => {
            let width = rng.range(3, 6) as usize;
            let stride = rng.range(1, 7);
            for i in 0..n as u64 {
                set.insert(format!("k{:0width$}", i * stride, width = width).into_bytes());
            }
        }
        KeyFamily::Binary => {
            set.insert(vec![]);
            set.insert(vec![0]);
            set.insert(vec![0, 0]);
            set.insert(vec![0xff]);
            set.insert(vec![0xff, 0xff]);
            set.insert(vec![0xff, 0x00]);
            set.insert(vec![0x00, 0xff]);
            let mut guard = 0;
            while set.len() < n && guard < n * 20 {
                guard += 1;
                let len = match rng.below(10) {
                    0 => 1,
                    1..=5 => rng.range(2, 6) as usize,
                    6..=8 => rng.range(6, 24) as usize,
                    _ => rng.range(24, 200) as usize,
                };
                let mut k = rng.bytes(len);
                if rng.chance(0.3) {
                    for b in k.iter_mut() {
                        if rng.chance(0.5) {
                            *b = if rng.chance(0.5) { 0xff } else { 0x00 };
                        }
                    }
                }
                set.insert(k);
            }
        }
        KeyFamily::OneByte => {
            set.insert(vec![]);
            let mut guard = 0;
            while set.len() < n.min(200) && guard < 5000 {
                guard += 1;
                let b = match rng.below(6) {
                    0 => 0x00,
                    1 => 0xff,
                    2 => 0xfe,
                    _ => rng.below(256) as u8,
                };
                set.insert(vec![b]);
            }
        }
        KeyFamily::FfRuns => {
            for len in 0..n.min(12) {
                set.insert(vec![0xff; len]);
            }
            let mut guard = 0;
            while set.len() < n && guard < n * 20 {
                guard += 1;
                let len = rng.range(1, 6) as usize;
                let mut k = vec![0xff; len];
                if rng.chance(0.7) {
                    let last = k.len() - 1;
                    k[last] = [0xfe, 0xfd, 0x00, 0x7f][rng.usize_below(4)];
                }
                if rng.chance(0.3) {
                    k.push(rng.below(256) as u8);
                }
                set.insert(k);
            }
        }
        KeyFamily::Ragged => {
            let decimal = rng.chance(0.5);
            let mut guard = 0;
            while set.len() < n && guard < n * 30 {
                guard += 1;
                if decimal {
                    let top = [30u64, 300, 3000][rng.usize_below(3)];
                    set.insert(format!("key{}", rng.below(top)).into_bytes());
                } else {
                    let base = [b'a', 0x00, 0xfd][rng.usize_below(3)];
                    let len = rng.range(1, 5) as usize;
                    set.insert((0..len).map(|_| base + rng.below(3) as u8).collect());
                }
            }
        }
        KeyFamily::Prefixed => {
            let plen = rng.range(8, 60) as usize;
            let prefix = rng.bytes(plen);
            let mut guard = 0;
            while set.len() < n && guard < n * 20 {
                guard += 1;
                let mut k = prefix.clone();
                let tail = rng.range(0, 3) as usize;
                k.extend(rng.bytes(tail));
                set.insert(k);
            }
        }
    }
    set.into_iter().take(n).collect()
}

#[derive(Clone, Copy, Debug, PartialEq, Eq)]
pub enum ValueMix {
    /// mostly 0–100 bytes
    Small,
    /// small, with occasional 1–5 KiB
    Medium,
    /// medium, with occasional values larger than a 32 KiB log block
    Large,
}

pub fn value(rng: &mut Rng, mix: ValueMix, tag: &str) -> Vec<u8> {
    let len = match mix {
        ValueMix::Small => match rng.below(20) {
            0 => 0,
            1 => 1,
            _ => rng.range(2, 100) as usize,
        },
        ValueMix::Medium => match rng.below(20) {
            0 => 0,
            1 => 1,
            2..=3 => rng.range(1000, 5000) as usize,
            _ => rng.range(2, 200) as usize,
        },
        ValueMix::Large => match rng.below(40) {
            0 => 0,
            1 => 1,
            2..=4 => rng.range(1000, 5000) as usize,
            5 => rng.range(33_000, 40_000) as usize,
            _ => rng.range(2, 300) as usize,
        },
    };
    tagged_value(rng, tag, len)
}

/// A value of exactly `len` bytes that starts with `tag` (as far as it fits) and continues with
/// pseudo-random bytes, so that values are unique and recognisable.
pub fn tagged_value(rng: &mut Rng, tag: &str, len: usize) -> Vec<u8> {
    let mut v = Vec::with_capacity(len);
    v.extend_from_slice(&tag.as_bytes()[..tag.len().min(len)]);
    if v.len() < len {
        let rest = len - v.len();
        v.extend(rng.bytes(rest));
    }
    v
}

#[derive(Clone, Copy, Debug, PartialEq, Eq)]
pub struct Config {
    pub memtable: usize,
    pub file: u64,
    pub block: usize,
    pub reuse: bool,
}

impl Config {
    pub fn describe(&self) -> String {
        format!(
            "mem={} file={} block={} reuse={}",
            self.memtable, self.file, self.block, self.reuse
        )
    }
    pub fn class(&self) -> String {
        let m = match self.memtable {
            0..=300 => "m-tiny",
            301..=2048 => "m-small",
            2049..=100_000 => "m-mid",
            _ => "m-big",
        };
        let f = match self.file {
            0..=600 => "f-tiny",
            601..=4096 => "f-small",
            4097..=100_000 => "f-mid",
            _ => "f-big",
        };
        let b = match self.block {
            0..=32 => "b-tiny",
            33..=512 => "b-small",
            _ => "b-std",
        };
        format!("{m}/{f}/{b}/{}", if self.reuse { "reuse" } else { "fresh" })
    }
}

/// Configurations biased towards sizes that force flushes and compactions.
pub fn config(rng: &mut Rng) -> Config {
    let memtable = *rng.pick(&[256usize, 256, 1024, 1024, 4096, 4096, 65_536, 4 * 1024 * 1024]);
    let file = *rng.pick(&[512u64, 512, 2048, 2048, 16_384, 2 * 1024 * 1024]);
    let block = *rng.pick(&[16usize, 64, 256, 256, 4096]);
    Config {
        memtable,
        file,
        block,
        reuse: rng.chance(0.5),
    }
}

pub fn tiny_config(rng: &mut Rng) -> Config {
    Config {
        memtable: *rng.pick(&[256usize, 512, 1024, 2048]),
        file: *rng.pick(&[512u64, 1024, 2048, 4096]),
        block: *rng.pick(&[16usize, 64, 256]),
        reuse: rng.chance(0.5),
    }
}
