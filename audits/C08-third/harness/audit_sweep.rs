//! Search harness: single-fault sweeps over seeded histories.
//! cargo test --offline --features verif --test audit_sweep -- --nocapture
mod common;

use std::collections::{BTreeMap, HashMap};
use std::sync::atomic::{AtomicUsize, Ordering};
use std::sync::{mpsc, Arc, Mutex};
use std::time::{Duration, Instant};

use common::*;
use raindb::{Batch, DbOptions, RainDBError, RainDbIterator, ReadOptions, WriteOptions, DB};

#[derive(Clone, Debug)]
enum Op {
    Put(usize, usize),
    Del(usize),
    Batch(Vec<(usize, Option<usize>)>),
    Compact(Option<usize>, Option<usize>),
    Reopen,
    Snap,
    Unsnap,
    Scan,
}

#[derive(Clone, Debug)]
struct Cfg {
    memtable: usize,
    file: u64,
    block: usize,
    reuse: bool,
    nkeys: usize,
    nops: usize,
    big_every: usize,
    keylen: usize,
}

struct Rng(u64);
impl Rng {
    fn next(&mut self) -> u64 {
        self.0 ^= self.0 << 13;
        self.0 ^= self.0 >> 7;
        self.0 ^= self.0 << 17;
        self.0
    }
    fn below(&mut self, n: usize) -> usize {
        (self.next() % n as u64) as usize
    }
}

fn key(cfg: &Cfg, i: usize) -> Vec<u8> {
    let mut k = format!("k{:04}", i).into_bytes();
    while k.len() < cfg.keylen {
        k.push(b'_');
    }
    k
}

fn value(op_id: usize, k: usize, len: usize) -> Vec<u8> {
    let mut v = format!("v{}:{}:", op_id, k).into_bytes();
    let mut x = (op_id as u64 + 1).wrapping_mul(0x9E3779B97F4A7C15) ^ k as u64;
    while v.len() < len {
        x ^= x << 13;
        x ^= x >> 7;
        x ^= x << 17;
        v.push((x & 0xff) as u8);
    }
    v
}

fn gen_history(seed: u64, cfg: &Cfg) -> Vec<Op> {
    let mut rng = Rng(seed.wrapping_mul(7919) + 17);
    for _ in 0..5 {
        rng.next();
    }
    let mut ops = vec![];
    for i in 0..cfg.nops {
        let r = rng.below(100);
        let len = if cfg.big_every > 0 && i % cfg.big_every == cfg.big_every - 1 {
            33_000 + rng.below(40_000)
        } else {
            50 + rng.below(500)
        };
        let op = if r < 55 {
            Op::Put(rng.below(cfg.nkeys), len)
        } else if r < 65 {
            Op::Del(rng.below(cfg.nkeys))
        } else if r < 78 {
            let n = 2 + rng.below(4);
            let mut items = vec![];
            let mut used = vec![];
            for _ in 0..n {
                let k = rng.below(cfg.nkeys);
                if used.contains(&k) {
                    continue;
                }
                used.push(k);
                if rng.below(4) == 0 {
                    items.push((k, None));
                } else {
                    items.push((k, Some(50 + rng.below(300))));
                }
            }
            Op::Batch(items)
        } else if r < 83 {
            let a = rng.below(cfg.nkeys);
            let b = rng.below(cfg.nkeys);
            match rng.below(3) {
                0 => Op::Compact(None, None),
                1 => Op::Compact(Some(a.min(b)), Some(a.max(b))),
                _ => Op::Compact(None, Some(a)),
            }
        } else if r < 89 {
            Op::Reopen
        } else if r < 92 {
            Op::Snap
        } else if r < 94 {
            Op::Unsnap
        } else {
            Op::Scan
        };
        ops.push(op);
    }
    ops
}

#[derive(Clone, Copy, Debug)]
struct Fault {
    k: u64,
    sticky: bool,
    partial: bool,
    mask: u32,
}

type Val = Option<Vec<u8>>;

struct Model {
    acked: BTreeMap<Vec<u8>, Val>,
    acked_at: HashMap<Vec<u8>, usize>,
    uncertain: Vec<(usize, Vec<(Vec<u8>, Val)>)>,
}

impl Model {
    fn allowed(&self, k: &[u8]) -> Vec<Val> {
        let mut out = vec![self.acked.get(k).cloned().unwrap_or(None)];
        let at = self.acked_at.get(k).copied();
        for (id, items) in &self.uncertain {
            if at.map_or(true, |a| *id > a) {
                for (ik, iv) in items {
                    if ik == k {
                        out.push(iv.clone());
                    }
                }
            }
        }
        out
    }
}

fn opts(cfg: &Cfg, fs: &Arc<SimFs>) -> DbOptions {
    DbOptions {
        db_path: "/db".to_string(),
        max_memtable_size: cfg.memtable,
        max_file_size: cfg.file,
        max_block_size: cfg.block,
        filesystem_provider: fs.clone(),
        create_if_missing: true,
        reuse_log_files: cfg.reuse,
        ..DbOptions::default()
    }
}

fn wait_idle(db: &DB) {
    let start = Instant::now();
    loop {
        let p = db.verif_probe();
        if !p.background_compaction_scheduled {
            return;
        }
        if start.elapsed() > Duration::from_secs(20) {
            panic!("background never idle");
        }
        std::thread::sleep(Duration::from_micros(150));
    }
}

fn short(v: &Val) -> String {
    match v {
        None => "<none>".to_string(),
        Some(v) => String::from_utf8_lossy(&v[..v.len().min(14)]).to_string(),
    }
}

fn check_gets(db: &DB, cfg: &Cfg, model: &Model, errs: &mut usize, ctx: &str) -> Result<(), String> {
    for i in 0..cfg.nkeys {
        let k = key(cfg, i);
        let got: Val = match db.get(ReadOptions::default(), &k) {
            Ok(v) => Some(v),
            Err(RainDBError::KeyNotFound) => None,
            Err(_) => {
                *errs += 1;
                continue;
            }
        };
        let allowed = model.allowed(&k);
        if !allowed.contains(&got) {
            return Err(format!(
                "{}: get({}) = {} but allowed {:?}",
                ctx,
                String::from_utf8_lossy(&k),
                short(&got),
                allowed.iter().map(short).collect::<Vec<_>>()
            ));
        }
    }
    Ok(())
}

fn check_scan(db: &DB, cfg: &Cfg, model: &Model, ctx: &str, must_succeed: bool) -> Result<(), String> {
    let mut iter = match db.new_iterator(ReadOptions::default()) {
        Ok(i) => i,
        Err(e) => {
            if must_succeed {
                return Err(format!("{}: new_iterator failed: {}", ctx, e));
            }
            return Ok(());
        }
    };
    let mut got: BTreeMap<Vec<u8>, Vec<u8>> = BTreeMap::new();
    let mut failed = iter.seek_to_first().is_err();
    if !failed {
        while iter.is_valid() {
            let (k, v) = iter.current().unwrap();
            got.insert(k.clone(), v.clone());
            iter.next();
        }
        if iter.status().is_some() {
            failed = true;
        }
    }
    if failed {
        if must_succeed {
            return Err(format!("{}: scan failed: {:?}", ctx, iter.status()));
        }
        return Ok(());
    }
    for i in 0..cfg.nkeys {
        let k = key(cfg, i);
        let g: Val = got.get(&k).cloned();
        let allowed = model.allowed(&k);
        if !allowed.contains(&g) {
            return Err(format!(
                "{}: scan[{}] = {} but allowed {:?}",
                ctx,
                String::from_utf8_lossy(&k),
                short(&g),
                allowed.iter().map(short).collect::<Vec<_>>()
            ));
        }
    }
    // backward scan
    let mut back: BTreeMap<Vec<u8>, Vec<u8>> = BTreeMap::new();
    if iter.seek_to_last().is_ok() {
        while iter.is_valid() {
            let (k, v) = iter.current().unwrap();
            back.insert(k.clone(), v.clone());
            iter.prev();
        }
        if iter.status().is_none() && back != got {
            return Err(format!("{}: backward scan differs from forward scan", ctx));
        }
    }
    Ok(())
}

struct Outcome {
    ops_counted: u64,
    fired: Vec<String>,
    read_errs: usize,
    write_errs: usize,
    open_errs: usize,
}

fn run_case(cfg: &Cfg, history: &[Op], fault: Option<Fault>, trace: bool) -> Result<Outcome, String> {
    let inj = Inject::new();
    let fs = SimFs::new(inj.clone());
    inj.trace.store(trace, Ordering::SeqCst);
    match fault {
        Some(f) => inj.arm(f.k, f.sticky, f.partial, f.mask),
        None => inj.arm(u64::MAX, false, false, K_ALL),
    }
    let mut model = Model { acked: BTreeMap::new(), acked_at: HashMap::new(), uncertain: vec![] };
    let mut read_errs = 0usize;
    let mut write_errs = 0usize;
    let mut open_errs = 0usize;
    let mut snaps: Vec<(raindb::Snapshot, BTreeMap<Vec<u8>, Val>, bool)> = vec![];

    let mut db: Option<DB> = None;
    let mut open_attempts = 0;
    while db.is_none() && open_attempts < 3 {
        match DB::open(opts(cfg, &fs)) {
            Ok(d) => db = Some(d),
            Err(_) => {
                open_errs += 1;
                open_attempts += 1;
            }
        }
    }

    if db.is_some() {
        for (op_id, op) in history.iter().enumerate() {
            let ctx = format!("op#{} {:?}", op_id, op);
            let t_op = Instant::now();
            let d = db.as_ref().unwrap();
            let mut items: Vec<(Vec<u8>, Val)> = vec![];
            match op {
                Op::Put(k, len) => items.push((key(cfg, *k), Some(value(op_id, *k, *len)))),
                Op::Del(k) => items.push((key(cfg, *k), None)),
                Op::Batch(list) => {
                    for (k, l) in list {
                        items.push((key(cfg, *k), l.map(|l| value(op_id, *k, l))));
                    }
                }
                _ => {}
            }
            match op {
                Op::Put(..) | Op::Del(..) | Op::Batch(..) => {
                    let res = match op {
                        Op::Put(..) => d.put(
                            WriteOptions::default(),
                            items[0].0.clone(),
                            items[0].1.clone().unwrap(),
                        ),
                        Op::Del(..) => d.delete(WriteOptions::default(), items[0].0.clone()),
                        _ => {
                            let mut b = Batch::new();
                            for (k, v) in &items {
                                match v {
                                    Some(v) => {
                                        b.add_put(k.clone(), v.clone());
                                    }
                                    None => {
                                        b.add_delete(k.clone());
                                    }
                                }
                            }
                            d.apply(WriteOptions::default(), b)
                        }
                    };
                    match res {
                        Ok(()) => {
                            for (k, v) in items {
                                model.acked.insert(k.clone(), v);
                                model.acked_at.insert(k, op_id);
                            }
                        }
                        Err(_) => {
                            write_errs += 1;
                            model.uncertain.push((op_id, items));
                        }
                    }
                }
                Op::Compact(a, b) => {
                    let ka = a.map(|a| key(cfg, a));
                    let kb = b.map(|b| key(cfg, b));
                    d.compact_range(ka.as_deref()..kb.as_deref());
                }
                Op::Snap => {
                    if snaps.len() < 3 {
                        let s = d.get_snapshot();
                        let exact = model.uncertain.is_empty();
                        snaps.push((s, model.acked.clone(), exact));
                    }
                }
                Op::Unsnap => {
                    if !snaps.is_empty() {
                        let (s, _, _) = snaps.remove(0);
                        d.release_snapshot(s);
                    }
                }
                Op::Scan => {
                    wait_idle(d);
                    check_scan(d, cfg, &model, &ctx, false)?;
                }
                Op::Reopen => {
                    wait_idle(d);
                    for (s, _, _) in snaps.drain(..) {
                        d.release_snapshot(s);
                    }
                    drop(db.take());
                    let mut attempts = 0;
                    while db.is_none() && attempts < 3 {
                        match DB::open(opts(cfg, &fs)) {
                            Ok(d) => db = Some(d),
                            Err(_) => {
                                open_errs += 1;
                                attempts += 1;
                            }
                        }
                    }
                    if db.is_none() {
                        break;
                    }
                }
            }
            let d = db.as_ref().unwrap();
            let t1 = t_op.elapsed();
            wait_idle(d);
            let t2 = t_op.elapsed();
            check_gets(d, cfg, &model, &mut read_errs, &ctx)?;
            if trace { println!("{} op {:?} idle {:?} gets {:?}", ctx.chars().take(30).collect::<String>(), t1, t2 - t1, t_op.elapsed() - t2); }
            // snapshot reads
            for (s, view, exact) in &snaps {
                if !*exact {
                    continue;
                }
                for i in (0..cfg.nkeys).step_by(3) {
                    let k = key(cfg, i);
                    let ro = ReadOptions { fill_cache: true, snapshot: Some(s.clone()) };
                    let got: Val = match d.get(ro, &k) {
                        Ok(v) => Some(v),
                        Err(RainDBError::KeyNotFound) => None,
                        Err(_) => continue,
                    };
                    let want = view.get(&k).cloned().unwrap_or(None);
                    if got != want {
                        return Err(format!(
                            "{}: snapshot get({}) = {} want {}",
                            ctx,
                            String::from_utf8_lossy(&k),
                            short(&got),
                            short(&want)
                        ));
                    }
                }
            }
        }
    }

    // Final phase: the fault is gone, reopen.
    if let Some(d) = db.as_ref() {
        wait_idle(d);
        for (s, _, _) in snaps.drain(..) {
            d.release_snapshot(s);
        }
    }
    let ops_counted = inj.counter.load(Ordering::SeqCst);
    let fired = inj.fired_desc.lock().unwrap().clone();
    drop(db.take());
    inj.disarm();
    let d = match DB::open(opts(cfg, &fs)) {
        Ok(d) => d,
        Err(e) => {
            return Err(format!(
                "final reopen without faults failed: {} ; files {:?}",
                e,
                fs.listing()
            ))
        }
    };
    let mut dummy = 0;
    check_gets(&d, cfg, &model, &mut dummy, "final")?;
    if dummy > 0 {
        return Err("final: get errors without faults".to_string());
    }
    check_scan(&d, cfg, &model, "final", true)?;
    // atomicity of uncertain batches
    for (idx, (id, items)) in model.uncertain.iter().enumerate() {
        let mut applied = 0;
        let mut not_applied = 0;
        for (k, v) in items {
            // skip keys touched later
            let later_acked = model.acked_at.get(k).map_or(false, |a| a > id);
            let later_unc = model.uncertain[idx + 1..]
                .iter()
                .any(|(_, it)| it.iter().any(|(ik, _)| ik == k));
            if later_acked || later_unc {
                continue;
            }
            let got: Val = match d.get(ReadOptions::default(), k) {
                Ok(v) => Some(v),
                Err(RainDBError::KeyNotFound) => None,
                Err(e) => return Err(format!("final get error {}", e)),
            };
            let prior = model.acked.get(k).cloned().unwrap_or(None);
            if *v == prior {
                continue; // ambiguous
            }
            if v.is_none() && model.uncertain[..idx].iter().any(|(_, it)| it.iter().any(|(ik, iv)| ik == k && iv.is_none())) {
                continue; // an earlier failed delete of the same key may have been applied
            }
            if got == *v {
                applied += 1;
            } else {
                not_applied += 1;
            }
        }
        if applied > 0 && not_applied > 0 {
            return Err(format!("final: failed batch op#{} applied partially", id));
        }
    }
    // second reopen to see that the recovered state is stable
    drop(d);
    let d = DB::open(opts(cfg, &fs)).map_err(|e| format!("second reopen failed: {}", e))?;
    check_scan(&d, cfg, &model, "final2", true)?;
    drop(d);

    Ok(Outcome { ops_counted, fired, read_errs, write_errs, open_errs })
}

fn run_with_timeout(
    cfg: Cfg,
    history: Vec<Op>,
    fault: Option<Fault>,
) -> Result<Outcome, String> {
    let (tx, rx) = mpsc::channel();
    std::thread::spawn(move || {
        let r = std::panic::catch_unwind(std::panic::AssertUnwindSafe(|| {
            run_case(&cfg, &history, fault, false)
        }));
        let r = match r {
            Ok(r) => r,
            Err(p) => Err(format!(
                "PANIC: {}",
                p.downcast_ref::<String>()
                    .cloned()
                    .or_else(|| p.downcast_ref::<&str>().map(|s| s.to_string()))
                    .unwrap_or_default()
            )),
        };
        let _ = tx.send(r);
    });
    match rx.recv_timeout(Duration::from_secs(60)) {
        Ok(r) => r,
        Err(_) => Err("TIMEOUT (hang)".to_string()),
    }
}

fn env_usize(name: &str, default: usize) -> usize {
    std::env::var(name).ok().and_then(|v| v.parse().ok()).unwrap_or(default)
}

fn configs() -> Vec<Cfg> {
    vec![
        Cfg { memtable: 4096, file: 4096, block: 256, reuse: true, nkeys: 24, nops: 70, big_every: 0, keylen: 5 },
        Cfg { memtable: 4096, file: 2048, block: 128, reuse: false, nkeys: 24, nops: 70, big_every: 0, keylen: 5 },
        Cfg { memtable: 100_000, file: 50_000, block: 1024, reuse: true, nkeys: 12, nops: 40, big_every: 5, keylen: 5 },
        Cfg { memtable: 2048, file: 1024, block: 64, reuse: true, nkeys: 40, nops: 90, big_every: 0, keylen: 40 },
    ]
}

#[test]
fn sweep() {
    let seed0 = env_usize("SEED0", 1);
    let nseeds = env_usize("NSEEDS", 2);
    let stride = env_usize("STRIDE", 1);
    let nthreads = env_usize("THREADS", 8);
    let cfg_sel = env_usize("CFG", 99);
    let mask = match std::env::var("MASK").as_deref() {
        Ok("all") => K_ALL,
        _ => K_LISTED,
    };

    let mut jobs: Vec<(usize, u64, Cfg, Vec<Op>, Fault)> = vec![];
    for (ci, cfg) in configs().into_iter().enumerate() {
        if cfg_sel != 99 && cfg_sel != ci {
            continue;
        }
        for seed in seed0..seed0 + nseeds {
            let history = gen_history(seed as u64, &cfg);
            // dry run to count ops
            let base = match run_with_timeout(cfg.clone(), history.clone(), Some(Fault { k: u64::MAX, sticky: false, partial: false, mask })) {
                Ok(o) => o,
                Err(e) => {
                    println!("BASELINE VIOLATION cfg{} seed{}: {}", ci, seed, e);
                    continue;
                }
            };
            println!("cfg{} seed{}: {} fs calls in baseline", ci, seed, base.ops_counted);
            let mut k = 0;
            while k < base.ops_counted + 5 {
                for (sticky, partial) in [(false, false), (true, false), (false, true)] {
                    jobs.push((ci, seed as u64, cfg.clone(), history.clone(), Fault { k, sticky, partial, mask }));
                }
                k += stride as u64;
            }
        }
    }
    println!("{} jobs", jobs.len());
    let jobs = Arc::new(Mutex::new(jobs));
    let violations = Arc::new(Mutex::new(Vec::<String>::new()));
    let done = Arc::new(AtomicUsize::new(0));
    let stats = Arc::new(Mutex::new((0usize, 0usize, 0usize, 0usize)));
    let mut handles = vec![];
    for _ in 0..nthreads {
        let jobs = jobs.clone();
        let violations = violations.clone();
        let done = done.clone();
        let stats = stats.clone();
        handles.push(std::thread::spawn(move || loop {
            let job = jobs.lock().unwrap().pop();
            let (ci, seed, cfg, history, fault) = match job {
                Some(j) => j,
                None => break,
            };
            match run_with_timeout(cfg, history, Some(fault)) {
                Ok(o) => {
                    let mut s = stats.lock().unwrap();
                    if !o.fired.is_empty() {
                        s.0 += 1;
                    }
                    s.1 += o.read_errs;
                    s.2 += o.write_errs;
                    s.3 += o.open_errs;
                }
                Err(e) => {
                    let msg = format!("VIOLATION cfg{} seed{} {:?}: {}", ci, seed, fault, e);
                    println!("{}", msg);
                    violations.lock().unwrap().push(msg);
                }
            }
            done.fetch_add(1, Ordering::SeqCst);
        }));
    }
    for h in handles {
        h.join().unwrap();
    }
    let s = stats.lock().unwrap();
    println!(
        "done {} cases; fired in {}; read errs {}, write errs {}, open errs {}; violations {}",
        done.load(Ordering::SeqCst),
        s.0,
        s.1,
        s.2,
        s.3,
        violations.lock().unwrap().len()
    );
}

#[test]
fn single() {
    // replay one case with a trace: CASE="cfg seed k sticky partial"
    let spec = match std::env::var("CASE") {
        Ok(s) => s,
        Err(_) => return,
    };
    let p: Vec<u64> = spec.split_whitespace().map(|x| x.parse().unwrap()).collect();
    let cfg = configs()[p[0] as usize].clone();
    let history = gen_history(p[1], &cfg);
    let mask = match std::env::var("MASK").as_deref() {
        Ok("all") => K_ALL,
        _ => K_LISTED,
    };
    let fault = Fault { k: p[2], sticky: p[3] != 0, partial: p[4] != 0, mask };
    for (i, op) in history.iter().enumerate() {
        println!("op#{} {:?}", i, op);
    }
    match run_case(&cfg, &history, Some(fault), true) {
        Ok(o) => println!("OK fired {:?} r{} w{} o{}", o.fired, o.read_errs, o.write_errs, o.open_errs),
        Err(e) => println!("VIOLATION {}", e),
    }
}
