//! Shared fault-injecting in-memory file system for the audit harness.
#![allow(dead_code)]

use std::collections::{BTreeMap, HashMap, HashSet};
use std::io::{self, Read, Seek, SeekFrom, Write};
use std::path::{Path, PathBuf};
use std::sync::atomic::{AtomicBool, AtomicU32, AtomicU64, Ordering};
use std::sync::{Arc, Mutex};

use raindb::fs::{FileLock, FileSystem, RandomAccessFile, ReadonlyRandomAccessFile, UnlockableFile};

pub const K_CREATE: u32 = 1 << 0;
pub const K_WRITE: u32 = 1 << 1;
pub const K_FLUSH: u32 = 1 << 2;
pub const K_RENAME: u32 = 1 << 3;
pub const K_REMOVE: u32 = 1 << 4;
pub const K_OPEN: u32 = 1 << 5;
pub const K_SIZE: u32 = 1 << 6;
pub const K_READ: u32 = 1 << 7;
pub const K_LIST: u32 = 1 << 8;
pub const K_ISDIR: u32 = 1 << 9;
pub const K_LOCK: u32 = 1 << 10;
pub const K_MKDIR: u32 = 1 << 11;
pub const K_LISTED: u32 = K_CREATE | K_WRITE | K_RENAME | K_REMOVE | K_OPEN | K_SIZE;
pub const K_ALL: u32 = 0xfff;

pub fn kind_name(kind: u32) -> &'static str {
    match kind {
        K_CREATE => "create",
        K_WRITE => "write",
        K_FLUSH => "flush",
        K_RENAME => "rename",
        K_REMOVE => "remove",
        K_OPEN => "open",
        K_SIZE => "size",
        K_READ => "read",
        K_LIST => "list",
        K_ISDIR => "isdir",
        K_LOCK => "lock",
        K_MKDIR => "mkdir",
        _ => "?",
    }
}

pub struct Inject {
    pub armed: AtomicBool,
    pub counter: AtomicU64,
    pub target: AtomicU64,
    pub sticky: AtomicBool,
    /// the failing write stores half of its bytes before failing
    pub partial: AtomicBool,
    pub mask: AtomicU32,
    pub fired: AtomicBool,
    pub fired_desc: Mutex<Vec<String>>,
    pub trace: AtomicBool,
    pub trace_log: Mutex<Vec<String>>,
}

impl Inject {
    pub fn new() -> Arc<Self> {
        Arc::new(Inject {
            armed: AtomicBool::new(false),
            counter: AtomicU64::new(0),
            target: AtomicU64::new(u64::MAX),
            sticky: AtomicBool::new(false),
            partial: AtomicBool::new(false),
            mask: AtomicU32::new(K_LISTED),
            fired: AtomicBool::new(false),
            fired_desc: Mutex::new(vec![]),
            trace: AtomicBool::new(false),
            trace_log: Mutex::new(vec![]),
        })
    }

    pub fn arm(&self, target: u64, sticky: bool, partial: bool, mask: u32) {
        self.counter.store(0, Ordering::SeqCst);
        self.target.store(target, Ordering::SeqCst);
        self.sticky.store(sticky, Ordering::SeqCst);
        self.partial.store(partial, Ordering::SeqCst);
        self.mask.store(mask, Ordering::SeqCst);
        self.fired.store(false, Ordering::SeqCst);
        self.fired_desc.lock().unwrap().clear();
        self.armed.store(true, Ordering::SeqCst);
    }

    pub fn disarm(&self) {
        self.armed.store(false, Ordering::SeqCst);
    }

    /// Returns Ok(false) for go ahead, Ok(true) for "fail after a partial effect", Err for fail.
    pub fn check(&self, kind: u32, path: &Path) -> io::Result<bool> {
        if !self.armed.load(Ordering::SeqCst) {
            return Ok(false);
        }
        if self.mask.load(Ordering::SeqCst) & kind == 0 {
            return Ok(false);
        }
        let idx = self.counter.fetch_add(1, Ordering::SeqCst);
        if self.trace.load(Ordering::SeqCst) {
            self.trace_log.lock().unwrap().push(format!(
                "{} {} {} [{:?}]",
                idx,
                kind_name(kind),
                path.display(),
                std::thread::current().name()
            ));
        }
        let target = self.target.load(Ordering::SeqCst);
        let hit = idx == target
            || (self.sticky.load(Ordering::SeqCst) && target != u64::MAX && idx > target);
        if hit {
            self.fired.store(true, Ordering::SeqCst);
            let mut d = self.fired_desc.lock().unwrap();
            if d.len() < 6 {
                d.push(format!(
                    "#{} {} {} [{:?}]",
                    idx,
                    kind_name(kind),
                    path.display(),
                    std::thread::current().name()
                ));
            }
            if idx == target && kind == K_WRITE && self.partial.load(Ordering::SeqCst) {
                return Ok(true);
            }
            return Err(io::Error::new(io::ErrorKind::Other, "injected fault"));
        }
        Ok(false)
    }
}

type Data = Arc<Mutex<Vec<u8>>>;

pub struct SimFs {
    pub files: Mutex<BTreeMap<PathBuf, Data>>,
    pub dirs: Mutex<HashSet<PathBuf>>,
    pub locks: Arc<Mutex<HashSet<PathBuf>>>,
    pub inj: Arc<Inject>,
}

impl SimFs {
    pub fn new(inj: Arc<Inject>) -> Arc<Self> {
        Arc::new(SimFs {
            files: Mutex::new(BTreeMap::new()),
            dirs: Mutex::new(HashSet::new()),
            locks: Arc::new(Mutex::new(HashSet::new())),
            inj,
        })
    }

    pub fn snapshot(&self) -> HashMap<PathBuf, Vec<u8>> {
        self.files
            .lock()
            .unwrap()
            .iter()
            .map(|(k, v)| (k.clone(), v.lock().unwrap().clone()))
            .collect()
    }

    pub fn listing(&self) -> Vec<(PathBuf, usize)> {
        self.files
            .lock()
            .unwrap()
            .iter()
            .map(|(k, v)| (k.clone(), v.lock().unwrap().len()))
            .collect()
    }

    pub fn restore(&self, snap: &HashMap<PathBuf, Vec<u8>>) {
        let mut files = self.files.lock().unwrap();
        files.clear();
        for (k, v) in snap {
            files.insert(k.clone(), Arc::new(Mutex::new(v.clone())));
        }
        self.locks.lock().unwrap().clear();
    }
}

struct Handle {
    path: PathBuf,
    data: Data,
    cursor: usize,
    inj: Arc<Inject>,
}

impl Read for Handle {
    fn read(&mut self, buf: &mut [u8]) -> io::Result<usize> {
        self.inj.check(K_READ, &self.path)?;
        let data = self.data.lock().unwrap();
        if self.cursor >= data.len() {
            return Ok(0);
        }
        let n = buf.len().min(data.len() - self.cursor);
        buf[..n].copy_from_slice(&data[self.cursor..self.cursor + n]);
        self.cursor += n;
        Ok(n)
    }
}

impl Seek for Handle {
    fn seek(&mut self, pos: SeekFrom) -> io::Result<u64> {
        self.inj.check(K_READ, &self.path)?;
        let len = self.data.lock().unwrap().len() as i64;
        let new = match pos {
            SeekFrom::Start(p) => p as i64,
            SeekFrom::End(d) => len + d,
            SeekFrom::Current(d) => self.cursor as i64 + d,
        };
        if new < 0 {
            return Err(io::Error::new(io::ErrorKind::InvalidInput, "negative seek"));
        }
        self.cursor = new as usize;
        Ok(new as u64)
    }
}

impl Write for Handle {
    fn write(&mut self, buf: &[u8]) -> io::Result<usize> {
        let partial = self.inj.check(K_WRITE, &self.path)?;
        let mut data = self.data.lock().unwrap();
        if partial {
            let half = buf.len() / 2;
            data.extend_from_slice(&buf[..half]);
            return Err(io::Error::new(io::ErrorKind::Other, "injected fault (partial)"));
        }
        data.extend_from_slice(buf);
        Ok(buf.len())
    }

    fn flush(&mut self) -> io::Result<()> {
        self.inj.check(K_FLUSH, &self.path)?;
        Ok(())
    }
}

impl ReadonlyRandomAccessFile for Handle {
    fn read_from(&self, buf: &mut [u8], offset: usize) -> io::Result<usize> {
        self.inj.check(K_READ, &self.path)?;
        let data = self.data.lock().unwrap();
        if offset >= data.len() {
            return Ok(0);
        }
        let n = buf.len().min(data.len() - offset);
        buf[..n].copy_from_slice(&data[offset..offset + n]);
        Ok(n)
    }

    fn len(&self) -> io::Result<u64> {
        self.inj.check(K_SIZE, &self.path)?;
        Ok(self.data.lock().unwrap().len() as u64)
    }
}

impl RandomAccessFile for Handle {
    fn append(&mut self, buf: &[u8]) -> io::Result<usize> {
        self.write(buf)
    }
}

struct SimLock {
    path: PathBuf,
    locks: Arc<Mutex<HashSet<PathBuf>>>,
}

impl UnlockableFile for SimLock {
    fn unlock(&self) -> io::Result<()> {
        self.locks.lock().unwrap().remove(&self.path);
        Ok(())
    }
}

impl FileSystem for SimFs {
    fn get_name(&self) -> String {
        "SimFs".to_string()
    }

    fn create_dir(&self, path: &Path) -> io::Result<()> {
        self.inj.check(K_MKDIR, path)?;
        self.dirs.lock().unwrap().insert(path.to_path_buf());
        Ok(())
    }

    fn create_dir_all(&self, path: &Path) -> io::Result<()> {
        self.inj.check(K_MKDIR, path)?;
        self.dirs.lock().unwrap().insert(path.to_path_buf());
        Ok(())
    }

    fn list_dir(&self, path: &Path) -> io::Result<Vec<PathBuf>> {
        self.inj.check(K_LIST, path)?;
        let mut out: Vec<PathBuf> = vec![];
        for k in self.files.lock().unwrap().keys() {
            if k.parent() == Some(path) {
                out.push(k.clone());
            }
        }
        for d in self.dirs.lock().unwrap().iter() {
            if d.parent() == Some(path) {
                out.push(d.clone());
            }
        }
        out.sort();
        Ok(out)
    }

    fn open_file(&self, path: &Path) -> io::Result<Box<dyn ReadonlyRandomAccessFile>> {
        self.inj.check(K_OPEN, path)?;
        match self.files.lock().unwrap().get(path) {
            Some(data) => Ok(Box::new(Handle {
                path: path.to_path_buf(),
                data: Arc::clone(data),
                cursor: 0,
                inj: Arc::clone(&self.inj),
            })),
            None => Err(io::Error::new(io::ErrorKind::NotFound, "no such file")),
        }
    }

    fn rename(&self, from: &Path, to: &Path) -> io::Result<()> {
        self.inj.check(K_RENAME, from)?;
        let mut files = self.files.lock().unwrap();
        match files.remove(from) {
            Some(data) => {
                files.insert(to.to_path_buf(), data);
                Ok(())
            }
            None => Err(io::Error::new(io::ErrorKind::NotFound, "no such file")),
        }
    }

    fn create_file(&self, path: &Path, append: bool) -> io::Result<Box<dyn RandomAccessFile>> {
        self.inj.check(K_CREATE, path)?;
        let mut files = self.files.lock().unwrap();
        let data = files
            .entry(path.to_path_buf())
            .or_insert_with(|| Arc::new(Mutex::new(vec![])))
            .clone();
        if !append {
            data.lock().unwrap().clear();
        }
        Ok(Box::new(Handle {
            path: path.to_path_buf(),
            data,
            cursor: 0,
            inj: Arc::clone(&self.inj),
        }))
    }

    fn remove_file(&self, path: &Path) -> io::Result<()> {
        self.inj.check(K_REMOVE, path)?;
        match self.files.lock().unwrap().remove(path) {
            Some(_) => Ok(()),
            None => Err(io::Error::new(io::ErrorKind::NotFound, "no such file")),
        }
    }

    fn remove_dir(&self, path: &Path) -> io::Result<()> {
        self.inj.check(K_REMOVE, path)?;
        self.dirs.lock().unwrap().remove(path);
        Ok(())
    }

    fn remove_dir_all(&self, path: &Path) -> io::Result<()> {
        self.inj.check(K_REMOVE, path)?;
        self.dirs.lock().unwrap().retain(|d| !d.starts_with(path));
        self.files.lock().unwrap().retain(|k, _| !k.starts_with(path));
        Ok(())
    }

    fn get_file_size(&self, path: &Path) -> io::Result<u64> {
        self.inj.check(K_SIZE, path)?;
        match self.files.lock().unwrap().get(path) {
            Some(data) => Ok(data.lock().unwrap().len() as u64),
            None => Err(io::Error::new(io::ErrorKind::NotFound, "no such file")),
        }
    }

    fn is_dir(&self, path: &Path) -> io::Result<bool> {
        self.inj.check(K_ISDIR, path)?;
        if self.dirs.lock().unwrap().contains(path) {
            return Ok(true);
        }
        if self.files.lock().unwrap().contains_key(path) {
            return Ok(false);
        }
        Err(io::Error::new(io::ErrorKind::NotFound, "no such path"))
    }

    fn lock_file(&self, path: &Path) -> io::Result<FileLock> {
        self.inj.check(K_LOCK, path)?;
        let mut locks = self.locks.lock().unwrap();
        if locks.contains(path) {
            return Err(io::Error::new(io::ErrorKind::WouldBlock, "already locked"));
        }
        locks.insert(path.to_path_buf());
        self.files
            .lock()
            .unwrap()
            .entry(path.to_path_buf())
            .or_insert_with(|| Arc::new(Mutex::new(vec![])));
        Ok(FileLock::new(Box::new(SimLock {
            path: path.to_path_buf(),
            locks: Arc::clone(&self.locks),
        })))
    }
}
