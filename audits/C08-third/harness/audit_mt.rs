//! Search harness: single faults under concurrent writers.
//! cargo test --release --offline --features verif --test audit_mt -- --nocapture
mod common;

use std::collections::HashMap;
use std::sync::atomic::{AtomicUsize, Ordering};
use std::sync::{mpsc, Arc, Mutex};
use std::time::Duration;

use common::*;
use raindb::{Batch, DbOptions, RainDBError, RainDbIterator, ReadOptions, WriteOptions, DB};

struct Rng(u64);
impl Rng {
    fn next(&mut self) -> u64 {
        self.0 ^= self.0 << 13;
        self.0 ^= self.0 >> 7;
        self.0 ^= self.0 << 17;
        self.0
    }
    fn below(&mut self, n: usize) -> usize {
        (self.next() % n as u64) as usize
    }
}

type Val = Option<Vec<u8>>;

fn opts(fs: &Arc<SimFs>, memtable: usize, reuse: bool) -> DbOptions {
    DbOptions {
        db_path: "/db".to_string(),
        max_memtable_size: memtable,
        max_file_size: 4096,
        max_block_size: 256,
        filesystem_provider: fs.clone(),
        create_if_missing: true,
        reuse_log_files: reuse,
        ..DbOptions::default()
    }
}

fn key(t: usize, i: usize) -> Vec<u8> {
    format!("t{}k{:03}", t, i).into_bytes()
}

fn value(t: usize, op: usize, i: usize, len: usize) -> Vec<u8> {
    let mut v = format!("v{}:{}:{}:", t, op, i).into_bytes();
    while v.len() < len {
        v.push(b'a' + ((v.len() * 7 + op) % 26) as u8);
    }
    v
}

struct ThreadLog {
    acked: HashMap<Vec<u8>, (usize, Val)>,
    uncertain: Vec<(usize, Vec<(Vec<u8>, Val)>)>,
}

fn allowed(log: &ThreadLog, k: &[u8]) -> Vec<Val> {
    let (at, v) = match log.acked.get(k) {
        Some((at, v)) => (Some(*at), v.clone()),
        None => (None, None),
    };
    let mut out = vec![v];
    for (id, items) in &log.uncertain {
        if at.map_or(true, |a| *id > a) {
            for (ik, iv) in items {
                if ik == k {
                    out.push(iv.clone());
                }
            }
        }
    }
    out
}

fn run_case(seed: u64, k: u64, sticky: bool, partial: bool, mask: u32) -> Result<(Vec<String>, usize), String> {
    let mut rng = Rng(seed.wrapping_mul(2654435761) + 99);
    for _ in 0..4 {
        rng.next();
    }
    let nthreads = 2 + rng.below(3);
    let nkeys = 10;
    let nops = 40;
    let memtable = [2048usize, 4096, 8192][rng.below(3)];
    let reuse = rng.below(2) == 0;
    let inj = Inject::new();
    let fs = SimFs::new(inj.clone());
    let db = Arc::new(DB::open(opts(&fs, memtable, reuse)).map_err(|e| format!("open: {}", e))?);
    // preload a little
    for t in 0..nthreads {
        for i in 0..nkeys {
            if (i + t) % 3 == 0 {
                db.put(WriteOptions::default(), key(t, i), value(t, 0, i, 100)).unwrap();
            }
        }
    }
    inj.arm(k, sticky, partial, mask);
    let write_errs = Arc::new(AtomicUsize::new(0));
    let mut handles = vec![];
    for t in 0..nthreads {
        let db = db.clone();
        let write_errs = write_errs.clone();
        let tseed = rng.next();
        handles.push(std::thread::spawn(move || -> Result<ThreadLog, String> {
            let mut rng = Rng(tseed | 1);
            let mut log = ThreadLog { acked: HashMap::new(), uncertain: vec![] };
            for i in 0..nkeys {
                if (i + t) % 3 == 0 {
                    log.acked.insert(key(t, i), (0, Some(value(t, 0, i, 100))));
                }
            }
            for op in 1..=nops {
                let r = rng.below(100);
                let mut items: Vec<(Vec<u8>, Val)> = vec![];
                if r < 60 {
                    let i = rng.below(nkeys);
                    items.push((key(t, i), Some(value(t, op, i, 60 + rng.below(400)))));
                } else if r < 70 {
                    let i = rng.below(nkeys);
                    items.push((key(t, i), None));
                } else if r < 92 {
                    let n = 2 + rng.below(3);
                    let mut used = vec![];
                    for _ in 0..n {
                        let i = rng.below(nkeys);
                        if used.contains(&i) {
                            continue;
                        }
                        used.push(i);
                        if rng.below(4) == 0 {
                            items.push((key(t, i), None));
                        } else {
                            items.push((key(t, i), Some(value(t, op, i, 60 + rng.below(200)))));
                        }
                    }
                } else if t == 0 {
                    db.compact_range(None..None);
                    continue;
                } else {
                    // scan own keys
                    if let Ok(mut it) = db.new_iterator(ReadOptions::default()) {
                        let start = key(t, 0);
                        let mut seen: HashMap<Vec<u8>, Vec<u8>> = HashMap::new();
                        let mut ok = it.seek(&start).is_ok();
                        while ok && it.is_valid() {
                            let (k, v) = it.current().unwrap();
                            if !k.starts_with(format!("t{}k", t).as_bytes()) {
                                break;
                            }
                            seen.insert(k.clone(), v.clone());
                            it.next();
                        }
                        if it.status().is_some() {
                            ok = false;
                        }
                        if ok {
                            for i in 0..nkeys {
                                let kk = key(t, i);
                                let got = seen.get(&kk).cloned();
                                if !allowed(&log, &kk).contains(&got) {
                                    return Err(format!(
                                        "thread {} op {} scan[{}] = {:?} not allowed",
                                        t,
                                        op,
                                        String::from_utf8_lossy(&kk),
                                        got.map(|v| String::from_utf8_lossy(&v[..12.min(v.len())]).to_string())
                                    ));
                                }
                            }
                        }
                    }
                    continue;
                }
                let mut b = Batch::new();
                for (k, v) in &items {
                    match v {
                        Some(v) => {
                            b.add_put(k.clone(), v.clone());
                        }
                        None => {
                            b.add_delete(k.clone());
                        }
                    }
                }
                match db.apply(WriteOptions::default(), b) {
                    Ok(()) => {
                        for (k, v) in items.iter() {
                            log.acked.insert(k.clone(), (op, v.clone()));
                        }
                    }
                    Err(_) => {
                        write_errs.fetch_add(1, Ordering::SeqCst);
                        log.uncertain.push((op, items.clone()));
                    }
                }
                // read-your-writes
                for (k, _) in &items {
                    let got: Val = match db.get(ReadOptions::default(), k) {
                        Ok(v) => Some(v),
                        Err(RainDBError::KeyNotFound) => None,
                        Err(_) => continue,
                    };
                    if !allowed(&log, k).contains(&got) {
                        return Err(format!(
                            "thread {} op {} get({}) = {:?} not allowed",
                            t,
                            op,
                            String::from_utf8_lossy(k),
                            got.map(|v| String::from_utf8_lossy(&v[..12.min(v.len())]).to_string())
                        ));
                    }
                }
            }
            Ok(log)
        }));
    }
    let mut logs = vec![];
    let mut first_err = None;
    for h in handles {
        match h.join() {
            Ok(Ok(l)) => logs.push(l),
            Ok(Err(e)) => first_err = Some(e),
            Err(_) => first_err = Some("thread panicked".to_string()),
        }
    }
    let fired = inj.fired_desc.lock().unwrap().clone();
    if let Some(e) = first_err {
        return Err(format!("{} (fired {:?})", e, fired));
    }
    // wait for the background to settle, then close
    loop {
        let p = db.verif_probe();
        if !p.background_compaction_scheduled {
            break;
        }
        std::thread::sleep(Duration::from_micros(200));
    }
    let db = Arc::try_unwrap(db).map_err(|_| "db still shared".to_string())?;
    drop(db);
    inj.disarm();
    let db = DB::open(opts(&fs, memtable, reuse))
        .map_err(|e| format!("final reopen failed: {} (fired {:?})", e, fired))?;
    for (t, log) in logs.iter().enumerate() {
        for i in 0..nkeys {
            let kk = key(t, i);
            let got: Val = match db.get(ReadOptions::default(), &kk) {
                Ok(v) => Some(v),
                Err(RainDBError::KeyNotFound) => None,
                Err(e) => return Err(format!("final get error {}", e)),
            };
            if !allowed(log, &kk).contains(&got) {
                return Err(format!(
                    "final get({}) = {:?} not allowed; acked {:?} (fired {:?})",
                    String::from_utf8_lossy(&kk),
                    got.map(|v| String::from_utf8_lossy(&v[..12.min(v.len())]).to_string()),
                    log.acked.get(&kk).map(|(a, v)| (a, v.as_ref().map(|v| String::from_utf8_lossy(&v[..12.min(v.len())]).to_string()))),
                    fired
                ));
            }
        }
        // atomicity of failed batches
        for (idx, (id, items)) in log.uncertain.iter().enumerate() {
            let mut applied = 0;
            let mut not_applied = 0;
            for (k, v) in items {
                let later_acked = log.acked.get(k).map_or(false, |(a, _)| a > id);
                let later_unc = log.uncertain[idx + 1..].iter().any(|(_, it)| it.iter().any(|(ik, _)| ik == k));
                if later_acked || later_unc {
                    continue;
                }
                let prior = log.acked.get(k).map(|(_, v)| v.clone()).unwrap_or(None);
                if *v == prior {
                    continue;
                }
                if std::env::var("STRICT").is_err() && v.is_none() && log.uncertain[..idx].iter().any(|(_, it)| it.iter().any(|(ik, iv)| ik == k && iv.is_none())) {
                    continue; // an earlier failed delete of the same key may have been applied
                }
                let got: Val = match db.get(ReadOptions::default(), k) {
                    Ok(v) => Some(v),
                    Err(RainDBError::KeyNotFound) => None,
                    Err(e) => return Err(format!("final get error {}", e)),
                };
                if got == *v {
                    applied += 1;
                } else {
                    not_applied += 1;
                }
            }
            if applied > 0 && not_applied > 0 {
                let mut detail = String::new();
                for (k, v) in items {
                    let got = db.get(ReadOptions::default(), k).ok();
                    let touching: Vec<(usize, bool)> = log.uncertain.iter().filter(|(_, it)| it.iter().any(|(ik, _)| ik == k)).map(|(i, it)| (*i, it.iter().any(|(ik, iv)| ik == k && iv.is_none()))).collect();
                    detail += &format!("\n   touching {:?}", touching);
                    detail += &format!(
                        "\n   {} batch={:?} final={:?} acked={:?}",
                        String::from_utf8_lossy(k),
                        v.as_ref().map(|v| String::from_utf8_lossy(&v[..12.min(v.len())]).to_string()),
                        got.map(|v| String::from_utf8_lossy(&v[..12.min(v.len())]).to_string()),
                        log.acked.get(k).map(|(a, v)| (a, v.as_ref().map(|v| String::from_utf8_lossy(&v[..12.min(v.len())]).to_string())))
                    );
                }
                let unc: Vec<usize> = log.uncertain.iter().map(|(i, _)| *i).collect();
                return Err(format!("failed batch (thread {} op {}) applied partially; fired {:?}; uncertain ops {:?}{}", t, id, fired, unc, detail));
            }
        }
    }
    Ok((fired, write_errs.load(Ordering::SeqCst)))
}

fn env_usize(name: &str, default: usize) -> usize {
    std::env::var(name).ok().and_then(|v| v.parse().ok()).unwrap_or(default)
}

#[test]
fn mt_single() {
    let spec = match std::env::var("CASE") {
        Ok(s) => s,
        Err(_) => return,
    };
    let p: Vec<u64> = spec.split_whitespace().map(|x| x.parse().unwrap()).collect();
    let mask = match std::env::var("MASK").as_deref() {
        Ok("all") => K_ALL,
        _ => K_LISTED,
    };
    for _ in 0..p[4] {
        println!("{:?}", run_case(p[0], p[1], p[2] != 0, p[3] != 0, mask));
    }
}

#[test]
fn mt_sweep() {
    let ncases = env_usize("NCASES", 300);
    let seed0 = env_usize("SEED0", 1);
    let nthreads = env_usize("THREADS", 8);
    let mask = match std::env::var("MASK").as_deref() {
        Ok("all") => K_ALL,
        _ => K_LISTED,
    };
    let next = Arc::new(AtomicUsize::new(0));
    let stats = Arc::new(Mutex::new((0usize, 0usize, 0usize)));
    let mut hs = vec![];
    for _ in 0..nthreads {
        let next = next.clone();
        let stats = stats.clone();
        hs.push(std::thread::spawn(move || loop {
            let c = next.fetch_add(1, Ordering::SeqCst);
            if c >= ncases {
                break;
            }
            let seed = (seed0 + c) as u64;
            let mut rng = Rng(seed.wrapping_mul(0x9E3779B97F4A7C15) | 1);
            rng.next();
            let k = rng.below(900) as u64;
            let mode = rng.below(3);
            let (sticky, partial) = [(false, false), (true, false), (false, true)][mode];
            let (tx, rx) = mpsc::channel();
            std::thread::spawn(move || {
                let r = std::panic::catch_unwind(|| run_case(seed, k, sticky, partial, mask));
                let _ = tx.send(match r {
                    Ok(r) => r,
                    Err(_) => Err("PANIC".to_string()),
                });
            });
            match rx.recv_timeout(Duration::from_secs(90)) {
                Ok(Ok((fired, werrs))) => {
                    let mut s = stats.lock().unwrap();
                    s.0 += 1;
                    if !fired.is_empty() {
                        s.1 += 1;
                    }
                    s.2 += werrs;
                }
                Ok(Err(e)) => println!("VIOLATION seed {} k {} sticky {} partial {}: {}", seed, k, sticky, partial, e),
                Err(_) => println!("TIMEOUT seed {} k {} sticky {} partial {}", seed, k, sticky, partial),
            }
        }));
    }
    for h in hs {
        h.join().unwrap();
    }
    let s = stats.lock().unwrap();
    println!("mt: {} cases ok, fault fired in {}, write errors {}", s.0, s.1, s.2);
}
