// C08 audit demonstration: DB::compact_range swallows an I/O failure.
//
// Run (from the root of the raindb checkout, file placed at tests/audit_demo.rs):
//
//     cargo test --offline --features verif --test audit_demo -- --nocapture
//
// (`--features verif` is only needed for `raindb::fs::UnlockableFile`, which a FileSystem
// implementation outside of the crate needs for `lock_file`, and for `DB::verif_probe`.)
//
// What it shows: a single, transient failure of one `FileSystem::create_file` call (the creation
// of the new WAL) during `DB::compact_range(None..None)` makes the call return without having
// flushed the memtable and without anything reporting the failure: `compact_range` returns `()`,
// the sticky error state is not set and the next write succeeds. The failure is only written to
// the log (`log::warn!` in `DB::compact_range`). The second test shows the same for a persistent
// failure of table building: `compact_range` returns normally although the database went into its
// error state during the call.
//
// Deterministic: single threaded except for the compaction thread, which is not involved in the
// first test at all (the WAL is created by the calling thread under the database mutex).

use std::collections::{BTreeMap, HashSet};
use std::io::{self, Read, Seek, SeekFrom, Write};
use std::path::{Path, PathBuf};
use std::sync::atomic::{AtomicBool, AtomicU64, Ordering};
use std::sync::{Arc, Mutex};

use raindb::db::DatabaseDescriptor;
use raindb::fs::{FileLock, FileSystem, RandomAccessFile, ReadonlyRandomAccessFile, UnlockableFile};
use raindb::{DbOptions, ReadOptions, WriteOptions, DB};

/// Which calls fail.
#[derive(Default)]
struct Faults {
    /// Fail the next `create_file` call whose path ends with this extension, once.
    fail_next_create_of: Mutex<Option<&'static str>>,
    /// Fail every `create_file` call whose path ends with this extension.
    fail_every_create_of: Mutex<Option<&'static str>>,
    /// Number of injected failures.
    injected: AtomicU64,
}

type Data = Arc<Mutex<Vec<u8>>>;

/// A plain in-memory file system: every handle has its own cursor, writes append.
struct SimFs {
    files: Mutex<BTreeMap<PathBuf, Data>>,
    dirs: Mutex<HashSet<PathBuf>>,
    locked: Arc<Mutex<HashSet<PathBuf>>>,
    faults: Arc<Faults>,
}

struct Handle {
    data: Data,
    cursor: usize,
}

impl Read for Handle {
    fn read(&mut self, buf: &mut [u8]) -> io::Result<usize> {
        let data = self.data.lock().unwrap();
        if self.cursor >= data.len() {
            return Ok(0);
        }
        let n = buf.len().min(data.len() - self.cursor);
        buf[..n].copy_from_slice(&data[self.cursor..self.cursor + n]);
        self.cursor += n;
        Ok(n)
    }
}

impl Seek for Handle {
    fn seek(&mut self, pos: SeekFrom) -> io::Result<u64> {
        let len = self.data.lock().unwrap().len() as i64;
        let new = match pos {
            SeekFrom::Start(p) => p as i64,
            SeekFrom::End(d) => len + d,
            SeekFrom::Current(d) => self.cursor as i64 + d,
        };
        self.cursor = new.max(0) as usize;
        Ok(self.cursor as u64)
    }
}

impl Write for Handle {
    fn write(&mut self, buf: &[u8]) -> io::Result<usize> {
        self.data.lock().unwrap().extend_from_slice(buf);
        Ok(buf.len())
    }

    fn flush(&mut self) -> io::Result<()> {
        Ok(())
    }
}

impl ReadonlyRandomAccessFile for Handle {
    fn read_from(&self, buf: &mut [u8], offset: usize) -> io::Result<usize> {
        let data = self.data.lock().unwrap();
        if offset >= data.len() {
            return Ok(0);
        }
        let n = buf.len().min(data.len() - offset);
        buf[..n].copy_from_slice(&data[offset..offset + n]);
        Ok(n)
    }

    fn len(&self) -> io::Result<u64> {
        Ok(self.data.lock().unwrap().len() as u64)
    }
}

impl RandomAccessFile for Handle {
    fn append(&mut self, buf: &[u8]) -> io::Result<usize> {
        self.write(buf)
    }
}

struct SimLock {
    path: PathBuf,
    locked: Arc<Mutex<HashSet<PathBuf>>>,
}

impl UnlockableFile for SimLock {
    fn unlock(&self) -> io::Result<()> {
        self.locked.lock().unwrap().remove(&self.path);
        Ok(())
    }
}

fn not_found() -> io::Error {
    io::Error::new(io::ErrorKind::NotFound, "no such file")
}

impl FileSystem for SimFs {
    fn get_name(&self) -> String {
        "SimFs".to_string()
    }

    fn create_dir(&self, path: &Path) -> io::Result<()> {
        self.dirs.lock().unwrap().insert(path.to_path_buf());
        Ok(())
    }

    fn create_dir_all(&self, path: &Path) -> io::Result<()> {
        self.dirs.lock().unwrap().insert(path.to_path_buf());
        Ok(())
    }

    fn list_dir(&self, path: &Path) -> io::Result<Vec<PathBuf>> {
        let mut out: Vec<PathBuf> = vec![];
        for k in self.files.lock().unwrap().keys() {
            if k.parent() == Some(path) {
                out.push(k.clone());
            }
        }
        for d in self.dirs.lock().unwrap().iter() {
            if d.parent() == Some(path) {
                out.push(d.clone());
            }
        }
        out.sort();
        Ok(out)
    }

    fn open_file(&self, path: &Path) -> io::Result<Box<dyn ReadonlyRandomAccessFile>> {
        match self.files.lock().unwrap().get(path) {
            Some(data) => Ok(Box::new(Handle {
                data: Arc::clone(data),
                cursor: 0,
            })),
            None => Err(not_found()),
        }
    }

    fn rename(&self, from: &Path, to: &Path) -> io::Result<()> {
        let mut files = self.files.lock().unwrap();
        let data = files.remove(from).ok_or_else(not_found)?;
        files.insert(to.to_path_buf(), data);
        Ok(())
    }

    fn create_file(&self, path: &Path, append: bool) -> io::Result<Box<dyn RandomAccessFile>> {
        let name = path.to_string_lossy().to_string();
        let mut fail = false;
        {
            let mut once = self.faults.fail_next_create_of.lock().unwrap();
            if once.map_or(false, |ext| name.ends_with(ext)) {
                *once = None;
                fail = true;
            }
            let every = self.faults.fail_every_create_of.lock().unwrap();
            if every.map_or(false, |ext| name.ends_with(ext)) {
                fail = true;
            }
        }
        if fail {
            self.faults.injected.fetch_add(1, Ordering::SeqCst);
            println!("SimFs: injected failure of create_file({})", name);
            return Err(io::Error::new(io::ErrorKind::Other, "injected fault"));
        }

        let mut files = self.files.lock().unwrap();
        let data = files
            .entry(path.to_path_buf())
            .or_insert_with(|| Arc::new(Mutex::new(vec![])))
            .clone();
        if !append {
            data.lock().unwrap().clear();
        }
        Ok(Box::new(Handle { data, cursor: 0 }))
    }

    fn remove_file(&self, path: &Path) -> io::Result<()> {
        self.files
            .lock()
            .unwrap()
            .remove(path)
            .map(|_| ())
            .ok_or_else(not_found)
    }

    fn remove_dir(&self, path: &Path) -> io::Result<()> {
        self.dirs.lock().unwrap().remove(path);
        Ok(())
    }

    fn remove_dir_all(&self, path: &Path) -> io::Result<()> {
        self.dirs.lock().unwrap().retain(|d| !d.starts_with(path));
        self.files.lock().unwrap().retain(|k, _| !k.starts_with(path));
        Ok(())
    }

    fn get_file_size(&self, path: &Path) -> io::Result<u64> {
        match self.files.lock().unwrap().get(path) {
            Some(data) => Ok(data.lock().unwrap().len() as u64),
            None => Err(not_found()),
        }
    }

    fn is_dir(&self, path: &Path) -> io::Result<bool> {
        if self.dirs.lock().unwrap().contains(path) {
            return Ok(true);
        }
        if self.files.lock().unwrap().contains_key(path) {
            return Ok(false);
        }
        Err(not_found())
    }

    fn lock_file(&self, path: &Path) -> io::Result<FileLock> {
        let mut locked = self.locked.lock().unwrap();
        if !locked.insert(path.to_path_buf()) {
            return Err(io::Error::new(io::ErrorKind::WouldBlock, "already locked"));
        }
        self.files
            .lock()
            .unwrap()
            .entry(path.to_path_buf())
            .or_insert_with(|| Arc::new(Mutex::new(vec![])));
        Ok(FileLock::new(Box::new(SimLock {
            path: path.to_path_buf(),
            locked: Arc::clone(&self.locked),
        })))
    }
}

fn new_fs() -> (Arc<SimFs>, Arc<Faults>) {
    let faults = Arc::new(Faults::default());
    let fs = Arc::new(SimFs {
        files: Mutex::new(BTreeMap::new()),
        dirs: Mutex::new(HashSet::new()),
        locked: Arc::new(Mutex::new(HashSet::new())),
        faults: Arc::clone(&faults),
    });
    (fs, faults)
}

fn options(fs: &Arc<SimFs>) -> DbOptions {
    DbOptions {
        db_path: "/db".to_string(),
        filesystem_provider: fs.clone(),
        create_if_missing: true,
        ..DbOptions::default()
    }
}

fn num_table_files(db: &DB) -> usize {
    (0..7)
        .map(|level| {
            db.get_descriptor(DatabaseDescriptor::NumFilesAtLevel(level))
                .unwrap()
                .parse::<usize>()
                .unwrap()
        })
        .sum()
}

fn fill(db: &DB) {
    for i in 0..50 {
        db.put(
            WriteOptions::default(),
            format!("key{:03}", i).into_bytes(),
            format!("value{:03}", i).into_bytes(),
        )
        .unwrap();
    }
}

static WARMED: AtomicBool = AtomicBool::new(false);

/// Control: without a fault `compact_range(None..None)` moves the memtable into a table file.
fn control() {
    if WARMED.swap(true, Ordering::SeqCst) {
        return;
    }
    let (fs, _faults) = new_fs();
    let db = DB::open(options(&fs)).unwrap();
    fill(&db);
    assert_eq!(num_table_files(&db), 0);
    db.compact_range(None..None);
    assert!(
        num_table_files(&db) >= 1,
        "control: compact_range over the whole key space flushes the memtable into a table file"
    );
}

#[test]
fn compact_range_swallows_a_transient_wal_creation_failure() {
    control();

    let (fs, faults) = new_fs();
    let db = DB::open(options(&fs)).unwrap();
    fill(&db);
    assert_eq!(num_table_files(&db), 0, "everything is in the memtable");

    // One transient failure: the next creation of a WAL file fails, once.
    *faults.fail_next_create_of.lock().unwrap() = Some(".log");
    db.compact_range(None..None); // returns (): there is no way for it to report anything
    assert_eq!(
        faults.injected.load(Ordering::SeqCst),
        1,
        "the fault hit a file system call made by compact_range"
    );

    let tables = num_table_files(&db);
    let bad_state = db.verif_probe().bad_state;
    let next_write = db.put(WriteOptions::default(), b"after".to_vec(), b"x".to_vec());
    println!(
        "after compact_range with one failed create_file: table files = {}, sticky error = {:?}, \
        next write = {:?}",
        tables, bad_state, next_write
    );

    // C08: the call returned an error (impossible, it returns `()`) or has taken full effect, or
    // at the very least the failure is reported by the database in some way. None of this holds:
    // the memtable was not flushed, no error state is set, the next write succeeds.
    assert!(
        tables >= 1 || bad_state.is_some() || next_write.is_err(),
        "compact_range(None..None) returned normally, but a file system call it made failed, it \
        did not flush the memtable (0 table files, the control run has 1) and the failure was \
        reported nowhere (no error state, the next write succeeds): the I/O failure was swallowed"
    );
}

#[test]
fn compact_range_returns_normally_although_the_flush_failed_and_the_database_is_broken() {
    control();

    let (fs, faults) = new_fs();
    let db = DB::open(options(&fs)).unwrap();
    fill(&db);

    // Persistent failure of table building: no table file can be created any more.
    *faults.fail_every_create_of.lock().unwrap() = Some(".rdb");
    db.compact_range(None..None); // returns ()
    let injected = faults.injected.load(Ordering::SeqCst);
    let tables = num_table_files(&db);
    let bad_state = db.verif_probe().bad_state;
    println!(
        "after compact_range with failing table creation: injected = {}, table files = {}, sticky \
        error = {:?}",
        injected, tables, bad_state
    );
    // reads still work
    assert_eq!(
        db.get(ReadOptions::default(), b"key007").unwrap(),
        b"value007".to_vec()
    );

    // The database is in its sticky error state because of what happened during the call (every
    // later write fails), the compaction that was asked for did not happen, yet the call gave its
    // caller nothing.
    assert!(
        injected == 0 || tables >= 1 || bad_state.is_none(),
        "compact_range(None..None) returned normally although the memtable flush it started \
        failed ({} injected failures), no table file was produced and the database is now in its \
        error state ({:?}); the caller of compact_range is told nothing",
        injected,
        bad_state
    );
}
