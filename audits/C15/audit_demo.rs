//! Audit demonstrations for the property
//! "Corrupted files are detected, never served as data".
//!
//! Every test builds a small database through the public API on the real file system (in a scratch
//! directory under `target/`), closes it, alters ONE byte (in fact one bit) of one persistent file,
//! re-opens the database and reads everything back.
//!
//! A test fails if and only if the re-opened database *successfully* returns something that the
//! property forbids: a value that was never written for that key, a stale value, a lost key or an
//! invented key, without any error. (For the write-ahead log, losing the damaged record is allowed.)
//!
//! Run with: `cargo test --offline --test audit_demo`

use std::collections::BTreeMap;
use std::fs;
use std::path::{Path, PathBuf};

use raindb::{DbOptions, RainDBError, RainDbIterator, ReadOptions, WriteOptions, DB};

// ---------------------------------------------------------------------------------------------
// helpers
// ---------------------------------------------------------------------------------------------

fn scratch(name: &str) -> PathBuf {
    let path = Path::new(env!("CARGO_MANIFEST_DIR"))
        .join("target")
        .join("audit-demo-tmp")
        .join(name);
    let _ = fs::remove_dir_all(&path);
    fs::create_dir_all(&path).unwrap();
    path
}

fn options(dir: &Path) -> DbOptions {
    DbOptions {
        db_path: dir.to_str().unwrap().to_owned(),
        create_if_missing: true,
        ..DbOptions::default()
    }
}

type Image = Vec<(String, Vec<u8>)>;

/// Read every file below `dir` (relative path, contents).
fn take_image(dir: &Path) -> Image {
    fn walk(root: &Path, dir: &Path, out: &mut Image) {
        for entry in fs::read_dir(dir).unwrap() {
            let entry = entry.unwrap();
            if entry.file_type().unwrap().is_dir() {
                walk(root, &entry.path(), out);
            } else {
                let relative = entry.path().strip_prefix(root).unwrap().to_owned();
                out.push((
                    relative.to_str().unwrap().to_owned(),
                    fs::read(entry.path()).unwrap(),
                ));
            }
        }
    }

    let mut out = vec![];
    walk(dir, dir, &mut out);
    out.sort();
    out
}

/// Make `dir` contain exactly the files of `image`.
fn restore(dir: &Path, image: &Image) {
    let _ = fs::remove_dir_all(dir);
    fs::create_dir_all(dir).unwrap();
    for (name, bytes) in image {
        let path = dir.join(name);
        fs::create_dir_all(path.parent().unwrap()).unwrap();
        fs::write(path, bytes).unwrap();
    }
}

fn the_file<'a>(image: &'a Image, pattern: &str) -> &'a (String, Vec<u8>) {
    let matches: Vec<_> = image.iter().filter(|(n, _)| n.contains(pattern)).collect();
    assert_eq!(
        matches.len(),
        1,
        "harness: expected exactly one file matching {pattern:?}, found {:?}",
        matches.iter().map(|(n, _)| n).collect::<Vec<_>>()
    );
    matches[0]
}

const LOG_HEADER: usize = 7;
const LOG_BLOCK: usize = 32 * 1024;

/// The physical records of a file in the log format: (offset of the header, payload length, type).
fn physical_records(bytes: &[u8]) -> Vec<(usize, usize, u8)> {
    let mut out = vec![];
    let mut offset = 0usize;
    while offset + LOG_HEADER <= bytes.len() {
        let left_in_block = LOG_BLOCK - (offset % LOG_BLOCK);
        if left_in_block < LOG_HEADER {
            offset += left_in_block;
            continue;
        }
        let length = u16::from_le_bytes([bytes[offset + 4], bytes[offset + 5]]) as usize;
        out.push((offset, length, bytes[offset + 6]));
        offset += LOG_HEADER + length;
    }
    assert_eq!(offset, bytes.len(), "harness: the log file does not parse cleanly");
    out
}

/// CRC-32C (Castagnoli / iSCSI), bitwise.
fn crc32c(data: &[u8]) -> u32 {
    let mut crc: u32 = 0xffff_ffff;
    for byte in data {
        crc ^= *byte as u32;
        for _ in 0..8 {
            crc = if crc & 1 == 1 {
                (crc >> 1) ^ 0x82f6_3b78
            } else {
                crc >> 1
            };
        }
    }
    !crc
}

/// The masking RainDB (and LevelDB) applies to stored checksums.
fn mask(crc: u32) -> u32 {
    ((crc >> 15) | (crc << 17)).wrapping_add(0xa282_ead8)
}

/// Serialized write batch with a single `put` of short key/value (lengths < 128).
fn single_put_batch(sequence: u64, key: &[u8], value: &[u8]) -> Vec<u8> {
    assert!(key.len() < 128 && value.len() < 128);
    let mut out = vec![];
    out.extend_from_slice(&sequence.to_le_bytes());
    out.push(1); // number of operations (varint)
    out.push(1); // Operation::Put
    out.push(key.len() as u8);
    out.extend_from_slice(key);
    out.push(value.len() as u8);
    out.extend_from_slice(value);
    out
}

/// What a re-opened database says.
#[derive(Debug)]
struct View {
    /// get() per probed key: Ok(Some(v)), Ok(None) for "not found", Err for a read error.
    gets: BTreeMap<Vec<u8>, Result<Option<Vec<u8>>, String>>,
    /// Full forward scan, or the error reported by the iterator.
    scan: Result<Vec<(Vec<u8>, Vec<u8>)>, String>,
}

/// Open the database and read everything. `Err` is a failed open.
fn open_and_read(opts: &DbOptions, probe_keys: &[&[u8]]) -> Result<View, String> {
    let db = DB::open(opts.clone()).map_err(|err| err.to_string())?;

    let mut gets = BTreeMap::new();
    for key in probe_keys {
        let result = match db.get(ReadOptions::default(), key) {
            Ok(value) => Ok(Some(value)),
            Err(RainDBError::KeyNotFound) => Ok(None),
            Err(err) => Err(err.to_string()),
        };
        gets.insert(key.to_vec(), result);
    }

    let scan = match db.new_iterator(ReadOptions::default()) {
        Err(err) => Err(err.to_string()),
        Ok(mut iter) => {
            let mut entries = vec![];
            let mut outcome = iter.seek_to_first().map_err(|err| err.to_string());
            while outcome.is_ok() && iter.is_valid() {
                let (key, value) = iter.current().unwrap();
                entries.push((key.clone(), value.clone()));
                iter.next();
            }
            if let Some(err) = iter.status() {
                outcome = Err(err.to_string());
            }
            drop(iter);
            outcome.map(|_| entries)
        }
    };

    drop(db);
    Ok(View { gets, scan })
}

fn show(bytes: &[u8]) -> String {
    if bytes.len() > 40 {
        format!("<{} bytes>", bytes.len())
    } else {
        String::from_utf8_lossy(bytes).into_owned()
    }
}

// ---------------------------------------------------------------------------------------------
// Defect 1: a damaged length field in an INTERIOR manifest record silently rolls the database
// back to an older state
// ---------------------------------------------------------------------------------------------

/// Flushes the memtable to a table file (and appends a record to the manifest) without compacting
/// any table: the range is beyond every key that the test uses.
fn flush(db: &DB) {
    db.compact_range(Some(b"~~~~".as_slice())..Some(b"~~~~~".as_slice()));
}

#[test]
fn manifest_interior_record_with_damaged_length_is_detected() {
    let dir = scratch("manifest_interior_length");
    let opts = options(&dir);

    // The model: the value each key must have after all writes (None = deleted).
    let mut model: BTreeMap<Vec<u8>, Option<Vec<u8>>> = BTreeMap::new();
    {
        let db = DB::open(opts.clone()).unwrap();
        for generation in 1..=3 {
            for i in 0..10 {
                if generation == 3 && i >= 5 {
                    continue;
                }
                let key = format!("key{i:02}").into_bytes();
                let value = format!("generation{generation}-{i}").into_bytes();
                db.put(WriteOptions::default(), key.clone(), value.clone())
                    .unwrap();
                model.insert(key, Some(value));
            }
            if generation == 2 {
                db.delete(WriteOptions::default(), b"key07".to_vec())
                    .unwrap();
                model.insert(b"key07".to_vec(), None);
            }
            flush(&db);
        }
        // A last write that stays in the write-ahead log
        db.put(WriteOptions::default(), b"key09".to_vec(), b"in-the-wal".to_vec())
            .unwrap();
        model.insert(b"key09".to_vec(), Some(b"in-the-wal".to_vec()));
    }

    let image = take_image(&dir);
    let (manifest_name, manifest_bytes) = the_file(&image, "MANIFEST");
    let records = physical_records(manifest_bytes);
    assert!(
        records.len() >= 4,
        "harness: expected a manifest with several records, got {records:?}"
    );

    let probe_keys: Vec<Vec<u8>> = model.keys().cloned().collect();
    let probe_refs: Vec<&[u8]> = probe_keys.iter().map(|k| k.as_slice()).collect();
    let expected_scan: Vec<(Vec<u8>, Vec<u8>)> = model
        .iter()
        .filter_map(|(k, v)| v.clone().map(|v| (k.clone(), v)))
        .collect();

    // Sanity: the undamaged image reads back exactly as the model
    restore(&dir, &image);
    let clean = open_and_read(&opts, &probe_refs).expect("harness: clean image must open");
    for (key, expected) in &model {
        assert_eq!(clean.gets[key], Ok(expected.clone()), "harness: clean image");
    }
    assert_eq!(clean.scan, Ok(expected_scan.clone()), "harness: clean image");

    let mut violations: Vec<String> = vec![];
    let mut detected = 0;
    // Every record but the last one. (A damaged header of the LAST record is indistinguishable
    // from a torn tail; that case is known and accepted and is not tested here.)
    for (index, (offset, length, _type)) in records.iter().enumerate().take(records.len() - 1) {
        // The high byte of the 16-bit length field; flip its top bit: length += 32768
        let target = offset + 5;
        restore(&dir, &image);
        let mut damaged = manifest_bytes.clone();
        damaged[target] ^= 0x80;
        fs::write(dir.join(manifest_name), &damaged).unwrap();

        match open_and_read(&opts, &probe_refs) {
            Err(_open_error) => detected += 1,
            Ok(view) => {
                let mut wrong: Vec<String> = vec![];
                for (key, expected) in &model {
                    match &view.gets[key] {
                        Err(_) => {}
                        Ok(actual) if actual == expected => {}
                        Ok(actual) => wrong.push(format!(
                            "get({}) returned {:?} without an error, but the last value written is {:?}",
                            show(key),
                            actual.as_ref().map(|v| show(v)),
                            expected.as_ref().map(|v| show(v)),
                        )),
                    }
                }
                if let Ok(entries) = &view.scan {
                    if *entries != expected_scan {
                        wrong.push(format!(
                            "a full scan returned {} entries without an error; they differ from \
                            the {} entries that were written",
                            entries.len(),
                            expected_scan.len()
                        ));
                    }
                }
                if wrong.is_empty() {
                    detected += 1;
                } else {
                    violations.push(format!(
                        "manifest record #{index} (of {}; header at offset {offset}, payload \
                        {length} bytes): flipping bit 7 of byte {target} (length field) -> the \
                        database opened WITHOUT error and {} reads were wrong, e.g. {}",
                        records.len(),
                        wrong.len(),
                        wrong[0]
                    ));
                }
            }
        }
    }

    assert!(
        violations.is_empty(),
        "PROPERTY VIOLATED (corrupted manifest served as data). Required: with a damaged manifest \
        the open call fails, or everything returned is still correct. Observed ({} of {} damaged \
        interior records went undetected; {} were detected):\n  {}",
        violations.len(),
        records.len() - 1,
        detected,
        violations.join("\n  ")
    );
}

// ---------------------------------------------------------------------------------------------
// Defect 2: after a checksum mismatch the log reader resumes at the position given by the
// (unverified, possibly damaged) length field, i.e. in the middle of user data
// ---------------------------------------------------------------------------------------------

#[test]
fn wal_record_with_damaged_length_does_not_turn_value_bytes_into_records() {
    let dir = scratch("wal_length_resync");
    let opts = options(&dir);

    // Bytes that look like one physical log record holding the batch `put("victim", "FORGED!")`.
    // They are only ever written to the database as (part of) the VALUE of the key "blob".
    let forged_batch = single_put_batch(1 << 40, b"victim", b"FORGED!");
    let mut embedded = vec![];
    embedded.extend_from_slice(&mask(crc32c(&forged_batch)).to_le_bytes());
    embedded.extend_from_slice(&(forged_batch.len() as u16).to_le_bytes());
    embedded.push(0); // BlockType::Full
    embedded.extend_from_slice(&forged_batch);
    assert_eq!(embedded.len(), 32);

    let mut blob = vec![b'.'; 178];
    blob.extend_from_slice(&embedded);
    assert_eq!(blob.len(), 210);

    {
        let db = DB::open(opts.clone()).unwrap();
        db.put(WriteOptions::default(), b"victim".to_vec(), b"genuine".to_vec())
            .unwrap();
        db.put(WriteOptions::default(), b"blob".to_vec(), blob.clone())
            .unwrap();
        db.put(WriteOptions::default(), b"zebra".to_vec(), b"stripes".to_vec())
            .unwrap();
    }

    let image = take_image(&dir);
    let (wal_name, wal_bytes) = the_file(&image, ".log");
    let records = physical_records(wal_bytes);
    assert_eq!(records.len(), 3, "harness: expected three WAL records");
    let (blob_offset, blob_length, _) = records[1];
    // 8 (sequence) + 1 (count) + 1 (op) + 1 + 4 (key) + 2 (value length) + 210
    assert_eq!(blob_length, 227, "harness: unexpected record layout");
    assert_eq!(
        &wal_bytes[blob_offset + LOG_HEADER + blob_length - 32..blob_offset + LOG_HEADER + blob_length],
        embedded.as_slice(),
        "harness: the embedded bytes must be the tail of the record"
    );

    // Sanity: undamaged
    restore(&dir, &image);
    let probe: [&[u8]; 3] = [b"victim", b"blob", b"zebra"];
    let clean = open_and_read(&opts, &probe).expect("harness: clean image must open");
    assert_eq!(clean.gets[b"victim".as_slice()], Ok(Some(b"genuine".to_vec())));
    assert_eq!(clean.gets[b"blob".as_slice()], Ok(Some(blob.clone())));

    // Flip ONE bit of the low byte of the length field of the "blob" record: 227 -> 195 = 227 - 32
    restore(&dir, &image);
    let mut damaged = wal_bytes.clone();
    assert_eq!(damaged[blob_offset + 4], 227);
    damaged[blob_offset + 4] ^= 0x20;
    assert_eq!(damaged[blob_offset + 4], 195);
    fs::write(dir.join(wal_name), &damaged).unwrap();

    match open_and_read(&opts, &probe) {
        Err(_) => { /* a failed open is an acceptable outcome */ }
        Ok(view) => {
            // Allowed for a damaged WAL record: the record (key "blob") is skipped.
            // Not allowed: any value that was never written for its key.
            let victim = &view.gets[b"victim".as_slice()];
            assert!(
                matches!(victim, Err(_)) || *victim == Ok(Some(b"genuine".to_vec())),
                "PROPERTY VIOLATED (value bytes of a damaged WAL record were replayed as a log \
                record). One bit of the length field of the WAL record of key \"blob\" was \
                flipped. Required: that record is skipped or the open fails; \"victim\" keeps the \
                only value ever written for it (\"genuine\"). Observed: the database opened \
                without error and get(\"victim\") returned {:?}; get(\"blob\") = {:?}; \
                get(\"zebra\") = {:?}",
                victim.as_ref().map(|v| v.as_ref().map(|v| show(v))),
                view.gets[b"blob".as_slice()]
                    .as_ref()
                    .map(|v| v.as_ref().map(|v| show(v))),
                view.gets[b"zebra".as_slice()]
                    .as_ref()
                    .map(|v| v.as_ref().map(|v| show(v))),
            );
            if let Ok(entries) = &view.scan {
                for (key, value) in entries {
                    let written: &[u8] = match key.as_slice() {
                        b"victim" => b"genuine",
                        b"blob" => &blob,
                        b"zebra" => b"stripes",
                        _ => panic!(
                            "PROPERTY VIOLATED: the scan returned the key {:?} that was never \
                            written",
                            show(key)
                        ),
                    };
                    assert_eq!(
                        value.as_slice(),
                        written,
                        "PROPERTY VIOLATED: the scan returned a value never written for {:?}",
                        show(key)
                    );
                }
            }
        }
    }
}

// ---------------------------------------------------------------------------------------------
// Defect 3: the checksum of a log record does not cover the record type
// ---------------------------------------------------------------------------------------------

#[test]
fn wal_fragment_with_damaged_type_byte_is_not_replayed_as_a_record_of_its_own() {
    let dir = scratch("wal_type_byte");
    let opts = options(&dir);

    // A 70000 byte value is written to the WAL as three fragments (First, Middle, Last).
    // The value carries, at the place where the Middle fragment will start, bytes that look like a
    // write batch `put("victim", "FORGED!")`. These bytes are only ever written as part of the
    // VALUE of the key "big".
    //
    // WAL layout: record 0 = put("victim","genuine"): 7 + 8+1+1+1+6+1+7 = 32 bytes.
    // Record 1 starts at 32; its First fragment carries 32768 - 32 - 7 = 32729 payload bytes; the
    // payload starts with 8+1+1+1+3+3 = 17 bytes before the value. So the Middle fragment starts at
    // value offset 32729 - 17 = 32712.
    let forged_batch = single_put_batch(1 << 40, b"victim", b"FORGED!");
    let mut big = vec![b'.'; 70_000];
    big[32_712..32_712 + forged_batch.len()].copy_from_slice(&forged_batch);

    {
        let db = DB::open(opts.clone()).unwrap();
        db.put(WriteOptions::default(), b"victim".to_vec(), b"genuine".to_vec())
            .unwrap();
        db.put(WriteOptions::default(), b"big".to_vec(), big.clone())
            .unwrap();
        db.put(WriteOptions::default(), b"zebra".to_vec(), b"stripes".to_vec())
            .unwrap();
    }

    let image = take_image(&dir);
    let (wal_name, wal_bytes) = the_file(&image, ".log");
    let records = physical_records(wal_bytes);
    let types: Vec<u8> = records.iter().map(|r| r.2).collect();
    assert_eq!(
        types,
        vec![0, 1, 2, 3, 0],
        "harness: expected Full, First, Middle, Last, Full"
    );
    let (middle_offset, _middle_length, _) = records[2];
    assert_eq!(
        &wal_bytes[middle_offset + LOG_HEADER..middle_offset + LOG_HEADER + forged_batch.len()],
        forged_batch.as_slice(),
        "harness: the Middle fragment must start with the prepared bytes"
    );

    // Sanity: undamaged
    restore(&dir, &image);
    let probe: [&[u8]; 3] = [b"victim", b"big", b"zebra"];
    let clean = open_and_read(&opts, &probe).expect("harness: clean image must open");
    assert_eq!(clean.gets[b"victim".as_slice()], Ok(Some(b"genuine".to_vec())));
    assert_eq!(clean.gets[b"big".as_slice()], Ok(Some(big.clone())));

    // Flip ONE bit of the type byte of the Middle fragment: Middle (2) -> Full (0).
    // The checksum of the fragment is still right because it does not cover the type.
    restore(&dir, &image);
    let mut damaged = wal_bytes.clone();
    assert_eq!(damaged[middle_offset + 6], 2);
    damaged[middle_offset + 6] ^= 0x02;
    fs::write(dir.join(wal_name), &damaged).unwrap();

    match open_and_read(&opts, &probe) {
        Err(_) => { /* a failed open is an acceptable outcome */ }
        Ok(view) => {
            let victim = &view.gets[b"victim".as_slice()];
            assert!(
                matches!(victim, Err(_)) || *victim == Ok(Some(b"genuine".to_vec())),
                "PROPERTY VIOLATED (a fragment of a damaged WAL record was replayed as a record of \
                its own). One bit of the type byte of the Middle fragment of the record of key \
                \"big\" was flipped. Required: the damaged record is skipped or the open fails; \
                \"victim\" keeps the only value ever written for it (\"genuine\"). Observed: the \
                database opened without error and get(\"victim\") returned {:?}; get(\"big\") = \
                {:?}; get(\"zebra\") = {:?}",
                victim.as_ref().map(|v| v.as_ref().map(|v| show(v))),
                view.gets[b"big".as_slice()]
                    .as_ref()
                    .map(|v| v.as_ref().map(|v| show(v))),
                view.gets[b"zebra".as_slice()]
                    .as_ref()
                    .map(|v| v.as_ref().map(|v| show(v))),
            );
        }
    }
}

/// Same defect, no prepared bytes: a large batch of plain text puts. The Middle fragment of its WAL
/// record happens to start nine bytes before an entry boundary, so its first nine bytes (the end of
/// a text value: "xxxxxxxxx") read as a sequence number (0x7878787878787878) and an entry count
/// ('x' = 120), and the 120 genuine entries that follow parse as a batch.
#[test]
fn wal_fragment_with_damaged_type_byte_does_not_reorder_writes() {
    use raindb::Batch;

    let dir = scratch("wal_type_byte_reorder");
    let opts = options(&dir);

    let old_value = |i: usize| format!("old-{i:04}-xxxxxxxxxxx").into_bytes();
    {
        let db = DB::open(opts.clone()).unwrap();
        // 2400 entries of 1 + 1 + 5 + 1 + 20 = 28 bytes after a 8 + 2 byte batch header.
        // The First fragment carries 32761 bytes, so the Middle fragment starts at payload offset
        // 32761 = 10 + 28 * 1170 - 9: nine bytes before the entry of "k1170".
        let mut batch = Batch::new();
        for i in 0..2400 {
            assert_eq!(old_value(i).len(), 20);
            batch.add_put(format!("k{i:04}").into_bytes(), old_value(i));
        }
        db.apply(WriteOptions::default(), batch).unwrap();
        // Later writes, each in an (undamaged) WAL record of its own
        db.put(WriteOptions::default(), b"k1200".to_vec(), b"new-1200".to_vec())
            .unwrap();
        db.delete(WriteOptions::default(), b"k1201".to_vec()).unwrap();
        db.put(WriteOptions::default(), b"k0001".to_vec(), b"new-0001".to_vec())
            .unwrap();
    }

    let image = take_image(&dir);
    let (wal_name, wal_bytes) = the_file(&image, ".log");
    let records = physical_records(wal_bytes);
    let types: Vec<u8> = records.iter().map(|r| r.2).collect();
    assert_eq!(
        types,
        vec![1, 2, 3, 0, 0, 0],
        "harness: expected First, Middle, Last, Full, Full, Full but got {records:?}"
    );
    let (middle_offset, _, _) = records[1];
    assert_eq!(
        &wal_bytes[middle_offset + LOG_HEADER..middle_offset + LOG_HEADER + 16],
        b"xxxxxxxxx\x01\x05k1170",
        "harness: unexpected alignment of the Middle fragment"
    );

    let probe: [&[u8]; 5] = [b"k0001", b"k1170", b"k1200", b"k1201", b"k2399"];

    // Sanity: undamaged
    restore(&dir, &image);
    let clean = open_and_read(&opts, &probe).expect("harness: clean image must open");
    assert_eq!(clean.gets[b"k1200".as_slice()], Ok(Some(b"new-1200".to_vec())));
    assert_eq!(clean.gets[b"k1201".as_slice()], Ok(None));
    assert_eq!(clean.gets[b"k1170".as_slice()], Ok(Some(old_value(1170))));

    // Flip ONE bit of the type byte of the Middle fragment: Middle (2) -> Full (0)
    restore(&dir, &image);
    let mut damaged = wal_bytes.clone();
    assert_eq!(damaged[middle_offset + 6], 2);
    damaged[middle_offset + 6] ^= 0x02;
    fs::write(dir.join(wal_name), &damaged).unwrap();

    match open_and_read(&opts, &probe) {
        Err(_) => { /* a failed open is an acceptable outcome */ }
        Ok(view) => {
            // The record of the big batch is damaged, so its 2400 puts may be lost. The three later
            // records are intact: whatever happens to the batch, "k1200" must read "new-1200" and
            // "k1201" must stay deleted, because those writes came after the batch.
            let k1200 = &view.gets[b"k1200".as_slice()];
            let k1201 = &view.gets[b"k1201".as_slice()];
            let show_get = |r: &Result<Option<Vec<u8>>, String>| match r {
                Ok(Some(v)) => format!("Some({:?})", show(v)),
                Ok(None) => "not found".to_string(),
                Err(e) => format!("error {e}"),
            };
            assert!(
                (k1200.is_err() || *k1200 == Ok(Some(b"new-1200".to_vec())))
                    && (k1201.is_err() || *k1201 == Ok(None)),
                "PROPERTY VIOLATED (part of a damaged WAL record was replayed with a made-up \
                sequence number: entries reordered / resurrected). One bit of the type byte of the \
                Middle fragment of a large batch was flipped; the later records put(k1200, \
                \"new-1200\") and delete(k1201) are intact. Required: the damaged batch is skipped \
                or the open fails; k1200 = \"new-1200\" and k1201 stays deleted. Observed: the \
                database opened without error; get(k1200) = {}; get(k1201) = {}; get(k1170) = {}; \
                get(k0001) = {}; get(k2399) = {}",
                show_get(k1200),
                show_get(k1201),
                show_get(&view.gets[b"k1170".as_slice()]),
                show_get(&view.gets[b"k0001".as_slice()]),
                show_get(&view.gets[b"k2399".as_slice()]),
            );
        }
    }
}
