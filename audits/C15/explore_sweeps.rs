//! Exploratory sweeps (scratch; not a deliverable). Run with
//! `cargo test --offline --test audit_explore -- --ignored --nocapture <name>`.

use std::collections::{BTreeMap, BTreeSet};
use std::fs;
use std::panic::{catch_unwind, AssertUnwindSafe};
use std::path::{Path, PathBuf};

use raindb::{DbOptions, RainDBError, RainDbIterator, ReadOptions, WriteOptions, DB};

fn scratch(name: &str) -> PathBuf {
    let p = Path::new(env!("CARGO_MANIFEST_DIR"))
        .join("target")
        .join("audit-tmp")
        .join(name);
    let _ = fs::remove_dir_all(&p);
    fs::create_dir_all(&p).unwrap();
    p
}

fn opts(dir: &Path, reuse: bool) -> DbOptions {
    DbOptions {
        db_path: dir.to_str().unwrap().to_owned(),
        create_if_missing: true,
        reuse_log_files: reuse,
        ..DbOptions::default()
    }
}

#[derive(Default, Clone)]
struct Model {
    /// Every value ever written per key (None = delete).
    history: BTreeMap<Vec<u8>, Vec<Option<Vec<u8>>>>,
}

impl Model {
    fn put(&mut self, db: &DB, k: &[u8], v: &[u8]) {
        db.put(WriteOptions::default(), k.to_vec(), v.to_vec())
            .unwrap();
        self.history
            .entry(k.to_vec())
            .or_default()
            .push(Some(v.to_vec()));
    }
    fn del(&mut self, db: &DB, k: &[u8]) {
        db.delete(WriteOptions::default(), k.to_vec()).unwrap();
        self.history.entry(k.to_vec()).or_default().push(None);
    }
    fn latest(&self, k: &[u8]) -> Option<Vec<u8>> {
        self.history.get(k).and_then(|h| h.last().cloned().flatten())
    }
    fn live(&self) -> Vec<(Vec<u8>, Vec<u8>)> {
        self.history
            .iter()
            .filter_map(|(k, h)| h.last().cloned().flatten().map(|v| (k.clone(), v)))
            .collect()
    }
}

type Image = Vec<(String, Vec<u8>)>;

fn take_image(dir: &Path) -> Image {
    fn walk(root: &Path, dir: &Path, out: &mut Image) {
        for e in fs::read_dir(dir).unwrap() {
            let e = e.unwrap();
            if e.file_type().unwrap().is_dir() {
                walk(root, &e.path(), out);
            } else {
                out.push((
                    e.path().strip_prefix(root).unwrap().to_str().unwrap().to_owned(),
                    fs::read(e.path()).unwrap(),
                ));
            }
        }
    }
    let mut out = vec![];
    walk(dir, dir, &mut out);
    out.sort();
    out
}

fn restore(dir: &Path, image: &Image) {
    let _ = fs::remove_dir_all(dir);
    fs::create_dir_all(dir).unwrap();
    for (n, b) in image {
        let p = dir.join(n);
        fs::create_dir_all(p.parent().unwrap()).unwrap();
        fs::write(p, b).unwrap();
    }
}

#[derive(Debug)]
enum Obs {
    #[allow(dead_code)]
    OpenErr(String),
    Panic(String),
    Opened {
        gets: Vec<(Vec<u8>, Result<Option<Vec<u8>>, String>)>,
        fwd: Result<Vec<(Vec<u8>, Vec<u8>)>, String>,
        bwd: Result<Vec<(Vec<u8>, Vec<u8>)>, String>,
    },
}

fn observe(dir: &Path, reuse: bool, keys: &[Vec<u8>]) -> Obs {
    observe_with(&opts(dir, reuse), keys)
}

fn observe_with(o: &DbOptions, keys: &[Vec<u8>]) -> Obs {
    let r = catch_unwind(AssertUnwindSafe(|| {
        let db = match DB::open(o.clone()) {
            Ok(db) => db,
            Err(e) => return Obs::OpenErr(e.to_string()),
        };
        let mut gets = vec![];
        for k in keys {
            let r = match db.get(ReadOptions::default(), k) {
                Ok(v) => Ok(Some(v)),
                Err(RainDBError::KeyNotFound) => Ok(None),
                Err(e) => Err(e.to_string()),
            };
            gets.push((k.clone(), r));
        }
        let fwd = 'f: {
            let mut it = match db.new_iterator(ReadOptions::default()) {
                Ok(it) => it,
                Err(e) => break 'f Err(e.to_string()),
            };
            let mut out = vec![];
            let mut res = Ok(());
            if let Err(e) = it.seek_to_first() {
                res = Err(e.to_string());
            }
            while res.is_ok() && it.is_valid() {
                let (k, v) = it.current().unwrap();
                out.push((k.clone(), v.clone()));
                it.next();
            }
            if let Some(e) = it.status() {
                res = Err(e.to_string());
            }
            res.map(|_| out)
        };
        let bwd = 'b: {
            let mut it = match db.new_iterator(ReadOptions::default()) {
                Ok(it) => it,
                Err(e) => break 'b Err(e.to_string()),
            };
            let mut out = vec![];
            let mut res = Ok(());
            if let Err(e) = it.seek_to_last() {
                res = Err(e.to_string());
            }
            while res.is_ok() && it.is_valid() {
                let (k, v) = it.current().unwrap();
                out.push((k.clone(), v.clone()));
                it.prev();
            }
            if let Some(e) = it.status() {
                res = Err(e.to_string());
            }
            out.reverse();
            res.map(|_| out)
        };
        drop(db);
        Obs::Opened { gets, fwd, bwd }
    }));
    match r {
        Ok(o) => o,
        Err(p) => {
            let msg = p
                .downcast_ref::<String>()
                .cloned()
                .or_else(|| p.downcast_ref::<&str>().map(|s| s.to_string()))
                .unwrap_or_else(|| "?".into());
            Obs::Panic(msg)
        }
    }
}

#[derive(PartialEq, Eq, Clone, Copy, Debug)]
enum Kind {
    Table,
    Wal,
    Manifest,
    Other,
}

fn kind_of(name: &str) -> Kind {
    if name.ends_with(".rdb") || name.ends_with(".ldb") || name.ends_with(".sst") {
        Kind::Table
    } else if name.ends_with(".log") {
        Kind::Wal
    } else if name.contains("MANIFEST") {
        Kind::Manifest
    } else {
        Kind::Other
    }
}

/// Judge an observation. Returns a list of complaints.
fn judge(model: &Model, kind: Kind, obs: &Obs) -> Vec<String> {
    let mut out = vec![];
    match obs {
        Obs::OpenErr(_) => {}
        Obs::Panic(m) => out.push(format!("PANIC: {m}")),
        Obs::Opened { gets, fwd, bwd } => {
            for (k, r) in gets {
                match r {
                    Err(_) => {}
                    Ok(v) => {
                        let hist = model.history.get(k).cloned().unwrap_or_default();
                        if kind == Kind::Wal {
                            // any value ever written, or absent
                            if let Some(v) = v {
                                if !hist.contains(&Some(v.clone())) {
                                    out.push(format!(
                                        "get({}) returned a value never written ({} bytes)",
                                        String::from_utf8_lossy(k),
                                        v.len()
                                    ));
                                }
                            }
                        } else if *v != model.latest(k) {
                            out.push(format!(
                                "get({}) = {:?} but latest is {:?}",
                                String::from_utf8_lossy(k),
                                v.as_ref().map(|v| String::from_utf8_lossy(v).to_string()),
                                model
                                    .latest(k)
                                    .map(|v| String::from_utf8_lossy(&v).to_string())
                            ));
                        }
                    }
                }
            }
            for (name, scan) in [("fwd", fwd), ("bwd", bwd)] {
                if let Ok(entries) = scan {
                    if kind == Kind::Wal {
                        let mut prev: Option<&Vec<u8>> = None;
                        for (k, v) in entries {
                            if let Some(p) = prev {
                                if p >= k {
                                    out.push(format!("{name} scan out of order"));
                                }
                            }
                            prev = Some(k);
                            let hist = model.history.get(k).cloned().unwrap_or_default();
                            if !hist.contains(&Some(v.clone())) {
                                out.push(format!(
                                    "{name} scan yields never-written entry {}",
                                    String::from_utf8_lossy(k)
                                ));
                            }
                        }
                    } else if *entries != model.live() {
                        let got: BTreeSet<_> = entries.iter().cloned().collect();
                        let want: BTreeSet<_> = model.live().into_iter().collect();
                        let extra: Vec<_> = got
                            .difference(&want)
                            .map(|(k, v)| {
                                format!(
                                    "{}={}",
                                    String::from_utf8_lossy(k),
                                    String::from_utf8_lossy(v)
                                )
                            })
                            .collect();
                        let missing: Vec<_> = want
                            .difference(&got)
                            .map(|(k, _)| String::from_utf8_lossy(k).to_string())
                            .collect();
                        out.push(format!(
                            "{name} scan differs without error: extra {:?} missing {:?} (len {} vs {})",
                            extra,
                            missing,
                            entries.len(),
                            want.len()
                        ));
                    }
                }
            }
        }
    }
    out
}

fn sweep(dir: &Path, reuse: bool, model: &Model, image: &Image, only: Option<Kind>) {
    sweep_with(dir, &opts(dir, reuse), model, image, only)
}

fn sweep_with(dir: &Path, o: &DbOptions, model: &Model, image: &Image, only: Option<Kind>) {
    let keys: Vec<Vec<u8>> = {
        let mut k: Vec<Vec<u8>> = model.history.keys().cloned().collect();
        k.push(b"never-written".to_vec());
        k
    };
    std::panic::set_hook(Box::new(|_| {}));
    // sanity: uncorrupted
    restore(dir, image);
    let base = observe_with(o, &keys);
    let base_complaints = judge(model, Kind::Table, &base);
    println!("baseline complaints: {:?}", base_complaints);
    assert!(base_complaints.is_empty(), "{:?}", base);

    let mut total = 0usize;
    let mut bad = 0usize;
    let mut summary: BTreeMap<String, Vec<String>> = BTreeMap::new();
    for (name, bytes) in image {
        let kind = kind_of(name);
        if kind == Kind::Other && name != "CURRENT" {
            continue;
        }
        if let Some(o) = only {
            if o != kind {
                continue;
            }
        }
        println!("== {name} ({} bytes, {:?})", bytes.len(), kind);
        for off in 0..bytes.len() {
            let orig = bytes[off];
            let mut variants: Vec<u8> = (0..8).map(|b| orig ^ (1 << b)).collect();
            variants.push(0);
            variants.push(0xff);
            variants.push(orig.wrapping_add(0x35));
            variants.sort();
            variants.dedup();
            for v in variants {
                if v == orig {
                    continue;
                }
                restore(dir, image);
                let mut b = bytes.clone();
                b[off] = v;
                fs::write(dir.join(name), &b).unwrap();
                let obs = observe_with(o, &keys);
                total += 1;
                let k = if kind == Kind::Other { Kind::Manifest } else { kind };
                let complaints = judge(model, k, &obs);
                if !complaints.is_empty() {
                    bad += 1;
                    let key = format!("{name}: {}", complaints[0]);
                    summary
                        .entry(key)
                        .or_default()
                        .push(format!("@{off} {orig:#04x}->{v:#04x}"));
                }
            }
        }
    }
    println!("total corruptions {total}, flagged {bad}");
    for (k, v) in &summary {
        println!("--- {k}\n      {} cases, e.g. {:?}", v.len(), &v[..v.len().min(12)]);
    }
}

fn build_small(dir: &Path, reuse: bool) -> (Model, Image) {
    let mut model = Model::default();
    // generation 1
    {
        let db = DB::open(opts(dir, reuse)).unwrap();
        for i in 0..12 {
            model.put(&db, format!("key{i:02}").as_bytes(), format!("g1-{i}").as_bytes());
        }
    }
    // generation 2: overwrites and deletes (reopen flushes the WAL when reuse=false)
    {
        let db = DB::open(opts(dir, reuse)).unwrap();
        for i in (0..12).step_by(2) {
            model.put(&db, format!("key{i:02}").as_bytes(), format!("g2-{i}").as_bytes());
        }
        model.del(&db, b"key03");
        model.del(&db, b"key05");
        if reuse {
            db.compact_range(None..None);
        }
    }
    // generation 3
    {
        let db = DB::open(opts(dir, reuse)).unwrap();
        model.put(&db, b"key01", b"g3-1");
        model.put(&db, b"key03", b"g3-3");
        model.del(&db, b"key04");
        model.put(&db, b"key20", b"g3-20");
        if reuse {
            db.compact_range(None..None);
        }
    }
    // generation 4: stays in the WAL
    {
        let db = DB::open(opts(dir, reuse)).unwrap();
        model.put(&db, b"key02", b"g4-2");
        model.del(&db, b"key07");
        model.put(&db, b"key21", b"g4-21");
        model.put(&db, b"key05", b"g4-5");
    }
    let image = take_image(dir);
    for (n, b) in &image {
        println!("image: {n} {} bytes", b.len());
    }
    (model, image)
}

#[test]
#[ignore]
fn sweep_small_noreuse() {
    let dir = scratch("sweep_small_noreuse");
    let (model, image) = build_small(&dir, false);
    sweep(&dir, false, &model, &image, None);
}

#[test]
#[ignore]
fn sweep_small_reuse() {
    let dir = scratch("sweep_small_reuse");
    let (model, image) = build_small(&dir, true);
    sweep(&dir, true, &model, &image, None);
}

/// Parse the physical records of a log-format file: (offset, len, type).
fn log_records(bytes: &[u8]) -> Vec<(usize, usize, u8)> {
    let mut out = vec![];
    let mut off = 0usize;
    while off + 7 <= bytes.len() {
        let block_left = 32768 - (off % 32768);
        if block_left < 7 {
            off += block_left;
            continue;
        }
        let len = u16::from_le_bytes([bytes[off + 4], bytes[off + 5]]) as usize;
        out.push((off, len, bytes[off + 6]));
        off += 7 + len;
    }
    out
}

fn find<'a>(image: &'a Image, pat: &str) -> Vec<&'a (String, Vec<u8>)> {
    image.iter().filter(|(n, _)| n.contains(pat)).collect()
}

#[test]
#[ignore]
fn manifest_interior_length() {
    let dir = scratch("manifest_interior_length");
    let mut model = Model::default();
    let mut o = opts(&dir, false);
    o.max_memtable_size = 2048;
    {
        let db = DB::open(o.clone()).unwrap();
        for round in 0..4 {
            for i in 0..20 {
                model.put(
                    &db,
                    format!("key{i:02}").as_bytes(),
                    format!("r{round}-{i}-{}", "x".repeat(100)).as_bytes(),
                );
            }
            std::thread::sleep(std::time::Duration::from_millis(300));
        }
        std::thread::sleep(std::time::Duration::from_millis(500));
    }
    let image = take_image(&dir);
    for (n, b) in &image {
        println!("image: {n} {} bytes", b.len());
    }
    let (mname, mbytes) = find(&image, "MANIFEST")[0].clone();
    let recs = log_records(&mbytes);
    println!("manifest records: {:?}", recs);
    let keys: Vec<Vec<u8>> = model.history.keys().cloned().collect();
    for (idx, (off, _len, _ty)) in recs.iter().enumerate() {
        for bit in [7u8] {
            restore(&dir, &image);
            let mut b = mbytes.clone();
            b[off + 5] ^= 1 << bit;
            fs::write(dir.join(&mname), &b).unwrap();
            let obs = observe_with(&o, &keys);
            let c = judge(&model, Kind::Manifest, &obs);
            println!(
                "record {idx} @ {off}: length hi-byte bit {bit} flipped -> {}",
                match &obs {
                    Obs::OpenErr(e) => format!("open error: {e}"),
                    Obs::Panic(p) => format!("panic {p}"),
                    Obs::Opened { .. } => format!("opened; complaints: {:?}", c),
                }
            );
        }
    }
}

#[test]
#[ignore]
fn wal_zero_value_type_flip() {
    let dir = scratch("wal_zero_value_type_flip");
    let o = opts(&dir, true);
    {
        let db = DB::open(o.clone()).unwrap();
        db.put(WriteOptions::default(), b"victim".to_vec(), b"genuine".to_vec()).unwrap();
        db.put(WriteOptions::default(), b"big".to_vec(), vec![0u8; 70_000]).unwrap();
        db.put(WriteOptions::default(), b"zebra".to_vec(), b"stripes".to_vec()).unwrap();
    }
    let image = take_image(&dir);
    let (wname, wbytes) = find(&image, ".log")[0].clone();
    let recs = log_records(&wbytes);
    println!("{:?}", recs);
    for (ri, newty) in [(2usize, 0u8), (2, 1), (3, 0), (1, 0), (3, 2), (2, 3)] {
        restore(&dir, &image);
        let mut b = wbytes.clone();
        b[recs[ri].0 + 6] = newty;
        fs::write(dir.join(&wname), &b).unwrap();
        let keys = vec![b"victim".to_vec(), b"big".to_vec(), b"zebra".to_vec()];
        let obs = observe_with(&o, &keys);
        match obs {
            Obs::Opened { gets, .. } => {
                println!("rec {ri} type->{newty}: opened: {:?}", gets.iter().map(|(k, r)| (String::from_utf8_lossy(k).to_string(), r.as_ref().map(|v| v.as_ref().map(|v| v.len())))).collect::<Vec<_>>());
                // try a write after
                let db = DB::open(o.clone()).unwrap();
                db.put(WriteOptions::default(), b"victim".to_vec(), b"newer".to_vec()).unwrap();
                println!("   after new put: victim = {:?}", db.get(ReadOptions::default(), b"victim").map(|v| String::from_utf8_lossy(&v).to_string()));
            }
            other => println!("rec {ri} type->{newty}: {:?}", other),
        }
    }
}

fn build_medium(dir: &Path) -> (Model, Image, DbOptions) {
    let mut model = Model::default();
    let mut o = opts(dir, true);
    o.max_block_size = 512;
    o.max_file_size = 8 * 1024;
    {
        let db = DB::open(o.clone()).unwrap();
        for round in 0..5 {
            for i in 0..400 {
                if (i + round) % 3 == 0 {
                    model.put(
                        &db,
                        format!("key{i:04}").as_bytes(),
                        format!("r{round}-{i}-{}", "v".repeat(30 + (i % 7))).as_bytes(),
                    );
                }
                if (i + round) % 11 == 0 {
                    model.del(&db, format!("key{i:04}").as_bytes());
                }
            }
            db.compact_range(Some(b"~~~~".as_slice())..Some(b"~~~~~".as_slice()));
            if round == 2 {
                db.compact_range(None..None);
            }
        }
        for i in 0..30 {
            model.put(&db, format!("key{:04}", i * 13).as_bytes(), format!("wal-{i}").as_bytes());
        }
    }
    let image = take_image(dir);
    for (n, b) in &image {
        println!("image: {n} {} bytes", b.len());
    }
    (model, image, o)
}

#[test]
#[ignore]
fn medium_tables_sampled_and_truncations() {
    let dir = scratch("medium_tables");
    let (model, image, o) = build_medium(&dir);
    std::panic::set_hook(Box::new(|_| {}));
    let keys: Vec<Vec<u8>> = model.history.keys().cloned().collect();
    restore(&dir, &image);
    let base = observe_with(&o, &keys);
    let c = judge(&model, Kind::Table, &base);
    assert!(c.is_empty(), "{:?}", c);
    let mut flagged = 0;
    let mut total = 0;
    let mut outcomes: BTreeMap<String, usize> = BTreeMap::new();
    for (name, bytes) in &image {
        if kind_of(name) != Kind::Table {
            continue;
        }
        // sampled single byte corruptions
        let mut offs: Vec<usize> = (0..bytes.len()).step_by(37).collect();
        offs.extend(bytes.len().saturating_sub(60)..bytes.len());
        for off in offs {
            for v in [bytes[off] ^ 0x01, bytes[off] ^ 0x80, 0u8] {
                if v == bytes[off] {
                    continue;
                }
                restore(&dir, &image);
                let mut b = bytes.clone();
                b[off] = v;
                fs::write(dir.join(name), &b).unwrap();
                let obs = observe_with(&o, &keys);
                total += 1;
                let c = judge(&model, Kind::Table, &obs);
                let oc = match &obs {
                    Obs::OpenErr(_) => "openerr".to_string(),
                    Obs::Panic(p) => format!("panic {p}"),
                    Obs::Opened { gets, fwd, bwd } => format!(
                        "opened geterrs={} fwd={} bwd={}",
                        gets.iter().filter(|g| g.1.is_err()).count() > 0,
                        fwd.is_ok(),
                        bwd.is_ok()
                    ),
                };
                *outcomes.entry(oc).or_default() += 1;
                if !c.is_empty() {
                    flagged += 1;
                    println!("FLAG {name} @{off} -> {v:#x}: {:?}", &c[..c.len().min(3)]);
                }
            }
        }
        // truncations
        let mut lens: Vec<usize> = (0..bytes.len()).step_by(53).collect();
        lens.extend(bytes.len().saturating_sub(60)..bytes.len());
        for len in lens {
            restore(&dir, &image);
            fs::write(dir.join(name), &bytes[..len]).unwrap();
            let obs = observe_with(&o, &keys);
            total += 1;
            let c = judge(&model, Kind::Table, &obs);
            if !c.is_empty() {
                flagged += 1;
                println!("FLAG {name} truncated to {len}: {:?}", &c[..c.len().min(3)]);
            }
        }
    }
    println!("total {total} flagged {flagged}; outcomes {:?}", outcomes);
}

#[test]
#[ignore]
fn medium_logs_exhaustive() {
    let dir = scratch("medium_logs");
    let (model, image, o) = build_medium(&dir);
    sweep_with(&dir, &o, &model, &image, Some(Kind::Manifest));
    sweep_with(&dir, &o, &model, &image, Some(Kind::Wal));
}
