//! Second audit, exploratory scenarios around the edges of the property (each test fails iff an
//! iterator / snapshot silently shows something else than the state at its creation).

use std::collections::BTreeMap;
use std::sync::Arc;

use raindb::fs::{FileSystem, InMemoryFileSystem, TmpFileSystem};
use raindb::{DbOptions, RainDBError, RainDbIterator, ReadOptions, WriteOptions, DB};

type Model = BTreeMap<Vec<u8>, Vec<u8>>;

fn options(fs: Arc<dyn FileSystem>, path: &str) -> DbOptions {
    DbOptions {
        db_path: path.to_string(),
        max_memtable_size: 600,
        max_file_size: 300,
        max_block_size: 64,
        filesystem_provider: fs,
        create_if_missing: true,
        ..DbOptions::default()
    }
}

fn key(i: usize) -> Vec<u8> {
    format!("key{i:03}").into_bytes()
}

/// Walk the whole iterator; returns what it delivered and its final status.
fn scan(
    iter: &mut dyn RainDbIterator<Key = Vec<u8>, Error = RainDBError>,
    backward: bool,
) -> (Model, Option<RainDBError>) {
    let mut out = Model::new();
    if backward {
        iter.seek_to_last().unwrap();
    } else {
        iter.seek_to_first().unwrap();
    }
    while iter.is_valid() {
        let (k, v) = iter.current().unwrap();
        out.insert(k.clone(), v.clone());
        if backward {
            iter.prev();
        } else {
            iter.next();
        }
    }
    (out, iter.status())
}

/// An iterator that outlives its database object, while a second instance of the database is
/// opened on the same files, rewrites everything, compacts and removes the obsolete files.
/// (Dropping the database with a live iterator is supported since the fix bc0af7d.) The iterator
/// may report an error through `status()`, but it must not silently deliver another state.
fn iterator_outlives_database(fs: Arc<dyn FileSystem>, path: &str) {
    let mut model = Model::new();
    let db = DB::open(options(Arc::clone(&fs), path)).unwrap();
    for round in 0..4 {
        for i in 0..60 {
            let value = format!("old-{round}-{i}").into_bytes();
            db.put(WriteOptions::default(), key(i), value.clone()).unwrap();
            model.insert(key(i), value);
        }
    }
    db.compact_range(None..None);
    for i in (0..60).step_by(3) {
        db.delete(WriteOptions::default(), key(i)).unwrap();
        model.remove(&key(i));
    }
    let mut iter = db.new_iterator(ReadOptions::default()).unwrap();
    // Touch only the beginning so that most table files are not opened yet
    iter.seek_to_first().unwrap();
    assert_eq!(iter.current().map(|(k, _)| k.clone()), model.keys().next().cloned());
    drop(db);

    let db2 = DB::open(options(Arc::clone(&fs), path)).unwrap();
    for round in 0..3 {
        for i in 0..60 {
            db2.put(WriteOptions::default(), key(i), format!("new-{round}-{i}").into_bytes())
                .unwrap();
        }
        db2.compact_range(None..None);
    }
    for i in 0..60 {
        db2.delete(WriteOptions::default(), key(i)).unwrap();
    }
    db2.compact_range(None..None);

    for backward in [false, true] {
        let (seen, status) = scan(&mut iter, backward);
        if status.is_none() {
            assert_eq!(
                seen, model,
                "the iterator (backward: {backward}) reports no error but does not show the state \
                 at its creation"
            );
        } else {
            eprintln!(
                "iterator outliving its database: reported {:?} after {} entries (acceptable)",
                status.map(|e| e.to_string()),
                seen.len()
            );
            for (k, v) in &seen {
                assert_eq!(
                    model.get(k),
                    Some(v),
                    "entry delivered before the error is not part of the state at creation"
                );
            }
        }
    }
}

#[test]
fn iterator_outlives_database_mem() {
    iterator_outlives_database(Arc::new(InMemoryFileSystem::new()), "/outlive");
}

#[test]
fn iterator_outlives_database_disk() {
    let fs = Arc::new(TmpFileSystem::new(None));
    iterator_outlives_database(fs, "outlive");
}

/// A filter policy that honours the documented contract of `FilterPolicy` (`key_may_match` is
/// true for every key that was in the list) but whose serialized filter is the empty byte string
/// (it encodes "may match everything" as nothing).
#[derive(Debug)]
struct MatchEverything;

impl raindb::FilterPolicy for MatchEverything {
    fn get_name(&self) -> String {
        "audit.MatchEverything".to_string()
    }

    fn create_filter(&self, _keys: &[Vec<u8>]) -> Vec<u8> {
        vec![]
    }

    fn key_may_match(
        &self,
        _key: &[u8],
        _serialized_filter: &[u8],
    ) -> Result<bool, raindb::filter_policy::FilterPolicyError> {
        Ok(true)
    }
}

/// Side observation (same behaviour as LevelDB's FilterBlockReader, "empty filters do not match
/// any keys"): with such a policy `get` and iteration disagree for every key that lives in a
/// table file. Ignored by default because the policy is pathological.
#[test]
#[ignore]
fn empty_serialized_filter_makes_get_and_iteration_disagree() {
    let fs: Arc<dyn FileSystem> = Arc::new(InMemoryFileSystem::new());
    let mut opts = options(fs, "/filter");
    opts.filter_policy = Arc::new(MatchEverything);
    let db = DB::open(opts).unwrap();
    let mut model = Model::new();
    for i in 0..30 {
        let value = format!("v{i}").into_bytes();
        db.put(WriteOptions::default(), key(i), value.clone()).unwrap();
        model.insert(key(i), value);
    }
    let snapshot = db.get_snapshot();
    db.compact_range(None..None);
    let read = || ReadOptions {
        fill_cache: true,
        snapshot: Some(snapshot.clone()),
    };
    let mut iter = db.new_iterator(read()).unwrap();
    let (seen, status) = scan(&mut iter, false);
    assert!(status.is_none());
    assert_eq!(seen, model, "iteration at the snapshot");
    for (k, v) in &model {
        let got = db.get(read(), k);
        assert_eq!(
            got.as_ref().ok(),
            Some(v),
            "get({:?}) at the snapshot returned {:?} but iteration at the same snapshot delivers the key",
            String::from_utf8_lossy(k),
            got
        );
    }
}

/// Side observation: the documentation of `RainDbIterator::current` promises `None` for an
/// iterator that is not valid; `DatabaseIterator::current` panics instead (`assert!(self.is_valid)`),
/// e.g. at the end of a `while let Some(..) = iter.current() { ..; iter.next(); }` loop.
#[test]
#[ignore]
fn current_on_an_exhausted_iterator_panics_instead_of_returning_none() {
    let fs: Arc<dyn FileSystem> = Arc::new(InMemoryFileSystem::new());
    let db = DB::open(options(fs, "/current")).unwrap();
    db.put(WriteOptions::default(), key(1), b"v".to_vec()).unwrap();
    let mut iter = db.new_iterator(ReadOptions::default()).unwrap();
    iter.seek_to_first().unwrap();
    let mut seen = 0;
    while let Some((_k, _v)) = iter.current() {
        seen += 1;
        iter.next();
    }
    assert_eq!(seen, 1);
}
