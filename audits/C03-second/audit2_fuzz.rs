//! Second audit of "a snapshot or iterator sees exactly the state at its creation, forever".
//!
//! Randomized differential test against a model with *extreme* configurations that the first
//! audit did not reach: one entry per block, one block per table file (so every retained version
//! of a user key lives in its own table file), memtable budgets of a single entry, plus reopen
//! with log reuse on/off in the middle of the history (snapshots are then taken right after the
//! reopen and must survive everything that follows).
//!
//! Every test fails iff a snapshot / iterator delivers something else than the model copy taken
//! when the snapshot / iterator was created (or when `get` and iteration disagree).

use std::collections::BTreeMap;
use std::ops::Bound;
use std::sync::Arc;

use raindb::fs::{FileSystem, InMemoryFileSystem};
use raindb::{
    Batch, DbOptions, RainDBError, RainDbIterator, ReadOptions, Snapshot, WriteOptions, DB,
};

type Model = BTreeMap<Vec<u8>, Vec<u8>>;

struct Rng(u64);

impl Rng {
    fn next(&mut self) -> u64 {
        // xorshift64*
        let mut x = self.0;
        x ^= x >> 12;
        x ^= x << 25;
        x ^= x >> 27;
        self.0 = x;
        x.wrapping_mul(0x2545F4914F6CDD1D)
    }

    fn below(&mut self, n: usize) -> usize {
        (self.next() % (n as u64)) as usize
    }

    fn chance(&mut self, percent: usize) -> bool {
        self.below(100) < percent
    }
}

fn key_universe(kind: usize) -> Vec<Vec<u8>> {
    match kind {
        // Few keys, so that many versions of one user key pile up
        0 => (0..6u8).map(|i| vec![b'k', b'0' + i]).collect(),
        // Nasty keys: empty key, 0x00 / 0xff runs, prefixes of each other
        1 => vec![
            vec![],
            vec![0],
            vec![0, 0],
            vec![0, 0xff],
            vec![b'a'],
            vec![b'a', 0],
            vec![b'a', b'a'],
            vec![b'a', 0xff],
            vec![b'b'],
            vec![0xfe],
            vec![0xff],
            vec![0xff, 0],
            vec![0xff, 0xff],
            vec![0xff, 0xff, 0xff],
        ],
        // More keys, longer
        _ => (0..40u32)
            .map(|i| format!("key-{:03}-{}", i, "x".repeat((i % 5) as usize)).into_bytes())
            .collect(),
    }
}

fn make_options(
    fs: Arc<dyn FileSystem>,
    memtable: usize,
    file: u64,
    block: usize,
    reuse: bool,
) -> DbOptions {
    DbOptions {
        db_path: if std::env::var("DISK").is_ok() { "audit2".to_string() } else { "/audit2".to_string() },
        max_memtable_size: memtable,
        max_file_size: file,
        max_block_size: block,
        filesystem_provider: fs,
        create_if_missing: true,
        reuse_log_files: reuse,
        ..DbOptions::default()
    }
}

fn read_at(snapshot: Option<&Snapshot>) -> ReadOptions {
    ReadOptions {
        fill_cache: true,
        snapshot: snapshot.cloned(),
    }
}

fn describe(entry: Option<(&Vec<u8>, &Vec<u8>)>) -> String {
    match entry {
        None => "<end>".to_string(),
        Some((k, v)) => format!("{:?}={:?}", k, String::from_utf8_lossy(v)),
    }
}

/// Compare `get` of every key of the universe at `snapshot` with the model.
fn check_gets(ctx: &str, db: &DB, snapshot: Option<&Snapshot>, universe: &[Vec<u8>], model: &Model) {
    for key in universe {
        let got = db.get(read_at(snapshot), key);
        match (got, model.get(key)) {
            (Ok(v), Some(exp)) if &v == exp => {}
            (Err(RainDBError::KeyNotFound), None) => {}
            (got, exp) => panic!(
                "{ctx}: get({key:?}) at the snapshot returned {got:?} but the state when the \
                 snapshot was taken holds {exp:?}",
                got = got.map(|v| String::from_utf8_lossy(&v).to_string()),
                exp = exp.map(|v| String::from_utf8_lossy(v).to_string()),
            ),
        }
    }
}

/// Full forward scan, full backward scan and a random walk; every position is compared.
fn check_iterator(
    ctx: &str,
    iter: &mut dyn RainDbIterator<Key = Vec<u8>, Error = RainDBError>,
    model: &Model,
    universe: &[Vec<u8>],
    rng: &mut Rng,
) {
    // forward
    iter.seek_to_first().unwrap();
    let mut expected = model.iter();
    loop {
        let exp = expected.next();
        let got = if iter.is_valid() { iter.current() } else { None };
        if got != exp {
            panic!(
                "{ctx}: forward scan delivered {} where the state at creation has {} (status {:?})",
                describe(got),
                describe(exp),
                iter.status()
            );
        }
        if exp.is_none() {
            break;
        }
        iter.next();
    }
    assert!(iter.status().is_none(), "{ctx}: status {:?}", iter.status());

    // backward
    iter.seek_to_last().unwrap();
    let mut expected = model.iter().rev();
    loop {
        let exp = expected.next();
        let got = if iter.is_valid() { iter.current() } else { None };
        if got != exp {
            panic!(
                "{ctx}: backward scan delivered {} where the state at creation has {} (status {:?})",
                describe(got),
                describe(exp),
                iter.status()
            );
        }
        if exp.is_none() {
            break;
        }
        iter.prev();
    }
    assert!(iter.status().is_none(), "{ctx}: status {:?}", iter.status());

    // random walk
    let mut position: Option<Vec<u8>> = None; // key of the current position, None = invalid
    for _ in 0..24 {
        let action = rng.below(5);
        let exp_key: Option<Vec<u8>> = match action {
            0 => {
                let target = universe[rng.below(universe.len())].clone();
                iter.seek(&target).unwrap();
                model
                    .range::<Vec<u8>, _>((Bound::Included(&target), Bound::Unbounded))
                    .next()
                    .map(|(k, _)| k.clone())
            }
            1 => {
                iter.seek_to_first().unwrap();
                model.keys().next().cloned()
            }
            2 => {
                iter.seek_to_last().unwrap();
                model.keys().next_back().cloned()
            }
            3 => match &position {
                None => continue,
                Some(cur) => {
                    iter.next();
                    model
                        .range::<Vec<u8>, _>((Bound::Excluded(cur), Bound::Unbounded))
                        .next()
                        .map(|(k, _)| k.clone())
                }
            },
            _ => match &position {
                None => continue,
                Some(cur) => {
                    iter.prev();
                    model
                        .range::<Vec<u8>, _>((Bound::Unbounded, Bound::Excluded(cur)))
                        .next_back()
                        .map(|(k, _)| k.clone())
                }
            },
        };
        let exp = exp_key.as_ref().map(|k| (k, model.get(k).unwrap()));
        let got = if iter.is_valid() { iter.current() } else { None };
        if got != exp {
            panic!(
                "{ctx}: random walk (action {action}, from {position:?}) delivered {} where the \
                 state at creation has {} (status {:?})",
                describe(got),
                describe(exp),
                iter.status()
            );
        }
        position = exp_key;
    }
}

struct LiveSnapshot {
    snapshot: Snapshot,
    model: Model,
    born: usize,
}

fn run(seed: u64, ops: usize, memtable: usize, file: u64, block: usize, universe_kind: usize) {
    let fs: Arc<dyn FileSystem> = if std::env::var("DISK").is_ok() {
        Arc::new(raindb::fs::TmpFileSystem::new(None))
    } else {
        Arc::new(InMemoryFileSystem::new())
    };
    let mut rng = Rng(seed.wrapping_mul(0x9E3779B97F4A7C15) | 1);
    let universe = key_universe(universe_kind);
    let mut reuse = rng.chance(50);
    let mut db = Some(DB::open(make_options(Arc::clone(&fs), memtable, file, block, reuse)).unwrap());
    let mut model: Model = BTreeMap::new();
    let mut snapshots: Vec<LiveSnapshot> = vec![];
    // iterator, model at creation, op index of creation
    let mut its: Vec<(Box<dyn RainDbIterator<Key = Vec<u8>, Error = RainDBError>>, Model, usize)> =
        vec![];
    let mut counter: u64 = 0;

    for op_index in 0..ops {
        let ctx = format!(
            "seed {seed} mem {memtable} file {file} block {block} universe {universe_kind} op {op_index}"
        );
        let database = db.as_ref().unwrap();
        let dice = rng.below(100);
        if dice < 45 {
            // put
            let key = universe[rng.below(universe.len())].clone();
            counter += 1;
            let len = [0usize, 1, 5, 20, 120][rng.below(5)];
            let mut value = format!("v{counter}-").into_bytes();
            value.extend(std::iter::repeat(b'a' + (counter % 26) as u8).take(len));
            if rng.chance(5) {
                value.clear();
            }
            database
                .put(WriteOptions::default(), key.clone(), value.clone())
                .unwrap();
            model.insert(key, value);
        } else if dice < 60 {
            let key = universe[rng.below(universe.len())].clone();
            database.delete(WriteOptions::default(), key.clone()).unwrap();
            model.remove(&key);
        } else if dice < 67 {
            // batch, possibly touching the same key several times
            let mut batch = Batch::new();
            for _ in 0..(1 + rng.below(5)) {
                let key = universe[rng.below(universe.len())].clone();
                if rng.chance(65) {
                    counter += 1;
                    let value = format!("b{counter}").into_bytes();
                    batch.add_put(key.clone(), value.clone());
                    model.insert(key, value);
                } else {
                    batch.add_delete(key.clone());
                    model.remove(&key);
                }
            }
            database.apply(WriteOptions::default(), batch).unwrap();
        } else if dice < 74 {
            if snapshots.len() < 5 {
                snapshots.push(LiveSnapshot {
                    snapshot: database.get_snapshot(),
                    model: model.clone(),
                    born: op_index,
                });
            }
        } else if dice < 78 {
            if !snapshots.is_empty() {
                let victim = snapshots.remove(rng.below(snapshots.len()));
                database.release_snapshot(victim.snapshot);
            }
        } else if dice < 84 {
            if its.len() < 4 {
                if !snapshots.is_empty() && rng.chance(50) {
                    let which = rng.below(snapshots.len());
                    let iter = database
                        .new_iterator(read_at(Some(&snapshots[which].snapshot)))
                        .unwrap();
                    its.push((Box::new(iter), snapshots[which].model.clone(), op_index));
                } else {
                    let iter = database.new_iterator(ReadOptions::default()).unwrap();
                    its.push((Box::new(iter), model.clone(), op_index));
                }
            }
        } else if dice < 87 {
            if !its.is_empty() {
                let index = rng.below(its.len());
                drop(its.remove(index));
            }
        } else if dice < 91 {
            // manual compaction of a random range (also flushes the memtable)
            let a = universe[rng.below(universe.len())].clone();
            let b = universe[rng.below(universe.len())].clone();
            let (lo, hi) = if a <= b { (a, b) } else { (b, a) };
            match rng.below(4) {
                0 => database.compact_range(None..None),
                1 => database.compact_range(Some(lo.as_slice())..None),
                2 => database.compact_range(None..Some(hi.as_slice())),
                _ => database.compact_range(Some(lo.as_slice())..Some(hi.as_slice())),
            }
        } else if dice < 97 {
            // check something that is alive
            if !snapshots.is_empty() {
                let which = rng.below(snapshots.len());
                let live = &snapshots[which];
                let c = format!("{ctx}: snapshot born at op {}", live.born);
                check_gets(&c, database, Some(&live.snapshot), &universe, &live.model);
                let mut iter = database.new_iterator(read_at(Some(&live.snapshot))).unwrap();
                check_iterator(&c, &mut iter, &live.model, &universe, &mut rng);
            }
            if !its.is_empty() {
                let which = rng.below(its.len());
                let (iter, iter_model, born) = &mut its[which];
                let c = format!("{ctx}: iterator born at op {born}");
                check_iterator(&c, iter.as_mut(), iter_model, &universe, &mut rng);
            }
            check_gets(&format!("{ctx}: current state"), database, None, &universe, &model);
        } else {
            // reopen: everything that refers to the old instance goes away first
            its.clear();
            for live in snapshots.drain(..) {
                database.release_snapshot(live.snapshot);
            }
            drop(db.take());
            reuse = rng.chance(50);
            db = Some(
                DB::open(make_options(Arc::clone(&fs), memtable, file, block, reuse)).unwrap(),
            );
            let database = db.as_ref().unwrap();
            check_gets(&format!("{ctx}: after reopen"), database, None, &universe, &model);
            // A snapshot and an iterator taken right after the reopen
            snapshots.push(LiveSnapshot {
                snapshot: database.get_snapshot(),
                model: model.clone(),
                born: op_index,
            });
            let iter = database.new_iterator(ReadOptions::default()).unwrap();
            its.push((Box::new(iter), model.clone(), op_index));
        }
    }

    // Final check of everything that is still alive
    let database = db.as_ref().unwrap();
    if std::env::var("SHAPE").is_ok() {
        let shape: Vec<String> = (0..7)
            .map(|level| {
                database
                    .get_descriptor(raindb::db::DatabaseDescriptor::NumFilesAtLevel(level))
                    .unwrap()
            })
            .collect();
        eprintln!("seed {seed} mem {memtable} file {file} block {block}: files per level {shape:?}, {} live snapshots", snapshots.len());
    }
    let ctx = format!("seed {seed} mem {memtable} file {file} block {block} final");
    for live in &snapshots {
        let c = format!("{ctx}: snapshot born at op {}", live.born);
        check_gets(&c, database, Some(&live.snapshot), &universe, &live.model);
        let mut iter = database.new_iterator(read_at(Some(&live.snapshot))).unwrap();
        check_iterator(&c, &mut iter, &live.model, &universe, &mut rng);
    }
    for (iter, iter_model, born) in its.iter_mut() {
        let c = format!("{ctx}: iterator born at op {born}");
        check_iterator(&c, iter.as_mut(), iter_model, &universe, &mut rng);
    }
    its.clear();
}

fn seeds() -> u64 {
    std::env::var("SEEDS").ok().and_then(|s| s.parse().ok()).unwrap_or(6)
}

fn ops() -> usize {
    std::env::var("OPS").ok().and_then(|s| s.parse().ok()).unwrap_or(500)
}

#[test]
fn one_entry_per_file_few_keys() {
    for seed in 0..seeds() {
        run(1000 + seed, ops(), 300, 1, 1, 0);
    }
}

#[test]
fn one_entry_per_file_nasty_keys() {
    for seed in 0..seeds() {
        run(2000 + seed, ops(), 500, 1, 1, 1);
    }
}

#[test]
fn one_entry_memtable() {
    for seed in 0..seeds() {
        run(3000 + seed, ops(), 1, 60, 40, 0);
        run(3500 + seed, ops(), 1, 1, 1, 1);
    }
}

#[test]
fn small_everything_more_keys() {
    for seed in 0..seeds() {
        run(4000 + seed, ops(), 700, 150, 60, 2);
        run(4500 + seed, ops(), 2000, 400, 1, 2);
    }
}
