//! Second audit, schedule fuzzing: writers, a manual compactor, snapshot readers and long-lived
//! iterators run in parallel while a `verif` handler injects random delays at *every* scheduling
//! point of the database (write path, flush, compaction steps, manifest writes, obsolete file
//! deletion, get). The configuration is tiny so that flushes, compactions (incl. flushes in the
//! middle of a table compaction) and file deletions happen all the time.
//!
//! Writers rewrite whole key groups atomically with a generation number. A snapshot / iterator
//! must show exactly one generation per group, the generation must lie between the last
//! generation completed before and the last generation started after the snapshot was taken, and
//! every later read through the same snapshot / iterator (get, forward, backward) must return the
//! identical state.
//!
//! Run with `cargo test --offline --features verif --test audit2_sched`.
#![cfg(feature = "verif")]

use std::collections::BTreeMap;
use std::sync::atomic::{AtomicBool, AtomicU64, Ordering};
use std::sync::Arc;
use std::thread;
use std::time::{Duration, Instant};

use raindb::fs::{FileSystem, InMemoryFileSystem};
use raindb::{Batch, DbOptions, RainDBError, RainDbIterator, ReadOptions, Snapshot, WriteOptions, DB};

const GROUPS: usize = 4;
const KEYS_PER_GROUP: usize = 6;

struct Jitter {
    state: AtomicU64,
    intensity: u64,
}

impl Jitter {
    fn roll(&self) -> u64 {
        // A racy xorshift is good enough as a source of jitter
        let mut x = self.state.load(Ordering::Relaxed);
        x ^= x << 13;
        x ^= x >> 7;
        x ^= x << 17;
        self.state.store(x, Ordering::Relaxed);
        x
    }
}

impl raindb::verif::Handler for Jitter {
    fn pause(&self, point: &'static str, _args: &[u64]) {
        let r = self.roll();
        // compact.step is hit once per entry: keep it cheap most of the time
        let modulus = if point == "compact.step" || point == "write.mem_insert" { 16 } else { 4 };
        match r % modulus {
            0 => thread::sleep(Duration::from_micros((r >> 8) % self.intensity)),
            1 => thread::yield_now(),
            _ => {}
        }
    }

    fn note(&self, _point: &'static str, _args: &[u64]) {}
}

fn key(group: usize, index: usize) -> Vec<u8> {
    format!("g{group}-k{index:02}").into_bytes()
}

fn value(group: usize, generation: u64) -> Vec<u8> {
    // A bit of padding so that tiny memtables fill up quickly
    format!("{group}:{generation}:{}", "p".repeat((generation % 40) as usize)).into_bytes()
}

fn parse_generation(value: &[u8]) -> u64 {
    let text = String::from_utf8_lossy(value);
    text.split(':').nth(1).unwrap().parse().unwrap()
}

/// The keys of `group` that exist at `generation` (every 5th generation deletes the odd keys).
fn expected_group_state(group: usize, generation: u64) -> BTreeMap<Vec<u8>, Vec<u8>> {
    let mut state = BTreeMap::new();
    if generation == 0 {
        return state;
    }
    for index in 0..KEYS_PER_GROUP {
        if generation % 5 == 0 && index % 2 == 1 {
            continue;
        }
        state.insert(key(group, index), value(group, generation));
    }
    state
}

fn read_at(snapshot: &Snapshot) -> ReadOptions {
    ReadOptions {
        fill_cache: true,
        snapshot: Some(snapshot.clone()),
    }
}

fn scan_forward(iter: &mut dyn RainDbIterator<Key = Vec<u8>, Error = RainDBError>) -> BTreeMap<Vec<u8>, Vec<u8>> {
    let mut out = BTreeMap::new();
    let mut last: Option<Vec<u8>> = None;
    iter.seek_to_first().unwrap();
    while iter.is_valid() {
        let (k, v) = iter.current().unwrap();
        if let Some(prev) = &last {
            assert!(prev < k, "forward scan not strictly increasing: {prev:?} then {k:?}");
        }
        last = Some(k.clone());
        out.insert(k.clone(), v.clone());
        iter.next();
    }
    assert!(iter.status().is_none(), "iterator status {:?}", iter.status());
    out
}

fn scan_backward(iter: &mut dyn RainDbIterator<Key = Vec<u8>, Error = RainDBError>) -> BTreeMap<Vec<u8>, Vec<u8>> {
    let mut out = BTreeMap::new();
    let mut last: Option<Vec<u8>> = None;
    iter.seek_to_last().unwrap();
    while iter.is_valid() {
        let (k, v) = iter.current().unwrap();
        if let Some(prev) = &last {
            assert!(prev > k, "backward scan not strictly decreasing: {prev:?} then {k:?}");
        }
        last = Some(k.clone());
        out.insert(k.clone(), v.clone());
        iter.prev();
    }
    assert!(iter.status().is_none(), "iterator status {:?}", iter.status());
    out
}

/// Check that `state` is one whole generation per group within the allowed bounds.
fn check_state(
    what: &str,
    state: &BTreeMap<Vec<u8>, Vec<u8>>,
    completed_before: &[u64; GROUPS],
    started_after: &[u64; GROUPS],
) {
    let mut rebuilt = BTreeMap::new();
    for group in 0..GROUPS {
        let prefix = format!("g{group}-").into_bytes();
        let mut generations: Vec<u64> = state
            .iter()
            .filter(|(k, _)| k.starts_with(&prefix))
            .map(|(_, v)| parse_generation(v))
            .collect();
        generations.dedup();
        let generation = match generations.len() {
            0 => 0,
            1 => generations[0],
            _ => panic!(
                "{what}: group {group} shows a mix of generations {generations:?}; a snapshot \
                 must show one atomic batch per group"
            ),
        };
        assert!(
            completed_before[group] <= generation && generation <= started_after[group],
            "{what}: group {group} shows generation {generation} but the snapshot was taken after \
             generation {} was committed and before generation {} was started",
            completed_before[group],
            started_after[group] + 1
        );
        rebuilt.extend(expected_group_state(group, generation));
    }
    assert_eq!(
        state, &rebuilt,
        "{what}: the observed state is not exactly the state written by the visible generations"
    );
}

fn get_state(db: &DB, snapshot: &Snapshot) -> BTreeMap<Vec<u8>, Vec<u8>> {
    let mut out = BTreeMap::new();
    for group in 0..GROUPS {
        for index in 0..KEYS_PER_GROUP {
            match db.get(read_at(snapshot), &key(group, index)) {
                Ok(v) => {
                    out.insert(key(group, index), v);
                }
                Err(RainDBError::KeyNotFound) => {}
                Err(err) => panic!("get failed: {err}"),
            }
        }
    }
    out
}

fn run(seed: u64, memtable: usize, file: u64, block: usize, millis: u64) {
    let jitter = Arc::new(Jitter {
        state: AtomicU64::new(seed | 1),
        intensity: 300,
    });
    raindb::verif::set_handler(Some(jitter));

    let fs: Arc<dyn FileSystem> = Arc::new(InMemoryFileSystem::new());
    let options = DbOptions {
        db_path: "/audit2-sched".to_string(),
        max_memtable_size: memtable,
        max_file_size: file,
        max_block_size: block,
        filesystem_provider: fs,
        create_if_missing: true,
        ..DbOptions::default()
    };
    let db = Arc::new(DB::open(options).unwrap());
    let stop = Arc::new(AtomicBool::new(false));
    let started: Arc<Vec<AtomicU64>> = Arc::new((0..GROUPS).map(|_| AtomicU64::new(0)).collect());
    let completed: Arc<Vec<AtomicU64>> = Arc::new((0..GROUPS).map(|_| AtomicU64::new(0)).collect());
    let mut handles = vec![];

    // Writers: each owns half of the groups
    for writer in 0..2usize {
        let (db, stop, started, completed) =
            (Arc::clone(&db), Arc::clone(&stop), Arc::clone(&started), Arc::clone(&completed));
        handles.push(thread::spawn(move || {
            let mut generation = [0u64; GROUPS];
            let mut turn = 0usize;
            while !stop.load(Ordering::Relaxed) {
                let group = writer * (GROUPS / 2) + (turn % (GROUPS / 2));
                turn += 1;
                generation[group] += 1;
                let g = generation[group];
                let mut batch = Batch::new();
                for index in 0..KEYS_PER_GROUP {
                    if g % 5 == 0 && index % 2 == 1 {
                        batch.add_delete(key(group, index));
                    } else {
                        batch.add_put(key(group, index), value(group, g));
                    }
                }
                started[group].store(g, Ordering::SeqCst);
                db.apply(WriteOptions::default(), batch).unwrap();
                completed[group].store(g, Ordering::SeqCst);
            }
        }));
    }

    // Manual compactor
    {
        let (db, stop) = (Arc::clone(&db), Arc::clone(&stop));
        handles.push(thread::spawn(move || {
            let mut n = 0u64;
            while !stop.load(Ordering::Relaxed) {
                n += 1;
                let lo = key((n % GROUPS as u64) as usize, 0);
                let hi = key((n % GROUPS as u64) as usize, KEYS_PER_GROUP - 1);
                match n % 3 {
                    0 => db.compact_range(None..None),
                    1 => db.compact_range(Some(lo.as_slice())..Some(hi.as_slice())),
                    _ => db.compact_range(Some(lo.as_slice())..None),
                }
                thread::sleep(Duration::from_millis(3));
            }
        }));
    }

    // Readers
    for reader in 0..3usize {
        let (db, stop, started, completed) =
            (Arc::clone(&db), Arc::clone(&stop), Arc::clone(&started), Arc::clone(&completed));
        handles.push(thread::spawn(move || {
            let mut rounds = 0u64;
            while !stop.load(Ordering::Relaxed) {
                rounds += 1;
                let mut before = [0u64; GROUPS];
                let mut after = [0u64; GROUPS];
                for g in 0..GROUPS {
                    before[g] = completed[g].load(Ordering::SeqCst);
                }
                // Either an explicit snapshot (+ iterator on it) or an iterator alone
                let explicit = (rounds + reader as u64) % 2 == 0;
                let snapshot = if explicit { Some(db.get_snapshot()) } else { None };
                let mut iter = match &snapshot {
                    Some(s) => db.new_iterator(read_at(s)).unwrap(),
                    None => db.new_iterator(ReadOptions::default()).unwrap(),
                };
                for g in 0..GROUPS {
                    after[g] = started[g].load(Ordering::SeqCst);
                }

                let what = format!("reader {reader} round {rounds} (explicit snapshot: {explicit})");
                let first = scan_forward(&mut iter);
                check_state(&format!("{what}, first forward scan"), &first, &before, &after);
                if let Some(s) = &snapshot {
                    let by_get = get_state(&db, s);
                    assert_eq!(by_get, first, "{what}: get and iteration disagree at one snapshot");
                }

                // Let the world change, then look again through the same handles
                for pass in 0..3 {
                    thread::sleep(Duration::from_millis(2 + (rounds % 5)));
                    let again = if pass % 2 == 0 {
                        scan_backward(&mut iter)
                    } else {
                        scan_forward(&mut iter)
                    };
                    assert_eq!(
                        again, first,
                        "{what}: pass {pass}: the long-lived iterator changed its view"
                    );
                    if let Some(s) = &snapshot {
                        let by_get = get_state(&db, s);
                        assert_eq!(by_get, first, "{what}: pass {pass}: get at the snapshot changed");
                        let mut fresh = db.new_iterator(read_at(s)).unwrap();
                        let fresh_state = if pass % 2 == 0 {
                            scan_forward(&mut fresh)
                        } else {
                            scan_backward(&mut fresh)
                        };
                        assert_eq!(
                            fresh_state, first,
                            "{what}: pass {pass}: a fresh iterator at the snapshot sees another state"
                        );
                    }
                }

                drop(iter);
                if let Some(s) = snapshot {
                    db.release_snapshot(s);
                }
            }
            eprintln!("reader {reader}: {rounds} rounds");
        }));
    }

    let deadline = Instant::now() + Duration::from_millis(millis);
    while Instant::now() < deadline {
        thread::sleep(Duration::from_millis(20));
        if handles.iter().any(|h| h.is_finished()) {
            break;
        }
    }
    stop.store(true, Ordering::SeqCst);
    let mut failed = false;
    for handle in handles {
        if let Err(panic) = handle.join() {
            failed = true;
            let message = panic
                .downcast_ref::<String>()
                .cloned()
                .or_else(|| panic.downcast_ref::<&str>().map(|s| s.to_string()))
                .unwrap_or_default();
            eprintln!("thread failed: {message}");
        }
    }
    eprintln!(
        "seed {seed}: generations written {:?}",
        completed.iter().map(|c| c.load(Ordering::SeqCst)).collect::<Vec<_>>()
    );
    raindb::verif::set_handler(None);
    assert!(!failed, "a thread observed a violation (see above), seed {seed} mem {memtable} file {file} block {block}");
}

#[test]
fn schedule_fuzz() {
    let millis: u64 = std::env::var("MILLIS").ok().and_then(|s| s.parse().ok()).unwrap_or(2500);
    let rounds: u64 = std::env::var("ROUNDS").ok().and_then(|s| s.parse().ok()).unwrap_or(1);
    for round in 0..rounds {
        run(0x1234_5678 + round, 600, 300, 64, millis);
        run(0x9999_0000 + round, 300, 1, 1, millis);
        run(0x7777_0000 + round, 4000, 1000, 200, millis);
    }
}
