//! Second audit of "a snapshot or iterator sees exactly the state at its creation, forever ... At
//! the same snapshot, get and iteration always agree with each other".
//!
//! Demonstration of the one (configuration dependent) violation found: with a filter policy whose
//! serialized filters are empty byte strings, `DB::get` answers `KeyNotFound` for every key that
//! lives in a table file, while an iterator at the same snapshot delivers the key. The memtable
//! flush that happens after the snapshot was taken is what changes the answer of `get`, so the
//! snapshot does not "see the state at its creation" through `get` any more either.
//!
//! `DbOptions::filter_policy` is not optional (there is no way to run without a filter policy), so
//! a do-nothing policy like the one below is the only way to switch filtering off. The policy
//! honours both documented invariants of `FilterPolicy::key_may_match`.
//!
//! Only the public API is used. `cargo test --offline --test audit_demo`.

use std::collections::BTreeMap;
use std::sync::Arc;

use raindb::filter_policy::FilterPolicyError;
use raindb::fs::InMemoryFileSystem;
use raindb::{
    DbOptions, FilterPolicy, RainDBError, RainDbIterator, ReadOptions, Snapshot, WriteOptions, DB,
};

/// "No filtering": never excludes a key. The serialized form of "everything may match" is the
/// empty byte string.
#[derive(Debug)]
struct NoFiltering;

impl FilterPolicy for NoFiltering {
    fn get_name(&self) -> String {
        "audit.NoFiltering".to_string()
    }

    fn create_filter(&self, _keys: &[Vec<u8>]) -> Vec<u8> {
        vec![]
    }

    fn key_may_match(&self, _key: &[u8], _filter: &[u8]) -> Result<bool, FilterPolicyError> {
        // Invariant 1 of the trait: true for every key that was in the list. Trivially satisfied.
        Ok(true)
    }
}

/// A filter that only knows about keys starting with `hot/` (e.g. because only those are looked
/// up by `get` often enough to deserve filter space). A key list without such keys yields an
/// empty filter; keys outside of the prefix always "may match".
#[derive(Debug)]
struct HotPrefixOnly;

impl FilterPolicy for HotPrefixOnly {
    fn get_name(&self) -> String {
        "audit.HotPrefixOnly".to_string()
    }

    fn create_filter(&self, keys: &[Vec<u8>]) -> Vec<u8> {
        // One byte per hot key: a (bad but valid) 8 bit fingerprint
        keys.iter()
            .filter(|key| key.starts_with(b"hot/"))
            .map(|key| key.iter().fold(7u8, |acc, byte| acc.wrapping_mul(31).wrapping_add(*byte)))
            .collect()
    }

    fn key_may_match(&self, key: &[u8], filter: &[u8]) -> Result<bool, FilterPolicyError> {
        if !key.starts_with(b"hot/") {
            return Ok(true);
        }
        let fingerprint = key.iter().fold(7u8, |acc, byte| acc.wrapping_mul(31).wrapping_add(*byte));
        Ok(filter.contains(&fingerprint))
    }
}

fn options(policy: Arc<dyn FilterPolicy>) -> DbOptions {
    DbOptions {
        db_path: "/audit-demo".to_string(),
        filesystem_provider: Arc::new(InMemoryFileSystem::new()),
        filter_policy: policy,
        create_if_missing: true,
        ..DbOptions::default()
    }
}

fn read_at(snapshot: &Snapshot) -> ReadOptions {
    ReadOptions {
        fill_cache: true,
        snapshot: Some(snapshot.clone()),
    }
}

fn iterate(db: &DB, snapshot: &Snapshot) -> BTreeMap<Vec<u8>, Vec<u8>> {
    let mut iter = db.new_iterator(read_at(snapshot)).unwrap();
    let mut seen = BTreeMap::new();
    iter.seek_to_first().unwrap();
    while iter.is_valid() {
        let (key, value) = iter.current().unwrap();
        seen.insert(key.clone(), value.clone());
        iter.next();
    }
    assert!(iter.status().is_none(), "iterator status: {:?}", iter.status());
    seen
}

fn get_all(db: &DB, snapshot: &Snapshot, keys: &[Vec<u8>]) -> BTreeMap<Vec<u8>, Vec<u8>> {
    let mut seen = BTreeMap::new();
    for key in keys {
        match db.get(read_at(snapshot), key) {
            Ok(value) => {
                seen.insert(key.clone(), value);
            }
            Err(RainDBError::KeyNotFound) => {}
            Err(error) => panic!("get({:?}) failed: {error}", String::from_utf8_lossy(key)),
        }
    }
    seen
}

fn show(state: &BTreeMap<Vec<u8>, Vec<u8>>) -> Vec<String> {
    state
        .iter()
        .map(|(k, v)| format!("{}={}", String::from_utf8_lossy(k), String::from_utf8_lossy(v)))
        .collect()
}

fn snapshot_survives_a_flush(policy: Arc<dyn FilterPolicy>, keys: Vec<Vec<u8>>) {
    let db = DB::open(options(policy)).unwrap();
    let mut model = BTreeMap::new();
    for (index, key) in keys.iter().enumerate() {
        let value = format!("value{index}").into_bytes();
        db.put(WriteOptions::default(), key.clone(), value.clone()).unwrap();
        model.insert(key.clone(), value);
    }

    let snapshot = db.get_snapshot();
    assert_eq!(get_all(&db, &snapshot, &keys), model, "get at the fresh snapshot");
    assert_eq!(iterate(&db, &snapshot), model, "iteration at the fresh snapshot");

    // Later history: nothing but a memtable flush (+ whatever compaction the range needs)
    db.compact_range(None..None);

    let by_iteration = iterate(&db, &snapshot);
    let by_get = get_all(&db, &snapshot, &keys);
    assert_eq!(
        by_iteration, model,
        "iteration at the snapshot no longer shows the state committed when it was taken"
    );
    assert_eq!(
        by_get,
        by_iteration,
        "get and iteration disagree at the same snapshot after a memtable flush:\n  state when the \
         snapshot was taken: {:?}\n  iteration at the snapshot:         {:?}\n  get at the snapshot: \
                      {:?}",
        show(&model),
        show(&by_iteration),
        show(&by_get)
    );
    db.release_snapshot(snapshot);
}

/// FAILS on the unmodified code: after the flush every `get` at the snapshot is `KeyNotFound`.
#[test]
fn get_and_iteration_agree_with_a_policy_that_does_not_filter() {
    let keys = (0..8).map(|i| format!("key{i}").into_bytes()).collect();
    snapshot_survives_a_flush(Arc::new(NoFiltering), keys);
}

/// FAILS on the unmodified code: the table's only 2 KiB filter range holds no `hot/` key, its
/// filter is empty and `get` loses the `cold/` keys although the policy says "may match" for them.
#[test]
fn get_and_iteration_agree_with_a_policy_that_filters_one_prefix_only() {
    let keys = (0..8).map(|i| format!("cold/{i}").into_bytes()).collect();
    snapshot_survives_a_flush(Arc::new(HotPrefixOnly), keys);
}

/// Control: passes. The same history with the default Bloom filter policy.
#[test]
fn control_default_bloom_policy() {
    let keys = (0..8).map(|i| format!("key{i}").into_bytes()).collect();
    snapshot_survives_a_flush(Arc::new(raindb::BloomFilterPolicy::new(10)), keys);
}

/// Control: passes. The prefix policy with at least one hot key in the filter range.
#[test]
fn control_prefix_policy_with_a_hot_key() {
    let mut keys: Vec<Vec<u8>> = (0..8).map(|i| format!("cold/{i}").into_bytes()).collect();
    keys.push(b"hot/1".to_vec());
    snapshot_survives_a_flush(Arc::new(HotPrefixOnly), keys);
}
