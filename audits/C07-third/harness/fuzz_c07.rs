// Differential fuzz: raindb vs BTreeMap model, hostile small configs.
// run: FUZZ_SEEDS=0..200 cargo test --offline --release --features verif --test fuzz_c07 -- --nocapture
use std::collections::BTreeMap;
use std::sync::Arc;
use std::time::{Duration, Instant};

use raindb::fs::{FileSystem, InMemoryFileSystem, OsFileSystem};
use raindb::{Batch, DbOptions, RainDBError, RainDbIterator, ReadOptions, Snapshot, WriteOptions, DB};
use rand::rngs::StdRng;
use rand::{Rng, SeedableRng};

type Model = BTreeMap<Vec<u8>, Vec<u8>>;

static PICKS: [std::sync::atomic::AtomicU64; 6] = [
    std::sync::atomic::AtomicU64::new(0), std::sync::atomic::AtomicU64::new(0), std::sync::atomic::AtomicU64::new(0),
    std::sync::atomic::AtomicU64::new(0), std::sync::atomic::AtomicU64::new(0), std::sync::atomic::AtomicU64::new(0),
];
struct Counter;
impl raindb::verif::Handler for Counter {
    fn pause(&self, _p: &'static str, _a: &[u64]) {}
    fn note(&self, p: &'static str, a: &[u64]) {
        use std::sync::atomic::Ordering::Relaxed;
        if p == "compaction.pick" {
            let (level, _n0, n1, manual, trivial) = (a[0], a[1], a[2], a[3], a[4]);
            if manual == 1 {
                PICKS[0].fetch_add(1, Relaxed); // manual rounds
                if level >= 1 { PICKS[1].fetch_add(1, Relaxed); } // manual at level >= 1
            } else if trivial == 1 {
                PICKS[2].fetch_add(1, Relaxed); // trivial moves
            } else if level == 0 {
                PICKS[3].fetch_add(1, Relaxed); // automatic L0 merges
            } else {
                PICKS[4].fetch_add(1, Relaxed); // automatic merges at level >= 1 (seek-triggered here)
            }
            if n1 > 0 && level >= 1 { PICKS[5].fetch_add(1, Relaxed); } // level>=1 with parent files
        }
    }
}

fn wait_quiet(db: &DB) {
    let start = Instant::now();
    loop {
        let p = db.verif_probe();
        if !p.has_immutable_memtable && !p.background_compaction_scheduled && !p.needs_compaction {
            return;
        }
        if p.bad_state.is_some() {
            panic!("bad state: {:?}", p.bad_state);
        }
        if start.elapsed() > Duration::from_secs(60) {
            panic!("never quiesced: {:?}", p);
        }
        std::thread::sleep(Duration::from_micros(200));
    }
}

fn layout(db: &DB) -> String {
    let mut s = String::new();
    for f in db.verif_files() {
        s.push_str(&format!(
            "  L{} #{} [{}@{}:{:?} .. {}@{}:{:?}] {}B\n",
            f.level,
            f.number,
            String::from_utf8_lossy(&f.smallest.user_key).chars().take(24).collect::<String>(),
            f.smallest.sequence,
            f.smallest.operation,
            String::from_utf8_lossy(&f.largest.user_key).chars().take(24).collect::<String>(),
            f.largest.sequence,
            f.largest.operation,
            f.size
        ));
    }
    s
}

fn dump_fwd(db: &DB, snap: Option<Snapshot>) -> Vec<(Vec<u8>, Vec<u8>)> {
    let mut it = db
        .new_iterator(ReadOptions { fill_cache: true, snapshot: snap })
        .unwrap();
    it.seek_to_first().unwrap();
    let mut out = vec![];
    while it.is_valid() {
        let (k, v) = it.current().unwrap();
        out.push((k.clone(), v.clone()));
        it.next();
    }
    assert!(it.status().is_none(), "iterator error {:?}", it.status());
    out
}

fn dump_bwd(db: &DB, snap: Option<Snapshot>) -> Vec<(Vec<u8>, Vec<u8>)> {
    let mut it = db
        .new_iterator(ReadOptions { fill_cache: false, snapshot: snap })
        .unwrap();
    it.seek_to_last().unwrap();
    let mut out = vec![];
    while it.is_valid() {
        let (k, v) = it.current().unwrap();
        out.push((k.clone(), v.clone()));
        it.prev();
    }
    assert!(it.status().is_none(), "iterator error {:?}", it.status());
    out.reverse();
    out
}

fn short(v: &[u8]) -> String {
    let head: String = v.iter().take(40).map(|b| if b.is_ascii_graphic() { (*b as char).to_string() } else { format!("\\x{:02x}", b) }).collect();
    if v.len() > 40 {
        format!("{}..({})", head, v.len())
    } else {
        head
    }
}

fn check_view(
    tag: &str,
    db: &DB,
    snap: Option<Snapshot>,
    model: &Model,
    keys: &[Vec<u8>],
    do_gets: bool,
    do_bwd: bool,
) -> Result<(), String> {
    let expect: Vec<(Vec<u8>, Vec<u8>)> = model.iter().map(|(k, v)| (k.clone(), v.clone())).collect();
    let got = dump_fwd(db, snap.clone());
    if got != expect {
        let mut msg = format!("{tag}: forward dump differs: got {} entries expected {}\n", got.len(), expect.len());
        let gm: Model = got.iter().cloned().collect();
        for (k, v) in model {
            match gm.get(k) {
                None => msg.push_str(&format!("   MISSING {} (expected {})\n", short(k), short(v))),
                Some(g) if g != v => msg.push_str(&format!("   WRONG {} got {} expected {}\n", short(k), short(g), short(v))),
                _ => {}
            }
        }
        for (k, v) in &gm {
            if !model.contains_key(k) {
                msg.push_str(&format!("   EXTRA {} = {}\n", short(k), short(v)));
            }
        }
        if gm.len() != got.len() {
            msg.push_str("   (duplicates or disorder in iteration)\n");
        }
        return Err(msg);
    }
    if do_bwd {
        let got = dump_bwd(db, snap.clone());
        if got != expect {
            return Err(format!("{tag}: backward dump differs: got {} entries expected {}", got.len(), expect.len()));
        }
    }
    if do_gets {
        for k in keys {
            let r = db.get(ReadOptions { fill_cache: true, snapshot: snap.clone() }, k);
            match (r, model.get(k)) {
                (Ok(v), Some(e)) if &v == e => {}
                (Err(RainDBError::KeyNotFound), None) => {}
                (r, e) => {
                    return Err(format!(
                        "{tag}: get({}) = {:?} expected {:?}",
                        short(k),
                        r.map(|v| short(&v)),
                        e.map(|v| short(v))
                    ))
                }
            }
        }
    }
    Ok(())
}

fn random_walk(tag: &str, db: &DB, snap: Option<Snapshot>, model: &Model, keys: &[Vec<u8>], rng: &mut StdRng, steps: usize) -> Result<(), String> {
    use std::ops::Bound::*;
    let mut it = db.new_iterator(ReadOptions { fill_cache: rng.gen_bool(0.5), snapshot: snap }).unwrap();
    let mut pos: Option<Vec<u8>> = None; // model position
    let mut trace: Vec<String> = vec![];
    for _ in 0..steps {
        let op = rng.gen_range(0..100);
        if op < 25 || pos.is_none() && op < 60 {
            let mut t = keys[rng.gen_range(0..keys.len())].clone();
            match rng.gen_range(0..4) {
                0 => t.push(0),
                1 => { t.pop(); }
                2 => t.push(0xff),
                _ => {}
            }
            it.seek(&t).unwrap();
            pos = model.range::<Vec<u8>, _>((Included(&t), Unbounded)).next().map(|(k, _)| k.clone());
            trace.push(format!("seek({})", short(&t)));
        } else if op < 30 || pos.is_none() && op < 80 {
            it.seek_to_first().unwrap();
            pos = model.keys().next().cloned();
            trace.push("first".into());
        } else if op < 35 || pos.is_none() {
            it.seek_to_last().unwrap();
            pos = model.keys().next_back().cloned();
            trace.push("last".into());
        } else if op < 70 {
            it.next();
            let p = pos.clone().unwrap();
            pos = model.range::<Vec<u8>, _>((Excluded(&p), Unbounded)).next().map(|(k, _)| k.clone());
            trace.push("next".into());
        } else {
            it.prev();
            let p = pos.clone().unwrap();
            pos = model.range::<Vec<u8>, _>((Unbounded, Excluded(&p))).next_back().map(|(k, _)| k.clone());
            trace.push("prev".into());
        }
        let got = if it.is_valid() { it.current().map(|(k, v)| (k.clone(), v.clone())) } else { None };
        let exp = pos.as_ref().map(|k| (k.clone(), model.get(k).unwrap().clone()));
        if got != exp {
            let n = trace.len();
            return Err(format!(
                "{tag}: iterator walk diverged after {:?}: got {:?} expected {:?}",
                &trace[n.saturating_sub(8)..],
                got.map(|(k, v)| (short(&k), short(&v))),
                exp.map(|(k, v)| (short(&k), short(&v)))
            ));
        }
    }
    Ok(())
}

struct Cfg {
    memtable: usize,
    file: u64,
    block: usize,
    nkeys: usize,
    ops: usize,
    os_fs: bool,
}

fn make_key(rng: &mut StdRng, style: u32, i: usize) -> Vec<u8> {
    match style {
        0 => format!("k{:05}", i).into_bytes(),
        1 => format!("{}", i).into_bytes(),
        2 => {
            // shared long prefix
            let mut k = vec![b'p'; 40 + (i % 7) * 30];
            k.extend_from_slice(format!("{:04}", i).as_bytes());
            k
        }
        3 => {
            // binary-ish keys incl. 0xff and empty
            if i == 0 {
                vec![]
            } else {
                let mut k = vec![];
                let mut x = i;
                while x > 0 {
                    k.push(match x % 4 {
                        0 => 0u8,
                        1 => 0xff,
                        2 => b'a',
                        _ => 0x7f,
                    });
                    x /= 4;
                }
                k
            }
        }
        5 => {
            // huge keys with a shared prefix of 66000 bytes
            let mut k = vec![b'h'; 66000 + (i % 3) * 1000];
            k.extend_from_slice(format!("{:04}", i).as_bytes());
            k
        }
        6 => {
            // huge keys differing early
            let mut k = format!("{:04}", i).into_bytes();
            k.extend(std::iter::repeat(b'a' + (i % 5) as u8).take(70000));
            k
        }
        _ => {
            let len = 1 + (i * 37) % 300;
            let mut k = format!("{:03}", i % 1000).into_bytes();
            while k.len() < len {
                k.push(b'a' + ((i + k.len()) % 3) as u8);
            }
            let _ = rng;
            k
        }
    }
}

fn run_seed(seed: u64) -> Result<String, String> {
    let mut rng = StdRng::seed_from_u64(seed);
    let cfg = Cfg {
        memtable: [300, 700, 2000, 6000, 20000][rng.gen_range(0..5)],
        file: [200, 600, 2000, 8000, 100000][rng.gen_range(0..5)],
        block: [1, 40, 200, 1000, 4096][rng.gen_range(0..5)],
        nkeys: [6, 30, 120, 600][rng.gen_range(0..4)],
        ops: [300, 1000, 3000][rng.gen_range(0..3)],
        os_fs: std::env::var("FUZZ_OSFS").is_ok(),
    };
    let mut cfg = cfg;
    let mut style = rng.gen_range(0..5u32);
    let big_values = rng.gen_bool(0.3);
    let huge = std::env::var("FUZZ_HUGE").is_ok();
    if huge {
        style = 5 + (seed % 2) as u32;
        cfg.nkeys = [6, 30][(seed % 2) as usize];
        cfg.ops = 300;
        cfg.memtable = [20000, 300000, 4 << 20][(seed % 3) as usize];
        cfg.file = [2000, 200000, 2 << 20][((seed / 3) % 3) as usize];
    }
    let mut keys: Vec<Vec<u8>> = (0..cfg.nkeys).map(|i| make_key(&mut rng, style, i)).collect();
    keys.sort();
    keys.dedup();

    let fs: Arc<dyn FileSystem> = if cfg.os_fs {
        Arc::new(OsFileSystem::new())
    } else {
        Arc::new(InMemoryFileSystem::new())
    };
    let path = if cfg.os_fs {
        let p = format!("/tmp/a3/C07/target/fuzzdb/s{}", seed);
        let _ = std::fs::remove_dir_all(&p);
        std::fs::create_dir_all(&p).unwrap();
        p
    } else {
        format!("/fz/s{}", seed)
    };
    let mk_opts = |memtable: usize, file: u64, block: usize| DbOptions {
        db_path: path.clone(),
        max_memtable_size: memtable,
        max_file_size: file,
        max_block_size: block,
        filesystem_provider: Arc::clone(&fs),
        create_if_missing: true,
        ..DbOptions::default()
    };
    let mut dbo: Option<DB> = Some(DB::open(mk_opts(cfg.memtable, cfg.file, cfg.block)).map_err(|e| format!("open: {e}"))?);
    let mut model: Model = Model::new();
    let mut snaps: Vec<(Snapshot, Model)> = vec![];
    let mut stats = (0usize, 0usize, 0usize, 0usize); // compact_range, checks, reopens, maxlevel
    let desc = format!(
        "seed {seed}: mem {} file {} block {} nkeys {} ops {} style {} big {}",
        cfg.memtable, cfg.file, cfg.block, keys.len(), cfg.ops, style, big_values
    );

    let full_check = |db: &DB, model: &Model, snaps: &Vec<(Snapshot, Model)>, tag: &str, keys: &[Vec<u8>]| -> Result<(), String> {
        check_view(&format!("{tag}/latest"), db, None, model, keys, true, true)?;
        for (i, (s, m)) in snaps.iter().enumerate() {
            check_view(&format!("{tag}/snap{i}"), db, Some(s.clone()), m, keys, true, true)?;
        }
        Ok(())
    };

    for opi in 0..cfg.ops {
        let r = rng.gen_range(0..1000);
        let res: Result<(), String> = (|| {
            let db = dbo.as_ref().unwrap();
            if r < 550 {
                let k = keys[rng.gen_range(0..keys.len())].clone();
                let vlen = if huge && rng.gen_bool(0.05) {
                    rng.gen_range(1_000_000..3_500_000)
                } else if big_values && rng.gen_bool(0.05) {
                    rng.gen_range(1000..5000)
                } else {
                    rng.gen_range(0..60)
                };
                let mut v = format!("v{}_", opi).into_bytes();
                while v.len() < vlen {
                    v.push(b'x');
                }
                db.put(WriteOptions::default(), k.clone(), v.clone()).map_err(|e| format!("put {e}"))?;
                model.insert(k, v);
            } else if r < 750 {
                let k = keys[rng.gen_range(0..keys.len())].clone();
                db.delete(WriteOptions::default(), k.clone()).map_err(|e| format!("del {e}"))?;
                model.remove(&k);
            } else if r < 800 {
                let mut b = Batch::new();
                let n = rng.gen_range(1..12);
                for j in 0..n {
                    let k = keys[rng.gen_range(0..keys.len())].clone();
                    if rng.gen_bool(0.6) {
                        let v = format!("b{}_{}", opi, j).into_bytes();
                        b.add_put(k.clone(), v.clone());
                        model.insert(k, v);
                    } else {
                        b.add_delete(k.clone());
                        model.remove(&k);
                    }
                }
                db.apply(WriteOptions::default(), b).map_err(|e| format!("batch {e}"))?;
            } else if r < 830 {
                if snaps.len() < 4 {
                    snaps.push((db.get_snapshot(), model.clone()));
                }
            } else if r < 850 {
                if !snaps.is_empty() {
                    let i = rng.gen_range(0..snaps.len());
                    let (s, _) = snaps.remove(i);
                    db.release_snapshot(s);
                }
            } else if r < 900 {
                // many gets on one key -> seek compaction
                let k = keys[rng.gen_range(0..keys.len())].clone();
                for _ in 0..rng.gen_range(1..250) {
                    let _ = db.get(ReadOptions::default(), &k);
                }
                let r = db.get(ReadOptions::default(), &k);
                match (r, model.get(&k)) {
                    (Ok(v), Some(e)) if &v == e => {}
                    (Err(RainDBError::KeyNotFound), None) => {}
                    (r, e) => return Err(format!("get({}) = {:?} expected {:?}", short(&k), r.map(|v| short(&v)), e.map(|v| short(v)))),
                }
            } else if r < 940 {
                // manual compaction with random bounds
                let a = if rng.gen_bool(0.3) { None } else { Some(keys[rng.gen_range(0..keys.len())].clone()) };
                let b = if rng.gen_bool(0.3) { None } else { Some(keys[rng.gen_range(0..keys.len())].clone()) };
                let (a, b) = match (a, b) {
                    (Some(x), Some(y)) if x > y && rng.gen_bool(0.9) => (Some(y), Some(x)),
                    o => o,
                };
                full_check(db, &model, &snaps, &format!("op{opi} before compact_range"), &keys)?;
                db.compact_range(a.as_deref()..b.as_deref());
                stats.0 += 1;
                full_check(db, &model, &snaps, &format!("op{opi} after compact_range({:?}..{:?})", a.as_ref().map(|k| short(k)), b.as_ref().map(|k| short(k))), &keys)?;
                stats.1 += 2;
            } else if r < 975 {
                if rng.gen_bool(0.5) {
                    wait_quiet(db);
                }
                full_check(db, &model, &snaps, &format!("op{opi} check"), &keys)?;
                random_walk(&format!("op{opi} walk latest"), db, None, &model, &keys, &mut rng, 60)?;
                for (i, (sn, m)) in snaps.iter().enumerate() {
                    random_walk(&format!("op{opi} walk snap{i}"), db, Some(sn.clone()), m, &keys, &mut rng, 40)?;
                }
                stats.1 += 1;
            } else if r < 985 {
                // reopen, maybe with changed options
                for (s, _) in snaps.drain(..) {
                    db.release_snapshot(s);
                }
                let (m, f, b) = if rng.gen_bool(0.5) {
                    (cfg.memtable, cfg.file, cfg.block)
                } else {
                    (
                        [300, 700, 2000, 6000, 20000][rng.gen_range(0..5)],
                        [200, 600, 2000, 8000, 100000][rng.gen_range(0..5)],
                        [1, 40, 200, 1000, 4096][rng.gen_range(0..5)],
                    )
                };
                let new_opts = mk_opts(m, f, b);
                dbo = None;
                dbo = Some(DB::open(new_opts).map_err(|e| format!("reopen: {e}"))?);
                let db = dbo.as_ref().unwrap();
                stats.2 += 1;
                full_check(db, &model, &snaps, &format!("op{opi} after reopen"), &keys)?;
            } else {
                let _ = db.get_descriptor(raindb::db::DatabaseDescriptor::Stats);
            }
            Ok(())
        })();
        if let Err(e) = res {
            return Err(format!("{desc}\n at op {opi}: {e}\nlayout:\n{}", layout(dbo.as_ref().unwrap())));
        }
        if opi % 64 == 0 {
            let ml = dbo.as_ref().unwrap().verif_files().iter().map(|f| f.level).max().unwrap_or(0);
            if ml > stats.3 {
                stats.3 = ml;
            }
        }
    }
    let db = dbo.as_ref().unwrap();
    wait_quiet(db);
    if let Err(e) = full_check(db, &model, &snaps, "final", &keys) {
        return Err(format!("{desc}\n at end: {e}\nlayout:\n{}", layout(dbo.as_ref().unwrap())));
    }
    let ml = db.verif_files().iter().map(|f| f.level).max().unwrap_or(0);
    if ml > stats.3 {
        stats.3 = ml;
    }
    for (s, _) in snaps.drain(..) {
        db.release_snapshot(s);
    }
    Ok(format!("{desc} -> ok: compact_range {} checks {} reopens {} maxlevel {}", stats.0, stats.1, stats.2, stats.3))
}

#[test]
fn fuzz() {
    let spec = std::env::var("FUZZ_SEEDS").unwrap_or_else(|_| "0..20".to_string());
    let (a, b) = spec.split_once("..").unwrap();
    let (a, b): (u64, u64) = (a.parse().unwrap(), b.parse().unwrap());
    let mut fails = 0;
    let mut maxl = [0usize; 8];
    raindb::verif::set_handler(Some(Arc::new(Counter)));
    for seed in a..b {
        let r = std::panic::catch_unwind(|| run_seed(seed));
        match r {
            Ok(Ok(s)) => {
                if let Some(p) = s.rfind("maxlevel ") {
                    let l: usize = s[p + 9..].trim().parse().unwrap();
                    maxl[l] += 1;
                }
                if std::env::var("FUZZ_VERBOSE").is_ok() {
                    println!("{s}");
                }
            }
            Ok(Err(e)) => {
                fails += 1;
                println!("FAIL {e}");
            }
            Err(p) => {
                fails += 1;
                let msg = p.downcast_ref::<String>().cloned().or_else(|| p.downcast_ref::<&str>().map(|s| s.to_string()));
                println!("PANIC seed {seed}: {:?}", msg);
            }
        }
    }
    println!("seeds {a}..{b}: fails {fails}; maxlevel histogram {:?}", maxl);
    let pk: Vec<u64> = PICKS.iter().map(|c| c.load(std::sync::atomic::Ordering::Relaxed)).collect();
    println!("picks: manual rounds {} (at level>=1: {}), trivial moves {}, automatic L0 merges {}, automatic merges at level>=1 {}, level>=1 merges with parent files {}", pk[0], pk[1], pk[2], pk[3], pk[4], pk[5]);
    assert_eq!(fails, 0);
}
