// Concurrent readers vs. flush/compaction/compact_range. Static keys must always be visible with their value;
// churn keys must never go back in time.
// run: MT_SEEDS=0..5 cargo test --offline --release --features verif --test mt_c07 -- --nocapture
use std::collections::HashMap;
use std::sync::atomic::{AtomicBool, AtomicU64, Ordering};
use std::sync::{Arc, Mutex};
use std::time::{Duration, Instant};

use raindb::fs::{FileSystem, InMemoryFileSystem, OsFileSystem};
use raindb::{DbOptions, RainDBError, RainDbIterator, ReadOptions, WriteOptions, DB};
use rand::rngs::StdRng;
use rand::{Rng, SeedableRng};

struct Jitter {
    ctr: AtomicU64,
    seed: u64,
}
impl raindb::verif::Handler for Jitter {
    fn pause(&self, _point: &'static str, _args: &[u64]) {
        let c = self.ctr.fetch_add(1, Ordering::Relaxed);
        let h = (c ^ self.seed).wrapping_mul(0x9E3779B97F4A7C15) >> 56;
        if h < 40 {
            std::thread::sleep(Duration::from_micros(h * 10));
        } else if h < 120 {
            std::thread::yield_now();
        }
    }
    fn note(&self, _point: &'static str, _args: &[u64]) {}
}

fn skey(i: usize) -> Vec<u8> {
    format!("k{:05}s", i).into_bytes()
}
fn ckey(i: usize) -> Vec<u8> {
    format!("k{:05}c", i).into_bytes()
}
fn sval(i: usize) -> Vec<u8> {
    format!("static-{i}-{}", "z".repeat(i % 50)).into_bytes()
}

fn run(seed: u64) -> Result<String, String> {
    let mut rng = StdRng::seed_from_u64(seed);
    let os = std::env::var("MT_OSFS").is_ok();
    let fs: Arc<dyn FileSystem> = if os { Arc::new(OsFileSystem::new()) } else { Arc::new(InMemoryFileSystem::new()) };
    let path = if os {
        let p = format!("/tmp/a3/C07/target/mtdb/s{seed}");
        let _ = std::fs::remove_dir_all(&p);
        std::fs::create_dir_all(&p).unwrap();
        p
    } else {
        format!("/mt/s{seed}")
    };
    let mem = [1000usize, 4000, 16000][rng.gen_range(0..3)];
    let file = [500u64, 2000, 20000][rng.gen_range(0..3)];
    let block = [32usize, 256, 4096][rng.gen_range(0..3)];
    let n = 300usize;
    let opts = DbOptions {
        db_path: path,
        max_memtable_size: mem,
        max_file_size: file,
        max_block_size: block,
        filesystem_provider: fs,
        create_if_missing: true,
        ..DbOptions::default()
    };
    raindb::verif::set_handler(Some(Arc::new(Jitter { ctr: AtomicU64::new(0), seed })));
    let db = Arc::new(DB::open(opts).map_err(|e| e.to_string())?);
    for i in 0..n {
        db.put(WriteOptions::default(), skey(i), sval(i)).unwrap();
    }
    let stop = Arc::new(AtomicBool::new(false));
    let err: Arc<Mutex<Option<String>>> = Arc::new(Mutex::new(None));
    let counters = Arc::new([AtomicU64::new(0), AtomicU64::new(0), AtomicU64::new(0), AtomicU64::new(0)]);
    let mut handles = vec![];
    // floor[i]: a counter value known to be committed for churn key i (0 = none). Deleted keys are rewritten later
    // with a larger counter, so a reader seeing a counter below the floor it loaded *before* the read is a violation,
    // and seeing NotFound is only legal if a delete could be in effect: we encode deletes as counter bumps too.
    let floors: Arc<Vec<AtomicU64>> = Arc::new((0..n).map(|_| AtomicU64::new(0)).collect());
    // writer
    {
        let (db, stop, floors, counters) = (db.clone(), stop.clone(), floors.clone(), counters.clone());
        let mut rng = StdRng::seed_from_u64(seed ^ 0xabc);
        handles.push(std::thread::spawn(move || {
            let mut c = 1u64;
            while !stop.load(Ordering::Relaxed) {
                let i = rng.gen_range(0..n);
                // value carries the counter; tombstones are modelled as value "D<counter>" written with put after a delete
                if rng.gen_bool(0.3) {
                    db.delete(WriteOptions::default(), ckey(i)).unwrap();
                }
                let v = format!("{:012}-{}", c, "q".repeat((c % 40) as usize)).into_bytes();
                db.put(WriteOptions::default(), ckey(i), v).unwrap();
                floors[i].store(c, Ordering::SeqCst);
                c += 1;
                counters[0].fetch_add(1, Ordering::Relaxed);
            }
        }));
    }
    // compactor
    {
        let (db, stop, counters) = (db.clone(), stop.clone(), counters.clone());
        let mut rng = StdRng::seed_from_u64(seed ^ 0xdef);
        handles.push(std::thread::spawn(move || {
            while !stop.load(Ordering::Relaxed) {
                let a = rng.gen_range(0..n);
                let b = rng.gen_range(a..n);
                let ka = skey(a);
                let kb = ckey(b);
                let r = match rng.gen_range(0..4) {
                    0 => None..None,
                    1 => Some(ka.as_slice())..None,
                    2 => None..Some(kb.as_slice()),
                    _ => Some(ka.as_slice())..Some(kb.as_slice()),
                };
                db.compact_range(r);
                counters[1].fetch_add(1, Ordering::Relaxed);
                std::thread::sleep(Duration::from_millis(rng.gen_range(0..5)));
            }
        }));
    }
    // readers
    for t in 0..3u64 {
        let (db, stop, floors, counters, err) = (db.clone(), stop.clone(), floors.clone(), counters.clone(), err.clone());
        let mut rng = StdRng::seed_from_u64(seed ^ (t + 1) * 7919);
        handles.push(std::thread::spawn(move || {
            let fail = |m: String| {
                let mut e = err.lock().unwrap();
                if e.is_none() {
                    *e = Some(m);
                }
            };
            while !stop.load(Ordering::Relaxed) {
                if rng.gen_bool(0.7) {
                    for _ in 0..50 {
                        let i = rng.gen_range(0..n);
                        match db.get(ReadOptions::default(), &skey(i)) {
                            Ok(v) if v == sval(i) => {}
                            r => {
                                fail(format!("reader {t}: get static {i} = {:?}", r.map(|v| String::from_utf8_lossy(&v).to_string())));
                                return;
                            }
                        }
                        let j = rng.gen_range(0..n);
                        let floor = floors[j].load(Ordering::SeqCst);
                        match db.get(ReadOptions::default(), &ckey(j)) {
                            Ok(v) => {
                                let c: u64 = std::str::from_utf8(&v[..12]).unwrap().parse().unwrap();
                                if c < floor {
                                    fail(format!("reader {t}: churn {j} went back: saw {c} floor {floor}"));
                                    return;
                                }
                            }
                            Err(RainDBError::KeyNotFound) => {
                                // legal only transiently between delete and put of a newer write; recheck: the floor must
                                // have moved or be about to move. Accept if floor==0 or a later get shows counter > floor.
                                if floor != 0 {
                                    let mut ok = false;
                                    let t0 = Instant::now();
                                    while t0.elapsed() < Duration::from_secs(10) {
                                        if let Ok(v) = db.get(ReadOptions::default(), &ckey(j)) {
                                            let c: u64 = std::str::from_utf8(&v[..12]).unwrap().parse().unwrap();
                                            if c > floor {
                                                ok = true;
                                            }
                                            break;
                                        }
                                        std::thread::yield_now();
                                    }
                                    if !ok {
                                        fail(format!("reader {t}: churn {j} missing with floor {floor}"));
                                        return;
                                    }
                                }
                            }
                            Err(e) => {
                                fail(format!("reader {t}: get churn error {e}"));
                                return;
                            }
                        }
                        counters[2].fetch_add(1, Ordering::Relaxed);
                    }
                } else {
                    // iterate: every static key must appear exactly once with its value, in order
                    let mut it = db.new_iterator(ReadOptions::default()).unwrap();
                    let bwd = rng.gen_bool(0.3);
                    let mut seen: HashMap<Vec<u8>, Vec<u8>> = HashMap::new();
                    let mut last: Option<Vec<u8>> = None;
                    if bwd {
                        it.seek_to_last().unwrap();
                    } else {
                        it.seek_to_first().unwrap();
                    }
                    let mut count = 0;
                    while it.is_valid() {
                        let (k, v) = it.current().unwrap();
                        if let Some(l) = &last {
                            let ordered = if bwd { k < l } else { k > l };
                            if !ordered {
                                fail(format!("reader {t}: iteration out of order/duplicate at {}", String::from_utf8_lossy(k)));
                                return;
                            }
                        }
                        last = Some(k.clone());
                        if k.last() == Some(&b's') {
                            seen.insert(k.clone(), v.clone());
                        }
                        count += 1;
                        if bwd {
                            it.prev();
                        } else {
                            it.next();
                        }
                    }
                    if let Some(e) = it.status() {
                        fail(format!("reader {t}: iterator status {e}"));
                        return;
                    }
                    for i in 0..n {
                        if seen.get(&skey(i)) != Some(&sval(i)) {
                            fail(format!("reader {t}: iteration (bwd={bwd}, {count} entries) static {i} = {:?}", seen.get(&skey(i)).map(|v| String::from_utf8_lossy(v).to_string())));
                            return;
                        }
                    }
                    counters[3].fetch_add(1, Ordering::Relaxed);
                }
            }
        }));
    }
    let secs: u64 = std::env::var("MT_SECS").ok().and_then(|s| s.parse().ok()).unwrap_or(6);
    let start = Instant::now();
    while start.elapsed() < Duration::from_secs(secs) {
        if err.lock().unwrap().is_some() {
            break;
        }
        std::thread::sleep(Duration::from_millis(20));
    }
    stop.store(true, Ordering::Relaxed);
    let mut panicked = false;
    for h in handles {
        if h.join().is_err() {
            panicked = true;
        }
    }
    raindb::verif::set_handler(None);
    let files = db.verif_files();
    let maxl = files.iter().map(|f| f.level).max().unwrap_or(0);
    let e = err.lock().unwrap().clone();
    if let Some(e) = e {
        return Err(format!("seed {seed} (mem {mem} file {file} block {block}): {e}"));
    }
    if panicked {
        return Err(format!("seed {seed}: a thread panicked"));
    }
    Ok(format!(
        "seed {seed} (mem {mem} file {file} block {block}): ok writes {} compact_range {} gets {} iterations {} maxlevel {maxl}",
        counters[0].load(Ordering::Relaxed),
        counters[1].load(Ordering::Relaxed),
        counters[2].load(Ordering::Relaxed),
        counters[3].load(Ordering::Relaxed)
    ))
}

#[test]
fn mt() {
    let spec = std::env::var("MT_SEEDS").unwrap_or_else(|_| "0..3".to_string());
    let (a, b) = spec.split_once("..").unwrap();
    let (a, b): (u64, u64) = (a.parse().unwrap(), b.parse().unwrap());
    let mut fails = 0;
    for seed in a..b {
        match run(seed) {
            Ok(s) => println!("{s}"),
            Err(e) => {
                fails += 1;
                println!("FAIL {e}");
            }
        }
    }
    assert_eq!(fails, 0);
}
