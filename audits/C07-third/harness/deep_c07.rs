// Deep-level (L3) differential test: bulk sequential load of incompressible values pushes files to L2 and,
// by size-triggered trivial moves, to L3; then random small overwrites/deletes/snapshots/compact_range.
// run: DEEP_SEEDS=0..4 cargo test --offline --release --features verif --test deep_c07 -- --nocapture
use std::collections::BTreeMap;
use std::rc::Rc;
use std::sync::Arc;
use std::time::{Duration, Instant};

use raindb::fs::{FileSystem, InMemoryFileSystem};
use raindb::{Batch, DbOptions, RainDBError, RainDbIterator, ReadOptions, Snapshot, WriteOptions, DB};
use rand::rngs::StdRng;
use rand::{Rng, RngCore, SeedableRng};

type Model = BTreeMap<Vec<u8>, Rc<Vec<u8>>>;

fn wait_quiet(db: &DB) {
    let start = Instant::now();
    loop {
        let p = db.verif_probe();
        if p.bad_state.is_some() {
            panic!("bad state: {:?}", p.bad_state);
        }
        if !p.has_immutable_memtable && !p.background_compaction_scheduled && !p.needs_compaction {
            return;
        }
        if start.elapsed() > Duration::from_secs(300) {
            panic!("never quiesced: {:?}", p);
        }
        std::thread::sleep(Duration::from_micros(500));
    }
}

fn level_counts(db: &DB) -> [usize; 7] {
    let mut c = [0usize; 7];
    for f in db.verif_files() {
        c[f.level] += 1;
    }
    c
}

fn short(v: &[u8]) -> String {
    let s = String::from_utf8_lossy(&v[..v.len().min(24)]).to_string();
    format!("{}({})", s, v.len())
}

fn check_view(tag: &str, db: &DB, snap: Option<Snapshot>, model: &Model, bwd: bool) -> Result<(), String> {
    let mut it = db.new_iterator(ReadOptions { fill_cache: false, snapshot: snap.clone() }).unwrap();
    if !bwd {
        it.seek_to_first().unwrap();
        let mut mi = model.iter();
        loop {
            let e = mi.next();
            let g = if it.is_valid() { it.current() } else { None };
            match (g, e) {
                (None, None) => break,
                (Some((k, v)), Some((ek, ev))) if k == ek && v == &**ev => {}
                (g, e) => {
                    return Err(format!(
                        "{tag}: forward iteration differs: got {:?} expected {:?}",
                        g.map(|(k, v)| (short(k), short(v))),
                        e.map(|(k, v)| (short(k), short(v)))
                    ))
                }
            }
            it.next();
        }
    } else {
        it.seek_to_last().unwrap();
        let mut mi = model.iter().rev();
        loop {
            let e = mi.next();
            let g = if it.is_valid() { it.current() } else { None };
            match (g, e) {
                (None, None) => break,
                (Some((k, v)), Some((ek, ev))) if k == ek && v == &**ev => {}
                (g, e) => {
                    return Err(format!(
                        "{tag}: backward iteration differs: got {:?} expected {:?}",
                        g.map(|(k, v)| (short(k), short(v))),
                        e.map(|(k, v)| (short(k), short(v)))
                    ))
                }
            }
            it.prev();
        }
    }
    if let Some(e) = it.status() {
        return Err(format!("{tag}: iterator status {e}"));
    }
    Ok(())
}

fn check_gets(tag: &str, db: &DB, snap: Option<Snapshot>, model: &Model, keys: &[Vec<u8>]) -> Result<(), String> {
    for k in keys {
        let r = db.get(ReadOptions { fill_cache: true, snapshot: snap.clone() }, k);
        match (r, model.get(k)) {
            (Ok(v), Some(e)) if v == **e => {}
            (Err(RainDBError::KeyNotFound), None) => {}
            (r, e) => {
                return Err(format!("{tag}: get({}) = {:?} expected {:?}", short(k), r.map(|v| short(&v)), e.map(|v| short(v))))
            }
        }
    }
    Ok(())
}

fn run(seed: u64) -> Result<String, String> {
    let mut rng = StdRng::seed_from_u64(seed);
    let fs: Arc<dyn FileSystem> = Arc::new(InMemoryFileSystem::new());
    let path = format!("/deep/s{seed}");
    let mk = |mem: usize, file: u64, block: usize| DbOptions {
        db_path: path.clone(),
        max_memtable_size: mem,
        max_file_size: file,
        max_block_size: block,
        filesystem_provider: Arc::clone(&fs),
        create_if_missing: true,
        ..DbOptions::default()
    };
    let nkeys = 1300 + (seed as usize % 3) * 100;
    let vsize = 100 * 1024;
    let keys: Vec<Vec<u8>> = (0..nkeys).map(|i| format!("key{:06}", i * 10).into_bytes()).collect();
    let mut model = Model::new();
    let t0 = Instant::now();
    {
        let db = DB::open(mk(4 << 20, 2 << 20, 4096)).map_err(|e| e.to_string())?;
        for k in &keys {
            let mut v = vec![0u8; vsize];
            rng.fill_bytes(&mut v);
            db.put(WriteOptions::default(), k.clone(), v.clone()).map_err(|e| e.to_string())?;
            model.insert(k.clone(), Rc::new(v));
        }
        wait_quiet(&db);
        let lc = level_counts(&db);
        println!("seed {seed}: bulk load {} keys in {:?}; levels {:?}", nkeys, t0.elapsed(), lc);
        check_view("after bulk", &db, None, &model, false)?;
    }
    // phase 2: hostile small config
    let mem = [2000usize, 20000, 200000][rng.gen_range(0..3)];
    let file = [1000u64, 20000, 300000][rng.gen_range(0..3)];
    let block = [64usize, 1024, 4096][rng.gen_range(0..3)];
    let db = DB::open(mk(mem, file, block)).map_err(|e| e.to_string())?;
    wait_quiet(&db);
    println!("seed {seed}: phase 2 mem {mem} file {file} block {block}; levels {:?}", level_counts(&db));
    let mut allkeys: Vec<Vec<u8>> = keys.clone();
    for i in 0..nkeys {
        if i % 3 == 0 {
            allkeys.push(format!("key{:06}", i * 10 + 5).into_bytes());
        }
    }
    allkeys.sort();
    let mut snaps: Vec<(Snapshot, Model)> = vec![];
    let nops = 6000;
    let mut ncompact = 0;
    let mut nchecks = 0;
    let mut maxdeep = [0usize; 7];
    // keys are drawn from a moving window so that tombstones concentrate
    for opi in 0..nops {
        let window = 60;
        let base = (opi / 200 * 97) % (allkeys.len() - window);
        let pick = |rng: &mut StdRng| -> Vec<u8> {
            if rng.gen_bool(0.8) {
                allkeys[base + rng.gen_range(0..window)].clone()
            } else {
                allkeys[rng.gen_range(0..allkeys.len())].clone()
            }
        };
        let r = rng.gen_range(0..1000);
        let tag = format!("seed {seed} op {opi}");
        if r < 450 {
            let k = pick(&mut rng);
            let mut v = format!("small{}_", opi).into_bytes();
            let extra = rng.gen_range(0..80);
            v.extend(std::iter::repeat(b'y').take(extra));
            db.put(WriteOptions::default(), k.clone(), v.clone()).map_err(|e| e.to_string())?;
            model.insert(k, Rc::new(v));
        } else if r < 800 {
            let k = pick(&mut rng);
            db.delete(WriteOptions::default(), k.clone()).map_err(|e| e.to_string())?;
            model.remove(&k);
        } else if r < 830 {
            let mut b = Batch::new();
            for j in 0..rng.gen_range(1..10) {
                let k = pick(&mut rng);
                if rng.gen_bool(0.5) {
                    let v = format!("b{}_{}", opi, j).into_bytes();
                    b.add_put(k.clone(), v.clone());
                    model.insert(k, Rc::new(v));
                } else {
                    b.add_delete(k.clone());
                    model.remove(&k);
                }
            }
            db.apply(WriteOptions::default(), b).map_err(|e| e.to_string())?;
        } else if r < 850 {
            if snaps.len() < 3 {
                snaps.push((db.get_snapshot(), model.clone()));
            }
        } else if r < 865 {
            if !snaps.is_empty() {
                let i = rng.gen_range(0..snaps.len());
                let (s, _) = snaps.remove(i);
                db.release_snapshot(s);
            }
        } else if r < 900 {
            let k = pick(&mut rng);
            for _ in 0..rng.gen_range(50..220) {
                let _ = db.get(ReadOptions::default(), &k);
            }
        } else if r < 930 {
            // compact a sub range around the window
            let lo = base.saturating_sub(rng.gen_range(0..30));
            let hi = (base + window + rng.gen_range(0..30)).min(allkeys.len() - 1);
            let a = if rng.gen_bool(0.1) { None } else { Some(allkeys[lo].clone()) };
            let b = if rng.gen_bool(0.1) { None } else { Some(allkeys[hi].clone()) };
            let sample: Vec<Vec<u8>> = allkeys[lo..=hi].to_vec();
            check_gets(&format!("{tag} before compact_range"), &db, None, &model, &sample)?;
            db.compact_range(a.as_deref()..b.as_deref());
            ncompact += 1;
            check_gets(&format!("{tag} after compact_range"), &db, None, &model, &sample)?;
            for (i, (s, m)) in snaps.iter().enumerate() {
                check_gets(&format!("{tag} after compact_range snap{i}"), &db, Some(s.clone()), m, &sample)?;
            }
            nchecks += 1;
        } else if r < 960 {
            let lo = base.saturating_sub(40);
            let hi = (base + window + 40).min(allkeys.len() - 1);
            let sample: Vec<Vec<u8>> = allkeys[lo..=hi].to_vec();
            check_gets(&format!("{tag} gets"), &db, None, &model, &sample)?;
            for (i, (s, m)) in snaps.iter().enumerate() {
                check_gets(&format!("{tag} gets snap{i}"), &db, Some(s.clone()), m, &sample)?;
            }
            nchecks += 1;
        } else if r < 966 {
            if rng.gen_bool(0.5) {
                wait_quiet(&db);
            }
            check_view(&format!("{tag} full"), &db, None, &model, rng.gen_bool(0.3))?;
            if let Some((s, m)) = snaps.first() {
                check_view(&format!("{tag} full snap0"), &db, Some(s.clone()), m, rng.gen_bool(0.3))?;
            }
            nchecks += 1;
        }
        if opi % 100 == 0 {
            let lc = level_counts(&db);
            for l in 0..7 {
                maxdeep[l] = maxdeep[l].max(lc[l]);
            }
        }
    }
    wait_quiet(&db);
    check_view("final fwd", &db, None, &model, false)?;
    check_view("final bwd", &db, None, &model, true)?;
    check_gets("final gets", &db, None, &model, &allkeys)?;
    for (i, (s, m)) in snaps.iter().enumerate() {
        check_view(&format!("final snap{i}"), &db, Some(s.clone()), m, false)?;
        check_gets(&format!("final gets snap{i}"), &db, Some(s.clone()), m, &allkeys)?;
    }
    let lc = level_counts(&db);
    for (s, _) in snaps.drain(..) {
        db.release_snapshot(s);
    }
    Ok(format!(
        "seed {seed}: ok in {:?}; compact_range {ncompact} checks {nchecks}; final levels {:?}; max files/level {:?}",
        t0.elapsed(),
        lc,
        maxdeep
    ))
}

#[test]
fn deep() {
    let spec = std::env::var("DEEP_SEEDS").unwrap_or_else(|_| "0..1".to_string());
    let (a, b) = spec.split_once("..").unwrap();
    let (a, b): (u64, u64) = (a.parse().unwrap(), b.parse().unwrap());
    let mut fails = 0;
    for seed in a..b {
        match run(seed) {
            Ok(s) => println!("{s}"),
            Err(e) => {
                fails += 1;
                println!("FAIL seed {seed}: {e}");
            }
        }
    }
    assert_eq!(fails, 0);
}
