// A reader parked between the memtable lookup and the table lookup (and an iterator parked mid-way) while
// flushes, compactions, compact_range and obsolete-file collection go on underneath.
// run: cargo test --offline --release --features verif --test pin_c07 -- --nocapture
use std::sync::atomic::{AtomicBool, AtomicU64, Ordering};
use std::sync::Arc;
use std::time::Duration;

use raindb::fs::{FileSystem, InMemoryFileSystem};
use raindb::{DbOptions, RainDbIterator, ReadOptions, WriteOptions, DB};

struct Park {
    armed: AtomicBool,
    parked: AtomicBool,
    release: AtomicBool,
    point: &'static str,
    hits: AtomicU64,
}
impl raindb::verif::Handler for Park {
    fn pause(&self, point: &'static str, _args: &[u64]) {
        if point == self.point && std::thread::current().name() == Some("reader") && self.armed.swap(false, Ordering::SeqCst) {
            self.parked.store(true, Ordering::SeqCst);
            self.hits.fetch_add(1, Ordering::SeqCst);
            while !self.release.load(Ordering::SeqCst) {
                std::thread::sleep(Duration::from_micros(100));
            }
        }
    }
    fn note(&self, _point: &'static str, _args: &[u64]) {}
}

fn key(i: usize) -> Vec<u8> {
    format!("key{:05}", i).into_bytes()
}

fn scenario(point: &'static str, mem: usize, file: u64) {
    let fs: Arc<dyn FileSystem> = Arc::new(InMemoryFileSystem::new());
    let opts = DbOptions {
        db_path: format!("/pin/{point}/{mem}/{file}"),
        max_memtable_size: mem,
        max_file_size: file,
        max_block_size: 256,
        filesystem_provider: fs,
        create_if_missing: true,
        ..DbOptions::default()
    };
    let park = Arc::new(Park {
        armed: AtomicBool::new(false),
        parked: AtomicBool::new(false),
        release: AtomicBool::new(false),
        point,
        hits: AtomicU64::new(0),
    });
    raindb::verif::set_handler(Some(park.clone()));
    let db = Arc::new(DB::open(opts).unwrap());
    let n = 400;
    for i in 0..n {
        db.put(WriteOptions::default(), key(i), format!("old{i}").into_bytes()).unwrap();
    }
    db.compact_range(None..None);
    // target key lives in a table now. The reader takes a snapshot-less get and parks.
    let target = key(123);
    park.armed.store(true, Ordering::SeqCst);
    let reader = {
        let db = db.clone();
        let target = target.clone();
        std::thread::Builder::new()
            .name("reader".into())
            .spawn(move || {
                let g = db.get(ReadOptions::default(), &target);
                // iterator: created now, parked never; just dump
                g
            })
            .unwrap()
    };
    while !park.parked.load(Ordering::SeqCst) {
        std::thread::sleep(Duration::from_micros(100));
    }
    // underneath: delete + overwrite everything several times, compact fully several times
    for round in 0..4 {
        for i in 0..n {
            if i % 2 == round % 2 {
                db.delete(WriteOptions::default(), key(i)).unwrap();
            } else {
                db.put(WriteOptions::default(), key(i), format!("new{round}_{i}").into_bytes()).unwrap();
            }
        }
        db.compact_range(None..None);
    }
    park.release.store(true, Ordering::SeqCst);
    let got = reader.join().unwrap();
    raindb::verif::set_handler(None);
    // The get started when the value was old123; any committed state between start and end is acceptable for a
    // snapshot-less get only if it is the state at the start (the read sequence is fixed at the start).
    assert_eq!(
        got.as_ref().map(|v| String::from_utf8_lossy(v).to_string()).map_err(|e| e.to_string()),
        Ok("old123".to_string()),
        "point {point} mem {mem} file {file}"
    );
    assert_eq!(park.hits.load(Ordering::SeqCst), 1);
}

#[test]
fn parked_get() {
    for point in ["get.unlocked", "get.before_imm", "get.before_tables"] {
        for (mem, file) in [(1000usize, 500u64), (8000, 2000), (100000, 100000)] {
            scenario(point, mem, file);
        }
    }
}

#[test]
fn parked_iterator() {
    // an iterator positioned in the middle, everything rewritten and compacted underneath, then continued
    for (mem, file) in [(1000usize, 500u64), (8000, 2000), (100000, 100000)] {
        let fs: Arc<dyn FileSystem> = Arc::new(InMemoryFileSystem::new());
        let opts = DbOptions {
            db_path: format!("/pinit/{mem}/{file}"),
            max_memtable_size: mem,
            max_file_size: file,
            max_block_size: 256,
            filesystem_provider: fs,
            create_if_missing: true,
            ..DbOptions::default()
        };
        let db = DB::open(opts).unwrap();
        let n = 400;
        for i in 0..n {
            db.put(WriteOptions::default(), key(i), format!("old{i}").into_bytes()).unwrap();
        }
        db.compact_range(None..None);
        for i in 0..n {
            if i % 3 == 0 {
                db.put(WriteOptions::default(), key(i), format!("mid{i}").into_bytes()).unwrap();
            }
        }
        let expect: Vec<(Vec<u8>, Vec<u8>)> = (0..n)
            .map(|i| (key(i), if i % 3 == 0 { format!("mid{i}") } else { format!("old{i}") }.into_bytes()))
            .collect();
        let mut it = db.new_iterator(ReadOptions::default()).unwrap();
        it.seek(&key(200)).unwrap();
        let mut got_fwd = vec![];
        for _ in 0..50 {
            let (k, v) = it.current().unwrap();
            got_fwd.push((k.clone(), v.clone()));
            it.next();
        }
        for round in 0..4 {
            for i in 0..n {
                if i % 2 == round % 2 {
                    db.delete(WriteOptions::default(), key(i)).unwrap();
                } else {
                    db.put(WriteOptions::default(), key(i), format!("new{round}_{i}").into_bytes()).unwrap();
                }
            }
            db.compact_range(None..None);
        }
        while it.is_valid() {
            let (k, v) = it.current().unwrap();
            got_fwd.push((k.clone(), v.clone()));
            it.next();
        }
        assert!(it.status().is_none());
        assert_eq!(got_fwd, expect[200..].to_vec(), "forward mem {mem} file {file}");
        // and backward over everything
        it.seek_to_last().unwrap();
        let mut got_bwd = vec![];
        while it.is_valid() {
            let (k, v) = it.current().unwrap();
            got_bwd.push((k.clone(), v.clone()));
            it.prev();
        }
        got_bwd.reverse();
        assert_eq!(got_bwd, expect, "backward mem {mem} file {file}");
    }
}
