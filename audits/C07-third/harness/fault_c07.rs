// Single-fault sweep: one injected I/O error (per kind of file system call, per call index) during a workload with
// flushes, automatic compactions and compact_range. Acknowledged contents must be intact on the live handle and
// after a reopen with a healthy file system.
// run: cargo test --offline --release --features verif --test fault_c07 -- --nocapture
use std::collections::{BTreeMap, BTreeSet};
use std::io::{self, Read, Seek, SeekFrom, Write};
use std::path::{Path, PathBuf};
use std::sync::atomic::{AtomicBool, AtomicI64, AtomicU64, Ordering};
use std::sync::Arc;
use std::time::{Duration, Instant};

use raindb::fs::{FileLock, FileSystem, InMemoryFileSystem, RandomAccessFile, ReadonlyRandomAccessFile};
use raindb::{DbOptions, RainDBError, RainDbIterator, ReadOptions, WriteOptions, DB};

const KINDS: [&str; 9] = ["create_file", "write", "rename", "remove_file", "open_file", "read", "list_dir", "get_file_size", "flush"];

struct FaultState {
    counts: [AtomicU64; 9],
    target_kind: AtomicI64,
    target_index: AtomicU64,
    sticky: AtomicBool,
    fired: AtomicBool,
    fired_path: std::sync::Mutex<String>,
}
impl FaultState {
    fn new() -> Self {
        Self {
            counts: Default::default(),
            target_kind: AtomicI64::new(-1),
            target_index: AtomicU64::new(0),
            sticky: AtomicBool::new(false),
            fired: AtomicBool::new(false),
            fired_path: std::sync::Mutex::new(String::new()),
        }
    }
    fn hit(&self, kind: usize, path: &str) -> io::Result<()> {
        let n = self.counts[kind].fetch_add(1, Ordering::SeqCst);
        if self.target_kind.load(Ordering::SeqCst) == kind as i64 {
            let t = self.target_index.load(Ordering::SeqCst);
            if n == t || (self.sticky.load(Ordering::SeqCst) && n > t) {
                if !self.fired.swap(true, Ordering::SeqCst) {
                    *self.fired_path.lock().unwrap() = path.to_string();
                }
                return Err(io::Error::new(io::ErrorKind::Other, format!("injected {} #{n}", KINDS[kind])));
            }
        }
        Ok(())
    }
}

struct FaultFs {
    inner: Arc<InMemoryFileSystem>,
    st: Arc<FaultState>,
}
struct RoFile {
    inner: Box<dyn ReadonlyRandomAccessFile>,
    st: Arc<FaultState>,
    path: String,
}
struct RwFile {
    inner: Box<dyn RandomAccessFile>,
    st: Arc<FaultState>,
    path: String,
}
impl Read for RoFile {
    fn read(&mut self, buf: &mut [u8]) -> io::Result<usize> {
        self.st.hit(5, &self.path)?;
        self.inner.read(buf)
    }
}
impl Seek for RoFile {
    fn seek(&mut self, pos: SeekFrom) -> io::Result<u64> {
        self.inner.seek(pos)
    }
}
impl ReadonlyRandomAccessFile for RoFile {
    fn read_from(&self, buf: &mut [u8], offset: usize) -> io::Result<usize> {
        self.st.hit(5, &self.path)?;
        self.inner.read_from(buf, offset)
    }
    fn len(&self) -> io::Result<u64> {
        self.inner.len()
    }
}
impl Read for RwFile {
    fn read(&mut self, buf: &mut [u8]) -> io::Result<usize> {
        self.st.hit(5, &self.path)?;
        self.inner.read(buf)
    }
}
impl Seek for RwFile {
    fn seek(&mut self, pos: SeekFrom) -> io::Result<u64> {
        self.inner.seek(pos)
    }
}
impl Write for RwFile {
    fn write(&mut self, buf: &[u8]) -> io::Result<usize> {
        self.st.hit(1, &self.path)?;
        self.inner.write(buf)
    }
    fn flush(&mut self) -> io::Result<()> {
        self.st.hit(8, &self.path)?;
        self.inner.flush()
    }
}
impl ReadonlyRandomAccessFile for RwFile {
    fn read_from(&self, buf: &mut [u8], offset: usize) -> io::Result<usize> {
        self.st.hit(5, &self.path)?;
        self.inner.read_from(buf, offset)
    }
    fn len(&self) -> io::Result<u64> {
        self.inner.len()
    }
}
impl RandomAccessFile for RwFile {
    fn append(&mut self, buf: &[u8]) -> io::Result<usize> {
        self.st.hit(1, &self.path)?;
        self.inner.append(buf)
    }
}
impl FileSystem for FaultFs {
    fn get_name(&self) -> String {
        "FaultFs".into()
    }
    fn create_dir(&self, path: &Path) -> io::Result<()> {
        self.inner.create_dir(path)
    }
    fn create_dir_all(&self, path: &Path) -> io::Result<()> {
        self.inner.create_dir_all(path)
    }
    fn list_dir(&self, path: &Path) -> io::Result<Vec<PathBuf>> {
        self.st.hit(6, &path.to_string_lossy())?;
        self.inner.list_dir(path)
    }
    fn open_file(&self, path: &Path) -> io::Result<Box<dyn ReadonlyRandomAccessFile>> {
        self.st.hit(4, &path.to_string_lossy())?;
        Ok(Box::new(RoFile { inner: self.inner.open_file(path)?, st: self.st.clone(), path: path.to_string_lossy().to_string() }))
    }
    fn rename(&self, from: &Path, to: &Path) -> io::Result<()> {
        self.st.hit(2, &from.to_string_lossy())?;
        self.inner.rename(from, to)
    }
    fn create_file(&self, path: &Path, append: bool) -> io::Result<Box<dyn RandomAccessFile>> {
        self.st.hit(0, &path.to_string_lossy())?;
        Ok(Box::new(RwFile { inner: self.inner.create_file(path, append)?, st: self.st.clone(), path: path.to_string_lossy().to_string() }))
    }
    fn remove_file(&self, path: &Path) -> io::Result<()> {
        self.st.hit(3, &path.to_string_lossy())?;
        self.inner.remove_file(path)
    }
    fn remove_dir(&self, path: &Path) -> io::Result<()> {
        self.inner.remove_dir(path)
    }
    fn remove_dir_all(&self, path: &Path) -> io::Result<()> {
        self.inner.remove_dir_all(path)
    }
    fn get_file_size(&self, path: &Path) -> io::Result<u64> {
        self.st.hit(7, &path.to_string_lossy())?;
        self.inner.get_file_size(path)
    }
    fn is_dir(&self, path: &Path) -> io::Result<bool> {
        self.inner.is_dir(path)
    }
    fn lock_file(&self, path: &Path) -> io::Result<FileLock> {
        self.inner.lock_file(path)
    }
}

type Model = BTreeMap<Vec<u8>, Vec<u8>>;

fn key(i: usize) -> Vec<u8> {
    format!("key{:04}", i).into_bytes()
}

fn wait_quiet(db: &DB) {
    let start = Instant::now();
    loop {
        let p = db.verif_probe();
        if p.bad_state.is_some() || (!p.has_immutable_memtable && !p.background_compaction_scheduled && !p.needs_compaction) {
            return;
        }
        if start.elapsed() > Duration::from_secs(20) {
            panic!("never quiesced {:?}", p);
        }
        std::thread::sleep(Duration::from_micros(200));
    }
}

fn check(tag: &str, db: &DB, model: &Model, uncertain: &BTreeSet<Vec<u8>>, nkeys: usize) -> Result<(), String> {
    // gets
    for i in 0..nkeys {
        let k = key(i);
        if uncertain.contains(&k) {
            continue;
        }
        match (db.get(ReadOptions::default(), &k), model.get(&k)) {
            (Ok(v), Some(e)) if &v == e => {}
            (Err(RainDBError::KeyNotFound), None) => {}
            (r, e) => {
                return Err(format!(
                    "{tag}: get({}) = {:?} expected {:?}",
                    String::from_utf8_lossy(&k),
                    r.map(|v| String::from_utf8_lossy(&v).to_string()),
                    e.map(|v| String::from_utf8_lossy(v).to_string())
                ))
            }
        }
    }
    let mut it = db.new_iterator(ReadOptions::default()).map_err(|e| format!("{tag}: new_iterator {e}"))?;
    it.seek_to_first().map_err(|e| format!("{tag}: seek_to_first {e}"))?;
    let mut got = Model::new();
    while it.is_valid() {
        let (k, v) = it.current().unwrap();
        if !uncertain.contains(k) {
            got.insert(k.clone(), v.clone());
        }
        it.next();
    }
    if let Some(e) = it.status() {
        return Err(format!("{tag}: iterator status {e}"));
    }
    let mut exp = model.clone();
    for k in uncertain {
        exp.remove(k);
    }
    if got != exp {
        let mut msg = format!("{tag}: dump differs ({} vs {} expected):", got.len(), exp.len());
        for (k, v) in &exp {
            if got.get(k) != Some(v) {
                msg.push_str(&format!(" [{}: got {:?} expected {}]", String::from_utf8_lossy(k), got.get(k).map(|v| String::from_utf8_lossy(v).to_string()), String::from_utf8_lossy(v)));
            }
        }
        for (k, v) in &got {
            if !exp.contains_key(k) {
                msg.push_str(&format!(" [EXTRA {}={}]", String::from_utf8_lossy(k), String::from_utf8_lossy(v)));
            }
        }
        return Err(msg);
    }
    Ok(())
}

/// Returns the op counts of the run (for the dry run) or an error description.
fn run(kind: i64, index: u64, sticky: bool, variant: u64) -> Result<[u64; 9], String> {
    let mem = Arc::new(InMemoryFileSystem::new());
    let st = Arc::new(FaultState::new());
    let fs: Arc<dyn FileSystem> = Arc::new(FaultFs { inner: mem.clone(), st: st.clone() });
    let path = "/fault/db".to_string();
    let (m, f) = [(600usize, 300u64), (3000, 1500)][(variant % 2) as usize];
    let opts = |fs: Arc<dyn FileSystem>| DbOptions {
        db_path: path.clone(),
        max_memtable_size: m,
        max_file_size: f,
        max_block_size: 128,
        filesystem_provider: fs,
        create_if_missing: true,
        ..DbOptions::default()
    };
    let nkeys = 60;
    let mut model = Model::new();
    let mut uncertain: BTreeSet<Vec<u8>> = BTreeSet::new();
    let db = DB::open(opts(fs.clone())).map_err(|e| format!("open {e}"))?;
    // arm after open so that the sweep concentrates on flush/compaction
    st.counts.iter().for_each(|c| c.store(0, Ordering::SeqCst));
    st.sticky.store(sticky, Ordering::SeqCst);
    st.target_index.store(index, Ordering::SeqCst);
    st.target_kind.store(kind, Ordering::SeqCst);
    let mut x: u64 = 12345 + variant;
    let mut next = || {
        x ^= x << 13;
        x ^= x >> 7;
        x ^= x << 17;
        x
    };
    let mut write_failed = false;
    'outer: for round in 0..12 {
        for j in 0..40 {
            let i = (next() % nkeys as u64) as usize;
            let k = key(i);
            let r = if next() % 10 < 3 {
                let r = db.delete(WriteOptions::default(), k.clone());
                if r.is_ok() {
                    model.remove(&k);
                }
                r
            } else {
                let v = format!("v{round}_{j}_{}", "w".repeat((next() % 30) as usize)).into_bytes();
                let r = db.put(WriteOptions::default(), k.clone(), v.clone());
                if r.is_ok() {
                    model.insert(k.clone(), v);
                }
                r
            };
            if r.is_err() {
                uncertain.insert(k);
                write_failed = true;
                break 'outer;
            }
        }
        if round % 3 == 2 {
            let a = key((next() % 30) as usize);
            let b = key(30 + (next() % 30) as usize);
            match next() % 3 {
                0 => db.compact_range(None..None),
                1 => db.compact_range(Some(a.as_slice())..None),
                _ => db.compact_range(Some(a.as_slice())..Some(b.as_slice())),
            }
        }
        if let Err(e) = check(&format!("live round {round}"), &db, &model, &uncertain, nkeys) {
            // a read may legitimately fail when the fault is a read fault
            if !e.contains("injected") {
                return Err(format!("{e} (fault fired: {} at {})", st.fired.load(Ordering::SeqCst), st.fired_path.lock().unwrap()));
            }
        }
    }
    wait_quiet(&db);
    let counts: [u64; 9] = std::array::from_fn(|i| st.counts[i].load(Ordering::SeqCst));
    // disable the fault; the live handle must still show the acknowledged contents
    st.target_kind.store(-1, Ordering::SeqCst);
    let fired = st.fired.load(Ordering::SeqCst);
    let fired_path = st.fired_path.lock().unwrap().clone();
    let bad = db.verif_probe().bad_state;
    check("live final", &db, &model, &uncertain, nkeys).map_err(|e| format!("{e} (fault fired: {fired} at {fired_path}; bad state {bad:?}; write_failed {write_failed})"))?;
    drop(db);
    let db = DB::open(opts(fs.clone())).map_err(|e| format!("reopen failed: {e} (fault fired: {fired} at {fired_path}; bad state {bad:?})"))?;
    check("after reopen", &db, &model, &uncertain, nkeys).map_err(|e| format!("{e} (fault fired: {fired} at {fired_path}; bad state {bad:?}; write_failed {write_failed})"))?;
    // and the reopened database keeps working: compact everything and look again
    db.compact_range(None..None);
    check("after reopen+compact", &db, &model, &uncertain, nkeys).map_err(|e| format!("{e} (fault fired: {fired} at {fired_path}; bad state {bad:?})"))?;
    Ok(counts)
}

#[test]
fn sweep() {
    let mut total = 0;
    let mut fails = 0;
    for variant in 0..2u64 {
        let counts = run(-1, 0, false, variant).expect("dry run");
        println!("variant {variant}: dry run op counts {:?}", KINDS.iter().zip(counts.iter()).collect::<Vec<_>>());
        for kind in 0..9usize {
            let n = counts[kind] + 5;
            let step = if n > 400 { n / 400 + 1 } else { 1 };
            let mut idx = 0;
            while idx < n {
                for sticky in [false, true] {
                    total += 1;
                    if let Err(e) = run(kind as i64, idx, sticky, variant) {
                        fails += 1;
                        if fails < 40 {
                            println!("FAIL variant {variant} kind {} index {idx} sticky {sticky}: {e}", KINDS[kind]);
                        }
                    }
                }
                idx += step;
            }
        }
    }
    println!("fault points run: {total}; failures {fails}");
    assert_eq!(fails, 0);
}
