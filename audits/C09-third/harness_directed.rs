use std::sync::atomic::{AtomicUsize, Ordering};
use std::sync::{mpsc, Arc};
use std::time::Duration;

use raindb::db::DatabaseDescriptor;
use raindb::fs::{FileSystem, InMemoryFileSystem};
use raindb::{Batch, DbOptions, RainDbIterator, ReadOptions, WriteOptions, DB};

static PANICS: AtomicUsize = AtomicUsize::new(0);

fn hook() {
    std::panic::set_hook(Box::new(move |info| {
        PANICS.fetch_add(1, Ordering::SeqCst);
        let name = std::thread::current().name().unwrap_or("?").to_string();
        let bt = std::backtrace::Backtrace::force_capture();
        let s = format!("[{}] {}\n{}", name, info, bt);
        eprintln!("{}", &s[..s.len().min(5000)]);
    }));
}

fn with_timeout<T: Send + 'static>(name: &str, secs: u64, f: impl FnOnce() -> T + Send + 'static) -> T {
    let (tx, rx) = mpsc::channel();
    let n = name.to_string();
    std::thread::Builder::new().name(format!("t-{}", n)).spawn(move || {
        let r = f();
        let _ = tx.send(r);
    }).unwrap();
    match rx.recv_timeout(Duration::from_secs(secs)) {
        Ok(v) => v,
        Err(e) => {
            eprintln!("TIMEOUT/FAIL in {}: {:?} panics={}", name, e, PANICS.load(Ordering::SeqCst));
            std::process::exit(3);
        }
    }
}

fn opts(fs: &Arc<dyn FileSystem>, path: &str, mem: usize, file: u64, block: usize) -> DbOptions {
    DbOptions {
        db_path: path.to_string(),
        filesystem_provider: fs.clone(),
        create_if_missing: true,
        max_memtable_size: mem,
        max_file_size: file,
        max_block_size: block,
        ..DbOptions::default()
    }
}

fn levels(db: &DB) -> Vec<usize> {
    (0..7).map(|l| db.get_descriptor(DatabaseDescriptor::NumFilesAtLevel(l)).unwrap().parse().unwrap()).collect()
}

#[test]
fn seek_compaction_by_gets_and_iterators() {
    hook();
    with_timeout("seek", 120, || {
        let fs: Arc<dyn FileSystem> = Arc::new(InMemoryFileSystem::new());
        let db = DB::open(opts(&fs, "/seek", 1 << 20, 1 << 20, 256)).unwrap();
        // build several overlapping files at different levels
        for round in 0..6 {
            for i in 0..50 {
                db.put(WriteOptions::default(), format!("k{:03}", i * 2 + (round % 2)).into_bytes(), vec![b'a' + round as u8; 30]).unwrap();
            }
            db.compact_range(Some(&b"zzz"[..])..None); // forces only memtable flush, nothing overlaps
            eprintln!("round {} levels {:?}", round, levels(&db));
        }
        // gets of missing keys that fall inside ranges of several files
        for n in 0..2000 {
            let _ = db.get(ReadOptions::default(), format!("k{:03}x", n % 100).as_bytes());
        }
        eprintln!("after gets levels {:?}", levels(&db));
        for _n in 0..600 {
            let mut it = db.new_iterator(ReadOptions::default()).unwrap();
            it.seek_to_first().unwrap();
            let mut c = 0;
            while it.is_valid() && c < 5 {
                it.next();
                c += 1;
            }
        }
        eprintln!("after iters levels {:?}", levels(&db));
        drop(db);
    });
    assert_eq!(PANICS.load(Ordering::SeqCst), 0);
}

#[test]
fn push_to_last_level_and_beyond() {
    hook();
    with_timeout("deep", 300, || {
        let fs: Arc<dyn FileSystem> = Arc::new(InMemoryFileSystem::new());
        let db = DB::open(opts(&fs, "/deep", 4000, 2000, 128)).unwrap();
        for round in 0..12 {
            for i in 0..300 {
                db.put(WriteOptions::default(), format!("k{:04}", (i * 7 + round * 13) % 500).into_bytes(), vec![b'a' + round as u8; 40]).unwrap();
                if i % 5 == 0 {
                    db.delete(WriteOptions::default(), format!("k{:04}", (i * 3 + round) % 500).into_bytes()).unwrap();
                }
            }
            db.compact_range(None..None);
            eprintln!("round {} levels {:?}", round, levels(&db));
        }
        // gets/iterators on the deep layout
        for n in 0..3000 {
            let _ = db.get(ReadOptions::default(), format!("k{:04}x", n % 500).as_bytes());
        }
        for _ in 0..300 {
            let mut it = db.new_iterator(ReadOptions::default()).unwrap();
            it.seek(&b"k0100".to_vec()).unwrap();
            if it.is_valid() {
                it.prev();
            }
        }
        db.compact_range(Some(&b"k0100"[..])..Some(&b"k0050"[..]));
        db.compact_range(Some(&b""[..])..Some(&b""[..]));
        eprintln!("final levels {:?}", levels(&db));
        let _ = db.get_descriptor(DatabaseDescriptor::Stats).unwrap();
        let _ = db.get_descriptor(DatabaseDescriptor::SSTables).unwrap();
        drop(db);
        let db = DB::open(opts(&fs, "/deep", 100, 50, 16)).unwrap();
        for i in 0..200 {
            db.put(WriteOptions::default(), format!("k{:04}", i).into_bytes(), vec![b'z'; 40]).unwrap();
        }
        db.compact_range(None..None);
        eprintln!("reopened levels {:?}", levels(&db));
        drop(db);
    });
    assert_eq!(PANICS.load(Ordering::SeqCst), 0);
}

#[test]
fn extremes() {
    hook();
    for (mem, file, block) in [(0usize, 0u64, 0usize), (0, 1, 1), (1, 1 << 20, 1), (1 << 20, 0, 4096), (1 << 20, 1, 0), (usize::MAX, 1 << 20, usize::MAX)] {
        with_timeout("extremes", 300, move || {
            eprintln!("extreme cfg mem={} file={} block={}", mem, file, block);
            let fs: Arc<dyn FileSystem> = Arc::new(InMemoryFileSystem::new());
            let db = DB::open(opts(&fs, "/ext", mem, file, block)).unwrap();
            for i in 0..150 {
                db.put(WriteOptions::default(), format!("k{:04}", (i * 7) % 60).into_bytes(), vec![b'a'; (i * 13) % 200]).unwrap();
                if i % 7 == 0 {
                    db.delete(WriteOptions::default(), format!("k{:04}", i % 60).into_bytes()).unwrap();
                }
                if i % 50 == 0 {
                    db.compact_range(None..None);
                }
            }
            // empty key, empty value, empty batch
            db.put(WriteOptions::default(), vec![], vec![]).unwrap();
            db.apply(WriteOptions::default(), Batch::new()).unwrap();
            // long key and big value
            db.put(WriteOptions::default(), vec![b'L'; 70_000], vec![b'V'; 3 << 20]).unwrap();
            db.put(WriteOptions::default(), vec![b'M'; 200_000], vec![]).unwrap();
            let mut b = Batch::new();
            for i in 0..3000 {
                b.add_put(b"same".to_vec(), vec![(i % 250) as u8; 10]);
            }
            db.apply(WriteOptions { synchronous: true }, b).unwrap();
            db.compact_range(None..None);
            let mut it = db.new_iterator(ReadOptions::default()).unwrap();
            it.seek_to_first().unwrap();
            let mut n = 0;
            while it.is_valid() {
                n += 1;
                it.next();
            }
            it.seek_to_last().unwrap();
            let mut m = 0;
            while it.is_valid() {
                m += 1;
                it.prev();
            }
            eprintln!("  n={} m={} levels={:?}", n, m, levels(&db));
            assert_eq!(n, m);
            drop(it);
            drop(db);
            let db = DB::open(opts(&fs, "/ext", mem, file, block)).unwrap();
            assert!(db.get(ReadOptions::default(), &vec![b'L'; 70_000]).is_ok());
            drop(db);
        });
    }
    assert_eq!(PANICS.load(Ordering::SeqCst), 0);
}

#[test]
fn reopen_with_tiny_memtable_many_l0() {
    hook();
    with_timeout("reopen", 600, || {
        let fs: Arc<dyn FileSystem> = Arc::new(InMemoryFileSystem::new());
        let db = DB::open(opts(&fs, "/re", 8 << 20, 2 << 20, 4096)).unwrap();
        for i in 0..4000 {
            db.put(WriteOptions::default(), format!("k{:05}", (i * 7919) % 3000).into_bytes(), vec![b'a'; 100]).unwrap();
        }
        drop(db);
        let db = DB::open(opts(&fs, "/re", 2000, 1000, 128)).unwrap();
        eprintln!("after reopen levels {:?}", levels(&db));
        for i in 0..300 {
            db.put(WriteOptions::default(), format!("k{:05}", i).into_bytes(), vec![b'b'; 100]).unwrap();
        }
        eprintln!("after writes levels {:?}", levels(&db));
        drop(db);
    });
    assert_eq!(PANICS.load(Ordering::SeqCst), 0);
}

struct SlowCompaction;
impl raindb::verif::Handler for SlowCompaction {
    fn pause(&self, point: &'static str, _args: &[u64]) {
        if point == "compact.step" {
            std::thread::sleep(Duration::from_micros(1500));
        }
    }
    fn note(&self, _point: &'static str, _args: &[u64]) {}
}

#[test]
fn l0_stall_is_released() {
    hook();
    raindb::verif::set_handler(Some(Arc::new(SlowCompaction)));
    with_timeout("l0stall", 400, || {
        let fs: Arc<dyn FileSystem> = Arc::new(InMemoryFileSystem::new());
        let db = Arc::new(DB::open(opts(&fs, "/stall", 600, 4000, 256)).unwrap());
        let mut hs = vec![];
        let maxl0 = Arc::new(AtomicUsize::new(0));
        for t in 0..3 {
            let db = db.clone();
            let maxl0 = maxl0.clone();
            hs.push(std::thread::spawn(move || {
                let mut worst = Duration::ZERO;
                for i in 0..1500u64 {
                    let st = std::time::Instant::now();
                    db.put(WriteOptions::default(), format!("k{:05}", (i * 7919 + t * 13) % 800).into_bytes(), vec![b'a'; 60]).unwrap();
                    worst = worst.max(st.elapsed());
                    if i % 20 == 0 {
                        let l0: usize = db.get_descriptor(DatabaseDescriptor::NumFilesAtLevel(0)).unwrap().parse().unwrap();
                        maxl0.fetch_max(l0, Ordering::SeqCst);
                    }
                    if t == 2 && i % 400 == 399 {
                        db.compact_range(Some(&b"k00100"[..])..Some(&b"k00300"[..]));
                    }
                }
                worst
            }));
        }
        for h in hs {
            let w = h.join().unwrap();
            eprintln!("worst put latency {:?}", w);
        }
        eprintln!("max l0 seen {} levels {:?}", maxl0.load(Ordering::SeqCst), levels(&db));
        let db = Arc::try_unwrap(db).ok().unwrap();
        drop(db);
    });
    raindb::verif::set_handler(None);
    assert_eq!(PANICS.load(Ordering::SeqCst), 0);
}

#[test]
fn compact_range_under_sustained_writes() {
    hook();
    for (mem, file) in [(200usize, 2000u64), (4000, 1000), (100_000, 100_000)] {
        with_timeout("sustained", 400, move || {
            let fs: Arc<dyn FileSystem> = Arc::new(InMemoryFileSystem::new());
            let db = Arc::new(DB::open(opts(&fs, "/sus", mem, file, 256)).unwrap());
            let stop = Arc::new(std::sync::atomic::AtomicBool::new(false));
            let mut hs = vec![];
            let writes = Arc::new(AtomicUsize::new(0));
            for t in 0..3u64 {
                let db = db.clone();
                let stop = stop.clone();
                let writes = writes.clone();
                hs.push(std::thread::spawn(move || {
                    let mut i = 0u64;
                    while !stop.load(Ordering::SeqCst) {
                        db.put(WriteOptions::default(), format!("k{:05}", (i * 7919 + t * 13) % 2000).into_bytes(), vec![b'a'; 60]).unwrap();
                        writes.fetch_add(1, Ordering::Relaxed);
                        i += 1;
                    }
                }));
            }
            let t0 = std::time::Instant::now();
            let mut n = 0;
            let mut worst = Duration::ZERO;
            while t0.elapsed() < Duration::from_secs(25) {
                let st = std::time::Instant::now();
                db.compact_range(None..None);
                worst = worst.max(st.elapsed());
                n += 1;
            }
            eprintln!("cfg mem={} file={}: {} compact_range calls in {:?}, worst {:?}, writes {} levels {:?}", mem, file, n, t0.elapsed(), worst, writes.load(Ordering::Relaxed), levels(&db));
            stop.store(true, Ordering::SeqCst);
            for h in hs { h.join().unwrap(); }
            let db = Arc::try_unwrap(db).ok().unwrap();
            drop(db);
        });
    }
    assert_eq!(PANICS.load(Ordering::SeqCst), 0);
}
