// C09 audit demonstration: the background compaction thread panics when `DB::open` fails to take
// the database lock.
//
// Run (from the root of the worktree):
//
//     cargo test --offline --test audit_demo -- --nocapture
//
// (no cargo feature needed; `--features verif` works as well). Fails deterministically on the
// unmodified tree: the process-wide panic hook records
//
//     [raindb-tumtum] panicked at src/compaction/worker.rs:99:56:
//     called `Result::unwrap()` on an `Err` value: RecvError
//
// What happens: `DB::open` starts the compaction thread (`CompactionWorker::new`) BEFORE it tries
// to lock the database (`lock_file(..)?`). When the lock cannot be taken (the database is open in
// this or another process, or an iterator of a dropped `DB` still holds the lock), `open` returns
// through `?`, the only `Arc<CompactionWorker>` is dropped without the `Terminate` command that
// `Drop for DB` would have sent, the task channel's sender goes away and the thread's
// `receiver.recv().unwrap()` panics. The first database, which is open and healthy, is not
// affected; the panic is on the raindb thread that belonged to the failed open.
//
// Two scenarios are shown:
//   1. a second `DB::open` on a database that is already open (real files, real `flock`);
//   2. `DB::open` after the `DB` was dropped while one of its iterators is still alive (the
//      iterator keeps the database lock, see the repair "iterators keep the database lock until
//      they are dropped").
use std::sync::atomic::{AtomicUsize, Ordering};
use std::sync::{Arc, Mutex};
use std::time::{Duration, Instant};

use raindb::fs::{FileSystem, OsFileSystem};
use raindb::{DbOptions, RainDbIterator, ReadOptions, WriteOptions, DB};

static RAINDB_THREAD_PANICS: AtomicUsize = AtomicUsize::new(0);

fn wait_for_panics(at_least: usize) -> usize {
    let deadline = Instant::now() + Duration::from_secs(3);
    while Instant::now() < deadline && RAINDB_THREAD_PANICS.load(Ordering::SeqCst) < at_least {
        std::thread::sleep(Duration::from_millis(20));
    }
    RAINDB_THREAD_PANICS.load(Ordering::SeqCst)
}

#[test]
fn failed_open_panics_the_compaction_thread() {
    let messages: Arc<Mutex<Vec<String>>> = Arc::new(Mutex::new(vec![]));
    let hook_messages = Arc::clone(&messages);
    std::panic::set_hook(Box::new(move |info| {
        let name = std::thread::current().name().unwrap_or("?").to_string();
        if name.starts_with("raindb-") {
            RAINDB_THREAD_PANICS.fetch_add(1, Ordering::SeqCst);
        }
        if let Ok(mut guard) = hook_messages.try_lock() {
            guard.push(format!("[{}] {}", name, info));
        }
    }));

    let dir = std::env::current_dir()
        .unwrap()
        .join("target/audit_tmp/c09_failed_open");
    let _ = std::fs::remove_dir_all(&dir);
    std::fs::create_dir_all(&dir).unwrap();
    let fs: Arc<dyn FileSystem> = Arc::new(OsFileSystem::new());
    let options = DbOptions {
        db_path: dir.to_str().unwrap().to_string(),
        filesystem_provider: fs,
        create_if_missing: true,
        ..DbOptions::default()
    };

    // Scenario 1: the database is already open.
    let db = DB::open(options.clone()).unwrap();
    db.put(WriteOptions::default(), b"k".to_vec(), b"v".to_vec())
        .unwrap();
    let second = DB::open(options.clone());
    assert!(second.is_err(), "the lock is held, the second open must be refused");
    let after_scenario_1 = wait_for_panics(1);
    // The first database keeps working
    db.put(WriteOptions::default(), b"k2".to_vec(), b"v".to_vec())
        .unwrap();

    // Scenario 2: the database was closed but one of its iterators is still alive.
    let mut iter = db.new_iterator(ReadOptions::default()).unwrap();
    iter.seek_to_first().unwrap();
    drop(db);
    let third = DB::open(options.clone());
    assert!(third.is_err(), "the iterator keeps the lock, the open must be refused");
    let after_scenario_2 = wait_for_panics(after_scenario_1 + 1);
    drop(iter);

    // Once the lock is free the database opens again
    let db = DB::open(options).unwrap();
    drop(db);

    let _ = std::panic::take_hook();
    let seen = messages.lock().unwrap().clone();
    for message in &seen {
        eprintln!("recorded panic: {}", message);
    }
    assert_eq!(
        (after_scenario_1, after_scenario_2),
        (0, 0),
        "a raindb background thread panicked after DB::open returned an error: {:?}",
        seen
    );
}
