// Stress harness with watchdog. Run:
//   SEEDS=0..20 SECS=3 cargo test --offline --features verif --test stress -- --nocapture
use std::sync::atomic::{AtomicBool, AtomicU64, AtomicUsize, Ordering};
use std::sync::{Arc, Mutex};
use std::time::{Duration, Instant};

use raindb::db::DatabaseDescriptor;
use raindb::fs::{FileSystem, InMemoryFileSystem};
use raindb::{Batch, DbOptions, RainDbIterator, ReadOptions, WriteOptions, DB};

static PANICS: AtomicUsize = AtomicUsize::new(0);

struct Rng(u64);
impl Rng {
    fn next(&mut self) -> u64 {
        self.0 ^= self.0 << 13;
        self.0 ^= self.0 >> 7;
        self.0 ^= self.0 << 17;
        self.0
    }
    fn below(&mut self, n: u64) -> u64 {
        self.next() % n
    }
}


// ---------- fault injecting file system ----------
use std::io::{self, Read, Seek, SeekFrom, Write};
use std::path::{Path, PathBuf};
use raindb::fs::{FileLock, RandomAccessFile, ReadonlyRandomAccessFile};

pub struct FaultCtl {
    pub counter: AtomicU64,
    pub fail_at: AtomicU64,     // first op index that fails (u64::MAX = never)
    pub fail_count: AtomicU64,  // how many consecutive ops fail from there (u64::MAX = forever)
    pub kinds: AtomicU64,       // bitmask: 1 = writes/creates/renames/removes, 2 = reads/opens
    pub delay_us: AtomicU64,
}
impl FaultCtl {
    fn hit(&self, kind: u64) -> io::Result<()> {
        let d = self.delay_us.load(Ordering::Relaxed);
        if d > 0 {
            std::thread::sleep(Duration::from_micros(d));
        }
        if self.kinds.load(Ordering::Relaxed) & kind == 0 {
            return Ok(());
        }
        let n = self.counter.fetch_add(1, Ordering::SeqCst);
        let at = self.fail_at.load(Ordering::SeqCst);
        let cnt = self.fail_count.load(Ordering::SeqCst);
        if n >= at && (cnt == u64::MAX || n < at.saturating_add(cnt)) {
            return Err(io::Error::new(io::ErrorKind::Other, format!("injected fault at op {}", n)));
        }
        Ok(())
    }
}

struct FaultFs {
    inner: Arc<dyn FileSystem>,
    ctl: Arc<FaultCtl>,
}
struct FaultRo {
    inner: Box<dyn ReadonlyRandomAccessFile>,
    ctl: Arc<FaultCtl>,
}
struct FaultRw {
    inner: Box<dyn RandomAccessFile>,
    ctl: Arc<FaultCtl>,
}
impl Read for FaultRo {
    fn read(&mut self, buf: &mut [u8]) -> io::Result<usize> {
        self.ctl.hit(2)?;
        self.inner.read(buf)
    }
}
impl Seek for FaultRo {
    fn seek(&mut self, pos: SeekFrom) -> io::Result<u64> {
        self.inner.seek(pos)
    }
}
impl ReadonlyRandomAccessFile for FaultRo {
    fn read_from(&self, buf: &mut [u8], offset: usize) -> io::Result<usize> {
        self.ctl.hit(2)?;
        self.inner.read_from(buf, offset)
    }
    fn len(&self) -> io::Result<u64> {
        self.inner.len()
    }
}
impl Read for FaultRw {
    fn read(&mut self, buf: &mut [u8]) -> io::Result<usize> {
        self.ctl.hit(2)?;
        self.inner.read(buf)
    }
}
impl Seek for FaultRw {
    fn seek(&mut self, pos: SeekFrom) -> io::Result<u64> {
        self.inner.seek(pos)
    }
}
impl Write for FaultRw {
    fn write(&mut self, buf: &[u8]) -> io::Result<usize> {
        self.ctl.hit(1)?;
        self.inner.write(buf)
    }
    fn flush(&mut self) -> io::Result<()> {
        self.ctl.hit(1)?;
        self.inner.flush()
    }
}
impl ReadonlyRandomAccessFile for FaultRw {
    fn read_from(&self, buf: &mut [u8], offset: usize) -> io::Result<usize> {
        self.ctl.hit(2)?;
        self.inner.read_from(buf, offset)
    }
    fn len(&self) -> io::Result<u64> {
        self.inner.len()
    }
}
impl RandomAccessFile for FaultRw {
    fn append(&mut self, buf: &[u8]) -> io::Result<usize> {
        self.ctl.hit(1)?;
        self.inner.append(buf)
    }
}
impl FileSystem for FaultFs {
    fn get_name(&self) -> String {
        "FaultFs".into()
    }
    fn create_dir(&self, path: &Path) -> io::Result<()> {
        self.inner.create_dir(path)
    }
    fn create_dir_all(&self, path: &Path) -> io::Result<()> {
        self.inner.create_dir_all(path)
    }
    fn list_dir(&self, path: &Path) -> io::Result<Vec<PathBuf>> {
        self.ctl.hit(2)?;
        self.inner.list_dir(path)
    }
    fn open_file(&self, path: &Path) -> io::Result<Box<dyn ReadonlyRandomAccessFile>> {
        self.ctl.hit(2)?;
        Ok(Box::new(FaultRo { inner: self.inner.open_file(path)?, ctl: self.ctl.clone() }))
    }
    fn rename(&self, from: &Path, to: &Path) -> io::Result<()> {
        self.ctl.hit(1)?;
        self.inner.rename(from, to)
    }
    fn create_file(&self, path: &Path, append: bool) -> io::Result<Box<dyn RandomAccessFile>> {
        self.ctl.hit(1)?;
        Ok(Box::new(FaultRw { inner: self.inner.create_file(path, append)?, ctl: self.ctl.clone() }))
    }
    fn remove_file(&self, path: &Path) -> io::Result<()> {
        self.ctl.hit(1)?;
        self.inner.remove_file(path)
    }
    fn remove_dir(&self, path: &Path) -> io::Result<()> {
        self.inner.remove_dir(path)
    }
    fn remove_dir_all(&self, path: &Path) -> io::Result<()> {
        self.inner.remove_dir_all(path)
    }
    fn get_file_size(&self, path: &Path) -> io::Result<u64> {
        self.inner.get_file_size(path)
    }
    fn is_dir(&self, path: &Path) -> io::Result<bool> {
        self.inner.is_dir(path)
    }
    fn lock_file(&self, path: &Path) -> io::Result<FileLock> {
        self.inner.lock_file(path)
    }
}

struct Slot {
    started_ms: AtomicU64, // 0 = idle
    what: Mutex<String>,
}

fn now_ms(t0: Instant) -> u64 {
    t0.elapsed().as_millis() as u64 + 1
}

fn key(rng: &mut Rng, space: u64) -> Vec<u8> {
    let k = rng.below(space);
    let mut v = format!("k{:05}", k).into_bytes();
    if rng.below(50) == 0 {
        v.extend(std::iter::repeat(b'x').take(rng.below(3000) as usize));
    }
    v
}

fn run_seed(seed: u64, secs: u64) -> Result<(), String> {
    let mut cfg = Rng(seed.wrapping_mul(0x9E3779B97F4A7C15) | 1);
    let ctl = Arc::new(FaultCtl {
        counter: AtomicU64::new(0),
        fail_at: AtomicU64::new(u64::MAX),
        fail_count: AtomicU64::new(0),
        kinds: AtomicU64::new(0),
        delay_us: AtomicU64::new(0),
    });
    let fault_mode = std::env::var("FAULT").ok();
    let base: Arc<dyn FileSystem> = if std::env::var("FS").ok().as_deref() == Some("tmp") {
        let root = std::env::current_dir().unwrap().join("target/audit_tmp");
        std::fs::create_dir_all(&root).unwrap();
        Arc::new(raindb::fs::TmpFileSystem::new(Some(&root)))
    } else {
        Arc::new(InMemoryFileSystem::new())
    };
    let fs: Arc<dyn FileSystem> = Arc::new(FaultFs { inner: base, ctl: ctl.clone() });
    let memtable = [200usize, 1000, 4000, 16000][cfg.below(4) as usize];
    let file_size = [100u64, 500, 2000, 8000][cfg.below(4) as usize];
    let block = [1usize, 16, 128, 1024][cfg.below(4) as usize];
    let space = [20u64, 200, 3000][cfg.below(3) as usize];
    let opts = DbOptions {
        db_path: if std::env::var("FS").ok().as_deref() == Some("tmp") { format!("db{}", seed) } else { format!("/db{}", seed) },
        filesystem_provider: fs.clone(),
        create_if_missing: true,
        max_memtable_size: memtable,
        max_file_size: file_size,
        max_block_size: block,
        reuse_log_files: cfg.below(2) == 0,
        ..DbOptions::default()
    };
    let t0 = Instant::now();
    let nthreads = 6usize;
    let slots: Arc<Vec<Slot>> = Arc::new(
        (0..nthreads + 1)
            .map(|_| Slot {
                started_ms: AtomicU64::new(0),
                what: Mutex::new(String::new()),
            })
            .collect(),
    );
    let stop = Arc::new(AtomicBool::new(false));
    let hung: Arc<Mutex<Option<String>>> = Arc::new(Mutex::new(None));

    // watchdog
    let wd_ms: u64 = std::env::var("WD_SECS").unwrap_or("20".into()).parse::<u64>().unwrap() * 1000;
    let wd = {
        let slots = slots.clone();
        let stop = stop.clone();
        let hung = hung.clone();
        std::thread::spawn(move || loop {
            std::thread::sleep(Duration::from_millis(200));
            let now = now_ms(t0);
            for (i, s) in slots.iter().enumerate() {
                let st = s.started_ms.load(Ordering::SeqCst);
                let w = s.what.lock().unwrap().clone();
                let limit = if w == "compact_range" { wd_ms * 15 } else { wd_ms };
                if st != 0 && now > st + limit {
                    *hung.lock().unwrap() = Some(format!("thread {} stuck in {} for >wd", i, w));
                    return;
                }
            }
            if stop.load(Ordering::SeqCst) && slots.iter().all(|s| s.started_ms.load(Ordering::SeqCst) == 0) {
                // keep watching until told to exit through hung==Some("done")
            }
            if hung.lock().unwrap().is_some() {
                return;
            }
        })
    };

    macro_rules! op {
        ($slot:expr, $name:expr, $e:expr) => {{
            *$slot.what.lock().unwrap() = $name.to_string();
            $slot.started_ms.store(now_ms(t0), Ordering::SeqCst);
            let r = $e;
            $slot.started_ms.store(0, Ordering::SeqCst);
            r
        }};
    }

    let rounds = 2;
    for round in 0..rounds {
        let main_slot = &slots[nthreads];
        let db = match op!(main_slot, "open", DB::open(opts.clone())) {
            Ok(db) => Arc::new(db),
            Err(e) => {
                if fault_mode.is_some() {
                    eprintln!("  (open failed after faults, round {}: {})", round, e);
                    break;
                }
                return Err(format!("open failed round {}: {}", round, e));
            }
        };
        stop.store(false, Ordering::SeqCst);
        if let Some(mode) = fault_mode.as_ref() {
            // arm: kinds, start offset, count
            let kinds = match mode.as_str() { "w" => 1, "r" => 2, _ => 3 };
            ctl.counter.store(0, Ordering::SeqCst);
            ctl.fail_count.store(if cfg.below(2) == 0 { 1 + cfg.below(3) } else { u64::MAX }, Ordering::SeqCst);
            ctl.fail_at.store(20 + cfg.below(3000), Ordering::SeqCst);
            ctl.kinds.store(kinds, Ordering::SeqCst);
            if cfg.below(3) == 0 { ctl.delay_us.store(cfg.below(300), Ordering::SeqCst); }
        }
        let mut handles = vec![];
        for t in 0..nthreads {
            let db = db.clone();
            let slots = slots.clone();
            let stop = stop.clone();
            let hung = hung.clone();
            let mut rng = Rng((seed + 1) * 1000 + t as u64 * 77 + round * 13 + 1);
            handles.push(std::thread::Builder::new().name(format!("h{}", t)).spawn(move || {
                let slot = &slots[t];
                let mut snaps = vec![];
                while !stop.load(Ordering::SeqCst) && hung.lock().unwrap().is_none() {
                    let role = if t < 3 { rng.below(4) } else { 4 + rng.below(8) };
                    match role {
                        0 | 1 => {
                            let k = key(&mut rng, space);
                            let v = vec![b'v'; rng.below(120) as usize];
                            let _ = op!(slot, "put", db.put(WriteOptions { synchronous: rng.below(4) == 0 }, k, v));
                        }
                        2 => {
                            let k = key(&mut rng, space);
                            let _ = op!(slot, "delete", db.delete(WriteOptions::default(), k));
                        }
                        3 => {
                            let mut b = Batch::new();
                            for _ in 0..rng.below(20) {
                                if rng.below(3) == 0 {
                                    b.add_delete(key(&mut rng, space));
                                } else {
                                    b.add_put(key(&mut rng, space), vec![b'b'; rng.below(300) as usize]);
                                }
                            }
                            let _ = op!(slot, "apply", db.apply(WriteOptions { synchronous: rng.below(4) == 0 }, b));
                        }
                        4 | 5 => {
                            let k = key(&mut rng, space);
                            let snap = if !snaps.is_empty() && rng.below(2) == 0 {
                                Some(Clone::clone(&snaps[rng.below(snaps.len() as u64) as usize]))
                            } else {
                                None
                            };
                            let _ = op!(slot, "get", db.get(ReadOptions { fill_cache: rng.below(2) == 0, snapshot: snap }, &k));
                        }
                        6 => {
                            if snaps.len() < 4 && rng.below(2) == 0 {
                                snaps.push(op!(slot, "get_snapshot", db.get_snapshot()));
                            } else if !snaps.is_empty() {
                                let i = rng.below(snaps.len() as u64) as usize;
                                let s = snaps.swap_remove(i);
                                op!(slot, "release_snapshot", db.release_snapshot(s));
                            }
                        }
                        7 | 8 => {
                            let snap = if !snaps.is_empty() && rng.below(2) == 0 {
                                Some(Clone::clone(&snaps[rng.below(snaps.len() as u64) as usize]))
                            } else {
                                None
                            };
                            let it = op!(slot, "new_iterator", db.new_iterator(ReadOptions { fill_cache: true, snapshot: snap }));
                            if let Ok(mut it) = it {
                                for _ in 0..rng.below(60) {
                                    match rng.below(6) {
                                        0 => {
                                            let _ = op!(slot, "it.seek_to_first", it.seek_to_first());
                                        }
                                        1 => {
                                            let _ = op!(slot, "it.seek_to_last", it.seek_to_last());
                                        }
                                        2 => {
                                            let k = key(&mut rng, space);
                                            let _ = op!(slot, "it.seek", it.seek(&k));
                                        }
                                        3 | 4 => {
                                            if it.is_valid() {
                                                let _ = op!(slot, "it.next", it.next().is_some());
                                            }
                                        }
                                        _ => {
                                            if it.is_valid() {
                                                let _ = op!(slot, "it.prev", it.prev().is_some());
                                            }
                                        }
                                    }
                                    let _ = it.current();
                                }
                                op!(slot, "it.drop", drop(it));
                            }
                        }
                        9 => {
                            let a = key(&mut rng, space);
                            let b = key(&mut rng, space);
                            let (s, e): (Option<&[u8]>, Option<&[u8]>) = match rng.below(5) {
                                0 => (None, None),
                                1 => (Some(&a), None),
                                2 => (None, Some(&b)),
                                _ => (Some(&a), Some(&b)),
                            };
                            op!(slot, "compact_range", db.compact_range(s..e));
                        }
                        10 => {
                            let d = match rng.below(4) {
                                0 => DatabaseDescriptor::Stats,
                                1 => DatabaseDescriptor::SSTables,
                                2 => DatabaseDescriptor::NumFilesAtLevel(rng.below(9) as usize),
                                _ => DatabaseDescriptor::NumFilesAtLevel(0),
                            };
                            let _ = op!(slot, "get_descriptor", db.get_descriptor(d));
                        }
                        _ => {
                            std::thread::sleep(Duration::from_micros(rng.below(500)));
                        }
                    }
                }
                for s in snaps {
                    op!(slot, "release_snapshot", db.release_snapshot(s));
                }
            }).unwrap());
        }
        let end = Instant::now() + Duration::from_secs(secs);
        while Instant::now() < end && hung.lock().unwrap().is_none() && PANICS.load(Ordering::SeqCst) == 0 {
            std::thread::sleep(Duration::from_millis(50));
        }
        stop.store(true, Ordering::SeqCst);
        if let Some(h) = hung.lock().unwrap().clone() {
            let p1 = db.verif_probe();
            let f1 = db.verif_files().len();
            std::thread::sleep(Duration::from_secs(3));
            let p2 = db.verif_probe();
            let f2 = db.verif_files().len();
            let probe = format!("\nprobe1 files={} {:?}\nprobe2 files={} {:?}", f1, p1, f2, p2);
            return Err(format!("HANG: {} (cfg mem={} file={} block={} space={}) {}", h, memtable, file_size, block, space, probe));
        }
        // wait for threads with watchdog
        let deadline = Instant::now() + Duration::from_secs(330);
        for h in handles {
            while !h.is_finished() {
                if Instant::now() > deadline || hung.lock().unwrap().is_some() {
                    let p1 = db.verif_probe();
                    let f1 = db.verif_files();
                    std::thread::sleep(Duration::from_secs(3));
                    let p2 = db.verif_probe();
                    let f2 = db.verif_files();
                    let lv = |f: &Vec<raindb::verif::FileInfo>| (0..7).map(|l| f.iter().filter(|x| x.level == l).count()).collect::<Vec<_>>();
                    return Err(format!("HANG at stop: {:?} (cfg mem={} file={} block={} space={})\nprobe1 levels={:?} sched={} imm={} manual={} bad={:?} seq={} nver={}\nprobe2 levels={:?} sched={} imm={} manual={} bad={:?} seq={} nver={}", hung.lock().unwrap(), memtable, file_size, block, space,
                      lv(&f1), p1.background_compaction_scheduled, p1.has_immutable_memtable, p1.manual_compaction_pending, p1.bad_state, p1.prev_sequence_number, p1.num_versions,
                      lv(&f2), p2.background_compaction_scheduled, p2.has_immutable_memtable, p2.manual_compaction_pending, p2.bad_state, p2.prev_sequence_number, p2.num_versions));
                }
                std::thread::sleep(Duration::from_millis(20));
            }
            let _ = h.join();
        }
        if PANICS.load(Ordering::SeqCst) > 0 {
            return Err(format!("PANIC observed (cfg mem={} file={} block={} space={})", memtable, file_size, block, space));
        }
        let db = Arc::try_unwrap(db).map_err(|_| "arc".to_string())?;
        op!(main_slot, "close", drop(db));
        ctl.kinds.store(0, Ordering::SeqCst);
        ctl.delay_us.store(0, Ordering::SeqCst);
        if let Some(h) = hung.lock().unwrap().clone() {
            return Err(format!("HANG: {}", h));
        }
    }
    *hung.lock().unwrap() = Some("done".into());
    let _ = wd.join();
    Ok(())
}

struct Jitter(AtomicU64);
impl raindb::verif::Handler for Jitter {
    fn pause(&self, point: &'static str, _args: &[u64]) {
        let mut x = self.0.fetch_add(0x9E3779B97F4A7C15, Ordering::Relaxed);
        x ^= x >> 29;
        x = x.wrapping_mul(0xBF58476D1CE4E5B9);
        x ^= x >> 32;
        let heavy = matches!(point, "flush.before_build" | "flush.after_build" | "manifest.before_append" | "manifest.after_append" | "gc.before_delete" | "worker.idle" | "compact.begin" | "close.lock_released" | "write.before_wal" | "write.after_mem");
        if heavy && x % 4 == 0 {
            std::thread::sleep(Duration::from_micros(x % 3000));
        } else if x % 16 == 0 {
            std::thread::sleep(Duration::from_micros(x % 200));
        } else if x % 5 == 0 {
            std::thread::yield_now();
        }
    }
    fn note(&self, _point: &'static str, _args: &[u64]) {}
}

#[test]
fn stress() {
    if std::env::var("SCHED").is_ok() {
        raindb::verif::set_handler(Some(Arc::new(Jitter(AtomicU64::new(12345)))));
    }
    let msgs: Arc<Mutex<Vec<String>>> = Arc::new(Mutex::new(vec![]));
    let m2 = msgs.clone();
    std::panic::set_hook(Box::new(move |info| {
        PANICS.fetch_add(1, Ordering::SeqCst);
        let name = std::thread::current().name().unwrap_or("?").to_string();
        let bt = std::backtrace::Backtrace::force_capture();
        let s = format!("[{}] {}\n{}", name, info, bt);
        eprintln!("{}", &s[..s.len().min(6000)]);
        if let Ok(mut g) = m2.try_lock() {
            g.push(s);
        }
    }));
    let seeds = std::env::var("SEEDS").unwrap_or("0..4".into());
    let (a, b) = seeds.split_once("..").unwrap();
    let (a, b): (u64, u64) = (a.parse().unwrap(), b.parse().unwrap());
    let secs: u64 = std::env::var("SECS").unwrap_or("2".into()).parse().unwrap();
    let mut failures = vec![];
    for seed in a..b {
        let r = run_seed(seed, secs);
        eprintln!("seed {} -> {:?}", seed, r);
        if let Err(e) = r {
            failures.push((seed, e));
            break;
        }
    }
    if !failures.is_empty() {
        eprintln!("FAILURES: {:?}", failures);
        std::process::exit(3);
    }
}
