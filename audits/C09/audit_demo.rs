/*!
Audit demonstrations for the property "Every operation terminates; the background worker never
dies" (C09).

Run with: `cargo test --offline --features verif --test audit_demo -- --test-threads=1`

Every test fails if and only if the behaviour it observes violates the property. The tests use only
the public API, the `verif` scheduling hooks and a fault-injecting `raindb::fs::FileSystem` wrapper.
*/
#![cfg(feature = "verif")]

use std::io::{self, Read, Seek, SeekFrom, Write};
use std::path::{Path, PathBuf};
use std::sync::atomic::{AtomicBool, Ordering};
use std::sync::{mpsc, Arc, Condvar, Mutex, MutexGuard};
use std::thread;
use std::time::{Duration, Instant};

use raindb::db::DatabaseDescriptor;
use raindb::fs::{
    FileLock, FileSystem, InMemoryFileSystem, RandomAccessFile, ReadonlyRandomAccessFile,
    TmpFileSystem,
};
use raindb::verif::Handler;
use raindb::{DbOptions, RainDbIterator, ReadOptions, WriteOptions, DB};

/// Scratch space for on-disk databases (inside the worktree, removed automatically).
const TMP_ROOT: &str = "/tmp/wtb-C09/target/audit-tmp";

/// The hooks, the panic hook and the thread names are process wide, so the tests are serialized.
static SERIAL: Mutex<()> = Mutex::new(());

fn serialize_tests() -> MutexGuard<'static, ()> {
    SERIAL.lock().unwrap_or_else(|poisoned| poisoned.into_inner())
}

fn is_compaction_thread() -> bool {
    matches!(
        thread::current().name(),
        Some("raindb-tumtum") | Some("raindb-compact")
    )
}

// ------------------------------------------------------------------------------------------------
// Fault injecting file system: while `fail_wal_writes` is set, every write to a `*.log` file (the
// write-ahead logs) returns an I/O error immediately. Everything else is passed through. The file
// system keeps making progress: no call blocks.
// ------------------------------------------------------------------------------------------------

struct FaultFs {
    inner: Arc<dyn FileSystem>,
    fail_wal_writes: Arc<AtomicBool>,
}

struct FaultFile {
    inner: Box<dyn RandomAccessFile>,
    fail: Arc<AtomicBool>,
}

impl FaultFile {
    fn check(&self) -> io::Result<()> {
        if self.fail.load(Ordering::SeqCst) {
            return Err(io::Error::new(
                io::ErrorKind::Other,
                "injected WAL write failure",
            ));
        }
        Ok(())
    }
}

impl Read for FaultFile {
    fn read(&mut self, buf: &mut [u8]) -> io::Result<usize> {
        self.inner.read(buf)
    }
}

impl Seek for FaultFile {
    fn seek(&mut self, pos: SeekFrom) -> io::Result<u64> {
        self.inner.seek(pos)
    }
}

impl Write for FaultFile {
    fn write(&mut self, buf: &[u8]) -> io::Result<usize> {
        self.check()?;
        self.inner.write(buf)
    }

    fn flush(&mut self) -> io::Result<()> {
        self.inner.flush()
    }
}

impl ReadonlyRandomAccessFile for FaultFile {
    fn read_from(&self, buf: &mut [u8], offset: usize) -> io::Result<usize> {
        self.inner.read_from(buf, offset)
    }

    fn len(&self) -> io::Result<u64> {
        self.inner.len()
    }
}

impl RandomAccessFile for FaultFile {
    fn append(&mut self, buf: &[u8]) -> io::Result<usize> {
        self.check()?;
        self.inner.append(buf)
    }
}

impl FileSystem for FaultFs {
    fn get_name(&self) -> String {
        "FaultFs".to_string()
    }

    fn create_dir(&self, path: &Path) -> io::Result<()> {
        self.inner.create_dir(path)
    }

    fn create_dir_all(&self, path: &Path) -> io::Result<()> {
        self.inner.create_dir_all(path)
    }

    fn list_dir(&self, path: &Path) -> io::Result<Vec<PathBuf>> {
        self.inner.list_dir(path)
    }

    fn open_file(&self, path: &Path) -> io::Result<Box<dyn ReadonlyRandomAccessFile>> {
        self.inner.open_file(path)
    }

    fn rename(&self, from: &Path, to: &Path) -> io::Result<()> {
        self.inner.rename(from, to)
    }

    fn create_file(&self, path: &Path, append: bool) -> io::Result<Box<dyn RandomAccessFile>> {
        let file = self.inner.create_file(path, append)?;
        if path.extension().map_or(false, |ext| ext == "log") {
            return Ok(Box::new(FaultFile {
                inner: file,
                fail: Arc::clone(&self.fail_wal_writes),
            }));
        }

        Ok(file)
    }

    fn remove_file(&self, path: &Path) -> io::Result<()> {
        self.inner.remove_file(path)
    }

    fn remove_dir(&self, path: &Path) -> io::Result<()> {
        self.inner.remove_dir(path)
    }

    fn remove_dir_all(&self, path: &Path) -> io::Result<()> {
        self.inner.remove_dir_all(path)
    }

    fn get_file_size(&self, path: &Path) -> io::Result<u64> {
        self.inner.get_file_size(path)
    }

    fn is_dir(&self, path: &Path) -> io::Result<bool> {
        self.inner.is_dir(path)
    }

    fn lock_file(&self, path: &Path) -> io::Result<FileLock> {
        self.inner.lock_file(path)
    }
}

// ------------------------------------------------------------------------------------------------
// Scheduling gate: parks the compaction thread at a named scheduling point (the database mutex is
// not held there) until the test releases it.
// ------------------------------------------------------------------------------------------------

#[derive(Default)]
struct GateState {
    armed: bool,
    parked: bool,
    released: bool,
}

struct Gate {
    point: &'static str,
    state: Mutex<GateState>,
    changed: Condvar,
}

impl Gate {
    fn new(point: &'static str) -> Self {
        Gate {
            point,
            state: Mutex::new(GateState::default()),
            changed: Condvar::new(),
        }
    }

    fn arm(&self) {
        self.state.lock().unwrap().armed = true;
    }

    /// Wait until the compaction thread is parked at the gate.
    fn wait_parked(&self, timeout: Duration) -> bool {
        let deadline = Instant::now() + timeout;
        let mut state = self.state.lock().unwrap();
        while !state.parked {
            let now = Instant::now();
            if now >= deadline {
                return false;
            }
            state = self.changed.wait_timeout(state, deadline - now).unwrap().0;
        }
        true
    }

    fn release(&self) {
        let mut state = self.state.lock().unwrap();
        state.released = true;
        state.armed = false;
        self.changed.notify_all();
    }
}

impl Handler for Gate {
    fn pause(&self, point: &'static str, _args: &[u64]) {
        if point != self.point || !is_compaction_thread() {
            return;
        }

        let mut state = self.state.lock().unwrap();
        if !state.armed || state.released {
            return;
        }
        state.parked = true;
        self.changed.notify_all();
        while !state.released {
            state = self.changed.wait(state).unwrap();
        }
    }

    fn note(&self, _point: &'static str, _args: &[u64]) {}
}

// ------------------------------------------------------------------------------------------------
// Helpers
// ------------------------------------------------------------------------------------------------

/// Records panics of the compaction thread (message) while it is installed.
fn install_compaction_panic_recorder() -> Arc<Mutex<Vec<String>>> {
    let recorded: Arc<Mutex<Vec<String>>> = Arc::new(Mutex::new(vec![]));
    let sink = Arc::clone(&recorded);
    let previous = std::panic::take_hook();
    std::panic::set_hook(Box::new(move |info| {
        if is_compaction_thread() {
            sink.lock().unwrap().push(info.to_string());
        } else {
            previous(info);
        }
    }));

    recorded
}

fn uninstall_panic_recorder() {
    let _ = std::panic::take_hook();
}

/// Run `operation` on its own thread and wait for it at most `timeout`.
fn finishes_within<T: Send + 'static>(
    timeout: Duration,
    operation: impl FnOnce() -> T + Send + 'static,
) -> Option<thread::Result<T>> {
    let (sender, receiver) = mpsc::channel();
    thread::spawn(move || {
        let result = std::panic::catch_unwind(std::panic::AssertUnwindSafe(operation));
        let _ = sender.send(result);
    });

    receiver.recv_timeout(timeout).ok()
}

fn files_at_level(db: &DB, level: usize) -> usize {
    db.get_descriptor(DatabaseDescriptor::NumFilesAtLevel(level))
        .unwrap()
        .parse()
        .unwrap()
}

/// Flush the memtable without touching any table file: the range is outside of the key space used
/// by the tests, so the manual compactions that follow the flush find nothing to do.
fn flush(db: &DB) {
    db.compact_range(Some(b"~~1".as_ref())..Some(b"~~2".as_ref()));
}

fn put_round(db: &DB, round: u8) {
    for index in 0..40u32 {
        db.put(
            WriteOptions::default(),
            format!("key{:03}", index).into_bytes(),
            vec![b'a' + round; 100],
        )
        .unwrap();
    }
}

// ------------------------------------------------------------------------------------------------
// DEFECT 1
//
// `DB::force_level_compaction` (the per-level step of `DB::compact_range`) leaves its wait loop as
// soon as a background error is recorded and then removes its request from
// `GuardedDbFields::maybe_manual_compaction`, without waiting for the compaction thread, which may
// be in the middle of exactly that manual compaction (the database mutex is released while tables
// are merged). When the compaction thread gets to the end of `coordinate_compaction` it executes
// `db_fields_guard.maybe_manual_compaction.take().unwrap()` on `None` and panics. The thread dies
// with `background_compaction_scheduled == true`, nothing ever resets that flag and `Drop for DB`
// waits for it forever.
//
// Schedule forced here:
//   1. three overlapping flushes leave one file each at levels 2, 1 and 0
//   2. thread M calls `compact_range(None..None)`; the compaction thread starts the manual level-0
//      compaction and is parked at `compact.step` (inside `compact_tables`, mutex not held)
//   3. a `put` fails in the write-ahead log (injected I/O error) => sticky background error,
//      waiters are notified
//   4. M wakes up, sees the error, withdraws the manual compaction and returns
//   5. the compaction thread is released, completes the merge and reaches the `unwrap`
// ------------------------------------------------------------------------------------------------

#[test]
fn manual_compaction_withdrawn_after_a_background_error_must_not_kill_the_compaction_thread() {
    let _serial = serialize_tests();

    std::fs::create_dir_all(TMP_ROOT).unwrap();
    let fail_wal_writes = Arc::new(AtomicBool::new(false));
    let fs: Arc<dyn FileSystem> = Arc::new(FaultFs {
        inner: Arc::new(TmpFileSystem::new(Some(Path::new(TMP_ROOT)))),
        fail_wal_writes: Arc::clone(&fail_wal_writes),
    });

    let mut options = DbOptions::with_memory_env();
    options.filesystem_provider = fs;
    options.db_path = "db".to_string();
    options.create_if_missing = true;

    let gate = Arc::new(Gate::new("compact.step"));
    raindb::verif::set_handler(Some(Arc::clone(&gate) as Arc<dyn Handler>));
    let compaction_thread_panics = install_compaction_panic_recorder();

    let db = Arc::new(DB::open(options).expect("harness: the database must open"));

    // 1. One file at each of the levels 2, 1 and 0, all covering key000..key039.
    for round in 0..3u8 {
        put_round(&db, round);
        flush(&db);
    }
    assert_eq!(
        (
            files_at_level(&db, 0),
            files_at_level(&db, 1),
            files_at_level(&db, 2)
        ),
        (1, 1, 1),
        "harness: expected one table file at each of the levels 0, 1 and 2"
    );

    // 2. Start the manual compaction and park the compaction thread in the middle of it.
    gate.arm();
    let (manual_done_sender, manual_done) = mpsc::channel();
    let manual_thread = {
        let db = Arc::clone(&db);
        thread::spawn(move || {
            db.compact_range(None..None);
            let _ = manual_done_sender.send(());
        })
    };
    assert!(
        gate.wait_parked(Duration::from_secs(60)),
        "harness: the compaction thread never reached compact.step for the manual compaction"
    );

    // 3. A write fails in the WAL. The error is returned at once (the file system makes progress).
    fail_wal_writes.store(true, Ordering::SeqCst);
    let put_result = db.put(WriteOptions::default(), b"key000".to_vec(), b"x".to_vec());
    fail_wal_writes.store(false, Ordering::SeqCst);
    assert!(
        put_result.is_err(),
        "harness: the injected WAL failure should have failed the put"
    );

    // 4. Give M the time to react to the error while the compaction thread is still parked. On the
    //    audited code M withdraws its request within milliseconds. (An implementation that makes M
    //    wait for the in-flight compaction instead keeps the request registered; that is fine, the
    //    test then simply goes on after the grace period.)
    let mut manual_returned = false;
    let grace_deadline = Instant::now() + Duration::from_secs(5);
    while Instant::now() < grace_deadline {
        if manual_done.try_recv().is_ok() {
            manual_returned = true;
            break;
        }
        if !db.verif_probe().manual_compaction_pending {
            break;
        }
        thread::sleep(Duration::from_millis(10));
    }

    // 5. Let the compaction thread finish its compaction. compact_range has to come back.
    gate.release();
    if !manual_returned {
        manual_returned = manual_done.recv_timeout(Duration::from_secs(60)).is_ok();
    }
    let deadline = Instant::now() + Duration::from_secs(60);
    while Instant::now() < deadline {
        let worker_finished = !db.verif_probe().background_compaction_scheduled;
        let worker_panicked = !compaction_thread_panics.lock().unwrap().is_empty();
        if worker_finished || worker_panicked {
            break;
        }
        thread::sleep(Duration::from_millis(20));
    }

    let mut violations: Vec<String> = vec![];
    if !manual_returned {
        violations.push(
            "compact_range did not return within 60s after the background error".to_string(),
        );
    } else {
        manual_thread.join().unwrap();
    }

    let panics = compaction_thread_panics.lock().unwrap().clone();
    if !panics.is_empty() {
        violations.push(format!(
            "the background compaction thread panicked: {:?} (required: the compaction thread of \
            an open database never panics or stops)",
            panics
        ));
    }

    let probe = db.verif_probe();
    if probe.background_compaction_scheduled {
        violations.push(format!(
            "the compaction thread is gone but background_compaction_scheduled is still true \
            (bad_state = {:?}); nothing will ever reset it",
            probe.bad_state
        ));
    }

    // Closing must return in bounded time.
    let db = Arc::try_unwrap(db).ok().expect("harness: no other handle to the database is left");
    match finishes_within(Duration::from_secs(30), move || drop(db)) {
        Some(Ok(())) => {}
        Some(Err(_)) => violations.push("closing the database panicked".to_string()),
        None => violations.push(
            "closing the database (Drop for DB) did not return within 30s: it waits for a \
            compaction that will never report back (required: close returns in bounded time)"
                .to_string(),
        ),
    }

    raindb::verif::set_handler(None);
    uninstall_panic_recorder();

    assert!(
        violations.is_empty(),
        "observed {} violation(s) of 'every operation terminates; the background worker never \
        dies':\n - {}",
        violations.len(),
        violations.join("\n - ")
    );
}

// ------------------------------------------------------------------------------------------------
// DEFECT 2
//
// `DB::new_iterator` hands out a `DatabaseIterator` that is not tied to the lifetime of the `DB`
// (safe Rust lets it outlive the database) and that holds a strong `Arc<CompactionWorker>`.
// `Drop for DB` does `Arc::get_mut(&mut self.compaction_worker).unwrap()`, which is `None` as long
// as such an iterator exists: closing the database panics instead of returning, the compaction
// thread is never told to terminate and later dies in `receiver.recv().unwrap()` when the iterator
// finally goes away.
// ------------------------------------------------------------------------------------------------

#[test]
fn closing_the_database_while_an_iterator_is_alive_must_return() {
    let _serial = serialize_tests();
    raindb::verif::set_handler(None);

    let mut options = DbOptions::with_memory_env();
    options.filesystem_provider = Arc::new(InMemoryFileSystem::new());
    options.db_path = "iterator-outlives-db".to_string();
    options.create_if_missing = true;

    let db = DB::open(options).expect("harness: the database must open");
    db.put(WriteOptions::default(), b"a".to_vec(), b"1".to_vec())
        .unwrap();
    let mut iterator = db
        .new_iterator(ReadOptions::default())
        .expect("harness: the iterator must be created");
    iterator.seek_to_first().unwrap();
    assert!(iterator.is_valid(), "harness: the iterator should see the entry");

    // Silence the default panic output of the expected panic, keep the message.
    let previous_hook = std::panic::take_hook();
    let messages: Arc<Mutex<Vec<String>>> = Arc::new(Mutex::new(vec![]));
    let sink = Arc::clone(&messages);
    std::panic::set_hook(Box::new(move |info| {
        sink.lock().unwrap().push(info.to_string());
    }));

    let close_outcome = finishes_within(Duration::from_secs(30), move || drop(db));

    // The iterator is still usable memory-wise; let it go now.
    drop(iterator);
    thread::sleep(Duration::from_millis(200));
    std::panic::set_hook(previous_hook);
    let messages = messages.lock().unwrap().clone();

    match close_outcome {
        Some(Ok(())) => {}
        Some(Err(_)) => panic!(
            "closing the database while a DatabaseIterator was alive PANICKED instead of \
            returning (required: closing the database returns in bounded time for every workload). \
            Panic messages seen: {:?}",
            messages
        ),
        None => panic!(
            "closing the database while a DatabaseIterator was alive did not return within 30s \
            (required: closing the database returns in bounded time)"
        ),
    }
}

// ------------------------------------------------------------------------------------------------
// DEFECT 3 (degenerate configuration)
//
// `DbOptions::max_memtable_size` is used as is (LevelDB clamps `write_buffer_size` to >= 64 KiB in
// `SanitizeOptions`). An empty `SkipListMemTable` already reports ~113 bytes of memory usage, so
// with a smaller limit `DB::make_room_for_write` finds the brand new memtable "full" again after
// every rotation: rotate, wait for the (empty) flush, rotate, ... The very first `put` never
// returns.
// ------------------------------------------------------------------------------------------------

struct RotationCounter {
    rotations: std::sync::atomic::AtomicU64,
    /// Once set, the compaction thread is parked for good so that the livelock stops burning CPU.
    freeze: AtomicBool,
}

impl Handler for RotationCounter {
    fn pause(&self, point: &'static str, _args: &[u64]) {
        if point == "flush.before_build" && is_compaction_thread() {
            while self.freeze.load(Ordering::SeqCst) {
                thread::sleep(Duration::from_millis(50));
            }
        }
    }

    fn note(&self, point: &'static str, _args: &[u64]) {
        if point == "mem.rotate" {
            self.rotations.fetch_add(1, Ordering::SeqCst);
        }
    }
}

#[test]
fn put_must_return_with_a_max_memtable_size_of_100_bytes() {
    let _serial = serialize_tests();

    let counter = Arc::new(RotationCounter {
        rotations: std::sync::atomic::AtomicU64::new(0),
        freeze: AtomicBool::new(false),
    });
    raindb::verif::set_handler(Some(Arc::clone(&counter) as Arc<dyn Handler>));

    let mut options = DbOptions::with_memory_env();
    options.filesystem_provider = Arc::new(InMemoryFileSystem::new());
    options.db_path = "tiny-memtable".to_string();
    options.create_if_missing = true;
    options.max_memtable_size = 100;

    let outcome = finishes_within(Duration::from_secs(10), move || {
        let db = DB::open(options).expect("harness: the database must open");
        db.put(WriteOptions::default(), b"a".to_vec(), b"1".to_vec())
            .expect("the put should succeed");
        let value = db.get(ReadOptions::default(), b"a").expect("the get should succeed");
        assert_eq!(value, b"1".to_vec());
        drop(db);
    });

    let rotations = counter.rotations.load(Ordering::SeqCst);
    if outcome.is_none() {
        // Stop the livelock: the leaked threads then sleep until the test process exits.
        counter.freeze.store(true, Ordering::SeqCst);
    } else {
        raindb::verif::set_handler(None);
    }

    match outcome {
        Some(Ok(())) => {}
        Some(Err(_)) => panic!("open/put/get/close panicked with max_memtable_size = 100"),
        None => panic!(
            "a single put into a database opened with max_memtable_size = 100 did not return \
            within 10s; meanwhile the memtable was rotated {} times (required: every put returns \
            in bounded time for every configuration)",
            rotations
        ),
    }
}
