use std::collections::BTreeMap;
use std::sync::Arc;

use raindb::fs::{FileSystem, InMemoryFileSystem};
use raindb::{DbOptions, RainDbIterator, ReadOptions, WriteOptions, DB};

fn opts(fs: &Arc<InMemoryFileSystem>, mem: usize, file: u64, block: usize) -> DbOptions {
    let fs_dyn: Arc<dyn FileSystem> = fs.clone();
    DbOptions {
        db_path: "/d".to_string(),
        max_memtable_size: mem,
        max_file_size: file,
        max_block_size: block,
        filesystem_provider: fs_dyn,
        create_if_missing: true,
        ..DbOptions::default()
    }
}

fn flush(db: &DB) {
    let lo: &[u8] = &[0xff, 0xff, 0xff, 0xff, 0xff];
    let hi: &[u8] = &[0xff, 0xff, 0xff, 0xff, 0xff, 0xff];
    db.compact_range(Some(lo)..Some(hi));
}

fn collect_fwd<I: RainDbIterator<Key = Vec<u8>, Error = raindb::RainDBError>>(
    it: &mut I,
) -> Vec<(Vec<u8>, Vec<u8>)> {
    let mut out = vec![];
    it.seek_to_first().unwrap();
    while it.is_valid() {
        let (k, v) = it.current().unwrap();
        out.push((k.clone(), v.clone()));
        it.next();
    }
    assert!(it.status().is_none());
    out
}

fn collect_bwd<I: RainDbIterator<Key = Vec<u8>, Error = raindb::RainDBError>>(
    it: &mut I,
) -> Vec<(Vec<u8>, Vec<u8>)> {
    let mut out = vec![];
    it.seek_to_last().unwrap();
    while it.is_valid() {
        let (k, v) = it.current().unwrap();
        out.push((k.clone(), v.clone()));
        it.prev();
    }
    assert!(it.status().is_none());
    out.reverse();
    out
}

#[test]
fn empty_db() {
    let fs = Arc::new(InMemoryFileSystem::new());
    let db = DB::open(opts(&fs, 1000, 1000, 64)).unwrap();
    let mut it = db.new_iterator(ReadOptions::default()).unwrap();
    assert!(!it.is_valid());
    assert!(it.current().is_none());
    it.seek_to_first().unwrap();
    assert!(!it.is_valid());
    it.seek_to_last().unwrap();
    assert!(!it.is_valid());
    it.seek(&b"a".to_vec()).unwrap();
    assert!(!it.is_valid());
    it.seek(&vec![]).unwrap();
    assert!(!it.is_valid());
    drop(it);

    // only tombstones, in memtable then in files
    for i in 0..50 {
        db.delete(WriteOptions::default(), format!("k{:02}", i).into_bytes())
            .unwrap();
    }
    for round in 0..3 {
        let mut it = db.new_iterator(ReadOptions::default()).unwrap();
        it.seek_to_first().unwrap();
        assert!(!it.is_valid(), "round {}", round);
        it.seek_to_last().unwrap();
        assert!(!it.is_valid(), "round {}", round);
        it.seek(&b"k10".to_vec()).unwrap();
        assert!(!it.is_valid(), "round {}", round);
        drop(it);
        if round == 0 {
            flush(&db);
        } else {
            db.compact_range(None..None);
        }
    }
}

#[test]
fn iterator_outlives_db_and_sampling() {
    // large values so that read sampling triggers many times
    let fs = Arc::new(InMemoryFileSystem::new());
    let db = DB::open(opts(&fs, 200_000, 100_000, 4096)).unwrap();
    let mut model: BTreeMap<Vec<u8>, Vec<u8>> = BTreeMap::new();
    for round in 0..6 {
        for i in 0..40 {
            if (i + round) % 3 == 0 {
                continue;
            }
            let k = format!("key{:03}", i).into_bytes();
            if (i * 7 + round) % 5 == 0 {
                db.delete(WriteOptions::default(), k.clone()).unwrap();
                model.remove(&k);
            } else {
                let mut v = format!("r{}i{}", round, i).into_bytes();
                v.extend(std::iter::repeat(b'z').take(30_000));
                db.put(WriteOptions::default(), k.clone(), v.clone()).unwrap();
                model.insert(k, v);
            }
        }
        flush(&db);
    }
    let expected: Vec<(Vec<u8>, Vec<u8>)> = model.iter().map(|(k, v)| (k.clone(), v.clone())).collect();
    let mut it = db.new_iterator(ReadOptions::default()).unwrap();
    for pass in 0..12 {
        let f = collect_fwd(&mut it);
        assert!(f == expected, "forward pass {} differs: {} vs {}", pass, f.len(), expected.len());
        let b = collect_bwd(&mut it);
        assert!(b == expected, "backward pass {} differs: {} vs {}", pass, b.len(), expected.len());
    }
    drop(db);
    for pass in 0..6 {
        let f = collect_fwd(&mut it);
        assert!(f == expected, "post-drop forward pass {} differs", pass);
        let b = collect_bwd(&mut it);
        assert!(b == expected, "post-drop backward pass {} differs", pass);
    }
}

#[test]
fn many_versions_one_key_many_snapshots() {
    let fs = Arc::new(InMemoryFileSystem::new());
    let db = DB::open(opts(&fs, 2000, 500, 32)).unwrap();
    let mut snaps = vec![];
    db.put(WriteOptions::default(), b"a".to_vec(), b"A".to_vec()).unwrap();
    db.put(WriteOptions::default(), b"z".to_vec(), b"Z".to_vec()).unwrap();
    for i in 0..300u32 {
        let expected_m: Option<Vec<u8>>;
        if i % 4 == 3 {
            db.delete(WriteOptions::default(), b"m".to_vec()).unwrap();
            expected_m = None;
        } else {
            let mut v = format!("v{}", i).into_bytes();
            v.extend(std::iter::repeat(b'q').take((i % 50) as usize));
            db.put(WriteOptions::default(), b"m".to_vec(), v.clone()).unwrap();
            expected_m = Some(v);
        }
        if i % 7 == 0 {
            snaps.push((db.get_snapshot(), expected_m));
        }
        if i % 40 == 39 {
            flush(&db);
        }
        if i % 90 == 89 {
            db.compact_range(None..None);
        }
    }
    for (idx, (s, exp)) in snaps.iter().enumerate() {
        let mut it = db
            .new_iterator(ReadOptions {
                fill_cache: idx % 2 == 0,
                snapshot: Some(s.clone()),
            })
            .unwrap();
        let mut expected: Vec<(Vec<u8>, Vec<u8>)> = vec![(b"a".to_vec(), b"A".to_vec())];
        if let Some(v) = exp {
            expected.push((b"m".to_vec(), v.clone()));
        }
        expected.push((b"z".to_vec(), b"Z".to_vec()));
        assert_eq!(collect_fwd(&mut it), expected, "snap {} fwd", idx);
        assert_eq!(collect_bwd(&mut it), expected, "snap {} bwd", idx);
        // zig-zag around m
        it.seek(&b"m".to_vec()).unwrap();
        let at_m = exp.is_some();
        let (k, _) = it.current().unwrap();
        assert_eq!(k.as_slice(), if at_m { &b"m"[..] } else { &b"z"[..] });
        it.prev();
        assert_eq!(it.current().unwrap().0.as_slice(), b"a");
        it.next();
        assert_eq!(it.current().unwrap().0.as_slice(), if at_m { &b"m"[..] } else { &b"z"[..] });
        it.next();
        if at_m {
            assert_eq!(it.current().unwrap().0.as_slice(), b"z");
            it.prev();
            assert_eq!(it.current().unwrap().0.as_slice(), b"m");
            assert_eq!(it.current().unwrap().1, exp.as_ref().unwrap());
        } else {
            assert!(!it.is_valid());
        }
    }
}

#[test]
fn huge_keys_and_values() {
    let fs = Arc::new(InMemoryFileSystem::new());
    let db = DB::open(opts(&fs, 300_000, 200_000, 1)).unwrap();
    let mut model: BTreeMap<Vec<u8>, Vec<u8>> = BTreeMap::new();
    for round in 0..4 {
        for i in 0..12u8 {
            let mut k = vec![b'K'; 70_000];
            k.push(i);
            if (i + round) % 4 == 0 {
                k.extend(std::iter::repeat(0xffu8).take(3));
            }
            if (i + round) % 5 == 1 {
                db.delete(WriteOptions::default(), k.clone()).unwrap();
                model.remove(&k);
            } else {
                let mut v = vec![round as u8, i];
                v.extend(std::iter::repeat(7u8).take(if i == 3 { 3_000_000 } else { 100 }));
                db.put(WriteOptions::default(), k.clone(), v.clone()).unwrap();
                model.insert(k, v);
            }
        }
        if round % 2 == 0 {
            flush(&db);
        }
    }
    let expected: Vec<(Vec<u8>, Vec<u8>)> = model.iter().map(|(k, v)| (k.clone(), v.clone())).collect();
    let mut it = db.new_iterator(ReadOptions::default()).unwrap();
    assert!(collect_fwd(&mut it) == expected);
    assert!(collect_bwd(&mut it) == expected);
    drop(it);
    db.compact_range(None..None);
    let mut it = db.new_iterator(ReadOptions::default()).unwrap();
    assert!(collect_fwd(&mut it) == expected);
    assert!(collect_bwd(&mut it) == expected);
    drop(it);
    drop(db);
    let db = DB::open(opts(&fs, 300_000, 200_000, 1)).unwrap();
    let mut it = db.new_iterator(ReadOptions::default()).unwrap();
    assert!(collect_fwd(&mut it) == expected);
    assert!(collect_bwd(&mut it) == expected);
}

fn noise(seed: u64, len: usize) -> Vec<u8> {
    let mut s = seed;
    let mut out = Vec::with_capacity(len + 8);
    while out.len() < len {
        s = s.wrapping_add(0x9E3779B97F4A7C15);
        let mut z = s;
        z = (z ^ (z >> 30)).wrapping_mul(0xBF58476D1CE4E5B9);
        z = (z ^ (z >> 27)).wrapping_mul(0x94D049BB133111EB);
        z ^= z >> 31;
        out.extend_from_slice(&z.to_le_bytes());
    }
    out.truncate(len);
    out
}

#[test]
fn deep_levels() {
    let fs = Arc::new(InMemoryFileSystem::new());
    let fs_dyn: Arc<dyn FileSystem> = fs.clone();
    let mk = || DbOptions {
        db_path: "/deep".to_string(),
        filesystem_provider: fs_dyn.clone(),
        create_if_missing: true,
        max_block_size: 512,
        ..DbOptions::default()
    };
    let db = DB::open(mk()).unwrap();
    let mut model: BTreeMap<Vec<u8>, Vec<u8>> = BTreeMap::new();
    let levels = |db: &DB| -> Vec<usize> {
        (0..7)
            .map(|l| {
                db.get_descriptor(raindb::db::DatabaseDescriptor::NumFilesAtLevel(l))
                    .unwrap()
                    .parse::<usize>()
                    .unwrap()
            })
            .collect()
    };
    // phase 1: 130 MiB of distinct incompressible values
    for i in 0..260u64 {
        let k = format!("key{:05}", i * 10).into_bytes();
        let v = noise(i, 512 * 1024);
        db.put(WriteOptions::default(), k.clone(), v.clone()).unwrap();
        model.insert(k, v);
    }
    flush(&db);
    std::thread::sleep(std::time::Duration::from_millis(1500));
    eprintln!("after phase 1: {:?}", levels(&db));
    // phase 2: overwrite / delete a spread of keys with small values several times
    for round in 0..5u64 {
        for i in (0..260u64).filter(|i| (i + round) % 3 == 0) {
            let k = format!("key{:05}", i * 10).into_bytes();
            if (i + round) % 4 == 0 {
                db.delete(WriteOptions::default(), k.clone()).unwrap();
                model.remove(&k);
            } else {
                let v = noise(i * 1000 + round, 3000 + (i as usize % 7) * 20_000);
                db.put(WriteOptions::default(), k.clone(), v.clone()).unwrap();
                model.insert(k, v);
            }
            // and a new neighbour key
            let k2 = format!("key{:05}", i * 10 + round + 1).into_bytes();
            let v2 = noise(i * 77 + round, 100);
            db.put(WriteOptions::default(), k2.clone(), v2.clone()).unwrap();
            model.insert(k2, v2);
        }
        flush(&db);
        eprintln!("after round {}: {:?}", round, levels(&db));
    }
    let lv = levels(&db);
    assert!(lv[3] > 0, "level 3 not reached: {:?}", lv);
    let expected: Vec<(Vec<u8>, Vec<u8>)> = model.iter().map(|(k, v)| (k.clone(), v.clone())).collect();
    let mut it = db.new_iterator(ReadOptions::default()).unwrap();
    let f = collect_fwd(&mut it);
    assert!(f == expected, "fwd differs {} vs {}", f.len(), expected.len());
    let b = collect_bwd(&mut it);
    assert!(b == expected, "bwd differs {} vs {}", b.len(), expected.len());
    // zig-zag: at every position do next,prev,prev,next
    for (idx, (k, v)) in expected.iter().enumerate() {
        it.seek(k).unwrap();
        assert!(it.current().unwrap() == (k, v), "seek {}", idx);
        if idx + 1 < expected.len() {
            it.next();
            assert!(it.current().unwrap().0 == &expected[idx + 1].0, "next at {}", idx);
            it.prev();
            assert!(it.current().unwrap() == (k, v), "next/prev at {}", idx);
        }
        if idx > 0 {
            it.prev();
            assert!(it.current().unwrap().0 == &expected[idx - 1].0, "prev at {}", idx);
            it.next();
            assert!(it.current().unwrap() == (k, v), "prev/next at {}", idx);
        }
        // seek between keys
        let mut t = k.clone();
        t.push(0);
        it.seek(&t).unwrap();
        if idx + 1 < expected.len() {
            assert!(it.current().unwrap().0 == &expected[idx + 1].0, "seek-after at {}", idx);
            it.prev();
            assert!(it.current().unwrap() == (k, v), "seek-after/prev at {}", idx);
        } else {
            assert!(!it.is_valid());
        }
    }
    assert!(it.status().is_none());
}
